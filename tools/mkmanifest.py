#!/usr/bin/env python3
"""Regenerates MANIFEST.json from the table below (single source of truth for registration)."""
import json, os
V = os.path.dirname(os.path.dirname(os.path.abspath(__file__)))

CHECKS = {
 # id: (category, text, design_ref, level_note, technique)
 "C08": ("model_checking",
         "TLC exhaustively checks that the code-shaped model MempoolImpl (fee-sum cache, conflicts map, oracle map, policy ratchet) "
         "satisfies every invariant and action property of the abstract specification Mempool on four universes; TLC simulation "
         "behaviours of that model and seeded random histories are executed on the real mempool.Pool and every recorded step is "
         "judged by TLC against the abstract specification (MempoolTrace). Bounded exhaustive at model level, sampled at code level.",
         "DESIGN.md section 4 C08",
         "Trusted: TLC, the stub Feer (balances change only at RemoveStale), the projection of real transactions to abstract records "
         "(read back from the real Transaction objects). Universes are small (5-6 transactions exhaustive, 8-17 random).",
         "TLA+ two-level spec; TLC exhaustive Impl=>Abstract; TLC simulation replay on real Pool; TLC trace validation of recorded steps"),
 "C01": ("model_checking",
         "TLC exhaustively checks Node.tla (replicas x AddBlock/Flush/Stop/Crash/Restart schedules over all vote/plain chains with committee "
         "epochs: equal height => equal ledger state, equal to the never-restarted reference; disk is a prefix) and generates schedules; the "
         "schedules are executed on real core.Blockchain replicas on MemoryStore/BoltDB/LevelDB with different node-local options, fed the "
         "same serialized blocks of a generated history (transfers, votes/candidates across epochs, policy/roles, deploy/update/destroy, "
         "storage-heavy and faulting invocations, notary deposits); after every step a 13-component digest of the replica is recorded and "
         "TLC (NodeTrace) checks it equals the reference node's digest at that height, that flushes change no answer and that a clean "
         "stop/restart is transparent. Sampled at code level (histories x schedules), exhaustive at model level.",
         "DESIGN.md section 4 C01",
         "Trusted: TLC; the digest (state root, full storage dump of native ids and deployed ids 1..24, AERs of the top block, committee/"
         "validators/candidates, policy values, native+deployed contract states, roles) as the notion of 'ledger state'; the history generator "
         "produces only blocks the reference node accepted; block signers stay the standby validators (NextConsensus fixed) while the computed "
         "committee/validators vary with votes. StateRootInHeader varies per world, not between replicas of one world.",
         "TLA+ Node model checked by TLC; TLC-generated schedules replayed on real replicas; TLC trace validation of per-step digests"),
 "C03": ("model_checking",
         "On the C01 worlds (real replicas in all trie modes, TLC schedules, generated histories) every replica reads, at each height and for "
         "retained earlier heights, THROUGH THE STATE ROOT: the full trie content (range search per contract), point reads of present/absent "
         "keys, bounded finds (prefix/start/max), proofs (GetStateProof+VerifyProof, also offered for other keys and tampered) and ~40-100 "
         "read-only scripts as historic invocations (balances, unclaimedGas, candidates, policy, storage get/find incl. backwards). TLC "
         "(StateTrace.tla) recomputes every answer from the reference node's flat storage dump / live script results of that height: "
         "RootCommits, GetMatches, FindMatches, ProofComplete, ProofSound, HistoricEqualsLive, HistoricAvailable. Node.tla is model-checked "
         "for the schedule space. Sampled at code level.",
         "DESIGN.md section 4 C03",
         "Trusted: TLC; the reference node's SeekStorage dump as 'what contract storage held after block h' (its ordering is itself checked, "
         "RefSorted); retention rule per configuration (only retained heights are judged); bounded find judged under its documented semantics.",
         "TLC trace validation of reads through state roots against the flat-storage reference; TLC-generated schedules on real replicas"),
 "C16": ("model_checking",
         "TLC checks exhaustively that the code-shaped model FlagsImpl (SyscallHandler flag check, Contract.Call -> callInternal -> callExFromNative, "
         "CallFromNative, LoadScript, gated effects; named deviations BugNoIntersect/BugNoSafeStrip/BugPutNoCheck) satisfies the abstract predicates of "
         "Flags (FlagsShrink, EnterConfined, EffectImpliesFlag, SafeNeverWrites, EndToEnd, CallEndToEnd) for all 16 root flag sets and 3 (thorough 4) "
         "nested calls. TLC enumerates every call chain of <=3 hops x 16 requested flag sets x safe/non-safe (33,824 chains) with the specified answers; "
         "each chain x 5 probe operations runs on the real engine; all 41 system calls and all 125 native methods (+9 variants) run under 16 flag sets x 6-7 "
         "positions of the restricting set; seeded random chains of 3-6 hops and real block transactions are added. Every invocation is judged by TLC "
         "(FlagsTrace) on the flags read from the real vm.Context objects, the storage diff of the invocation's own DAO layer and the notification list. "
         "Permissions: TLC enumerates 6,312 (manifest, callee, method) cases and checks Impl = Abstract; each is realised by deployed contracts through "
         "System.Contract.Call and CALLT, and by Manifest.CanCall / Permission.IsAllowed on manifests read back from the chain; the spec is the oracle.",
         "DESIGN.md section 4 C16",
         "Trusted: TLC; the instruction hook reading real flags and stacks; attribution of an effect to the frame that executed the previous instruction; "
         "emit-built probe contracts and argument builders (39 of 41 non-safe native calls reach a write/notification under full flags; the two bare "
         "onNEP17Payment entries are reached through GAS.transfer variants). Single-validator neotest chain, Application trigger, all hardforks on. "
         "Verdict direction: observed effect => flag present, real call allowed => spec allows; the converse is drift.",
         "two-level TLA+ spec; TLC exhaustive Impl=>Abstract; TLC case enumeration replayed on the real engine; TLC trace validation of per-context flag/effect records"),
 "C18": ("model_checking",
         "PARTIAL (parallel multisig, Merkle root, VM integer codec). Multisig: TLC explores every interleaving of main loop, 3 workers, task channel "
         "(capacity 2) and result channel of vm.CheckMultisigPar for every realisable validity matrix with n<=5 keys (repeats allowed), m<=4 signatures and "
         "every boolean matrix with n,m<=4: answer = OrderedMatch, no deadlock, termination. All 21,456 delivery orders for n<=4 (sample for n=5) are "
         "replayed on the real vm.CheckMultisigPar with real P-256 keys/signatures, results released one at a time through the vm.VerifMultisigGate hook "
         "inside a testing/synctest bubble (hangs decided without sleeps), plus free-running calls, the System.Crypto.CheckMultisig script and random "
         "universes up to 12 keys / 8 signatures; every run judged by TLC against the validity matrix measured with real PublicKey.Verify. Merkle: in-place "
         "model = recursive definition for lengths 0..40 (thorough 0..260); printed root terms evaluated with SHA-256 and compared with hash.CalcMerkleRoot, "
         "NewMerkleTree().Root(), block.ComputeMerkleRoot/RebuildMerkleRoot. Integer codec: Enc checked against the abstract definition on boundary values "
         "up to 34 bytes and exhaustively on short strings / small values; real bigint.ToBytes/FromBytes, stackitem.BigInteger.Bytes(), VM CONVERT and "
         "emit.BigInt judged by TLC (denotation, minimality, round trip, normalisation, input preserved).",
         "DESIGN.md section 4 C18",
         "NOT addressed (outside the studied family): sign/verify algebra, RFC 6979 reproducibility, WIF/NEP-2, Base58Check, address/Uint160/Uint256/Fixed8 "
         "string codecs. Trusted: TLC, Go's testing/synctest for quiescence, crypto/sha256, math/big readback, the gate hook sitting before "
         "verify-and-deliver; the hash is injective in the Merkle model; the validity matrix is taken from the real Verify.",
         "TLC exhaustive interleavings; gate-hook replay of TLC delivery orders on the real checker; TLC trace validation; spec-as-oracle enumeration"),
 "C19": ("model_checking",
         "DBFT.tla is an implementation-shaped model of dBFT 2.0 as integrated by pkg/consensus for one height (timer firings, deliveries of any sent "
         "payload to any validator at most once in any order, undelivered = lost, block sync, a silent set of at most f validators that changes over "
         "time); TLC checks Agreement, AcceptJustified and CommitLock exhaustively for N=4 (quick: one backup / the first primary silent with a view "
         "change; thorough: nobody silent in view 0, 2.1M states, and progress under weak fairness), a named deviation (BugQuorum) must be caught. TLC "
         "simulation supplies schedules, including goal-directed ones (random walks reaching 'commits in different views', 'block after a view change', "
         "'exactly a quorum accepted'). They are replayed one event at a time on 4 and 7 REAL consensus.Service instances, each on its own real ledger, "
         "real bqueue and real extensible pool (wire decode, witness check, de-duplication), with an injected virtual dBFT timer and an event-loop idle "
         "callback (build tag verif); a seeded random adversary adds late/repeated payloads incl. recovery traffic, timers, transactions reaching only some "
         "validators, block relays and changing silent sets; all-honest fully-delivering phases and runs follow. TLC (DBFTTrace) judges: Agreement (one "
         "hash per height over all ledgers and all assembled blocks), Acceptable (every block a validator assembles carries a witness that its peers' "
         "ledgers accept; every committed block fed through the wire encoding is accepted by every other ledger), Progress and TxIncluded where the "
         "statement's liveness condition holds.",
         "DESIGN.md section 4 C19",
         "Trusted: TLC; the harness network and virtual clock; 'silent = late' (no deliveries to and no timer of a silent validator); synchrony = "
         "everything delivered, blocks relayed through the block queue, earliest virtual deadline fires when nothing else can happen; Progress bound 6N "
         "rounds per block. Liveness is judged only where everybody was honest and everything was delivered since the height began (after an asynchronous "
         "period the left-over height may stall: known dBFT 2.0 commit/view split, counted as stalls_after_asynchrony, not judged). Wall-clock only "
         "detects a dead driver (exit 2). One height per model run; recovery messages are not modelled (they are exercised on the real nodes).",
         "TLA+ dBFT model checked by TLC; TLC (goal-directed) schedules replayed on real consensus services with virtual time; TLC trace validation"),
 "C05": ("model_checking",
         "TLC exhaustively checks that the code-shaped model Tokens.tla (transfers incl. self/zero, vote/unvote, register/unregister with drop-if-zero, mint, "
         "burn, claim, deposit, withdraw, notary fee, faulting transactions) preserves every law of TokenLaws.tla (NEO supply = 100,000,000 = sum of balances; GAS "
         "supply = sum of balances; candidate votes = NEO of its voters, also for unregistered-but-voted candidates; voters count; Notary GAS = sum of deposits; "
         "no negative balance) and that each step's balance change equals the net of the Transfer events it emits; nine named deviations are each caught. "
         "TLC-generated behaviours are executed as real transactions on a real chain, seeded random histories are added (histgen with token weights raised, "
         "contracts with payment callbacks that throw/forward/pull/vote, try-wrapped and faulting transfers, registration by payment, notary-assisted "
         "transactions, account blocking, epoch rewards). After every block the ledger is read FROM STORAGE (NEO/GAS/Notary items decoded) and the block's "
         "Transfer events from stored execution results; TLC (TokensTrace) evaluates all 9 laws with exact big-number arithmetic (BigNat.tla, cross-checked "
         "against TLC integers) at every block boundary.",
         "DESIGN.md section 4 C05",
         "Trusted: TLC; the decoders in pkg/core/state; BigNat (cross-checked). Reward/claim/fee amounts are not predicted (taken from events): only "
         "conservation is judged. Observation at block boundaries only. Transfer events counted: native NEO/GAS hashes in HALT executions of OnPersist, "
         "transactions and PostPersist.",
         "TLA+ judge + code-shaped model checked by TLC; TLC behaviours replayed on a real chain; TLC trace validation of per-block storage projections"),
 "C15": ("model_checking",
         "The witness check grants exactly where the abstract specification Witness.tla grants, shown on real code for every enumerated cell through "
         "System.Runtime.CheckWitness in real deployed contracts and through WitnessCondition.Match on a stub context: 3,926 signer configurations (each "
         "scope alone with all parameter lists; all 1,848 single rules over condition trees of depth <=2 and all 1,764 two-rule lists; all 16 scope-bit "
         "combinations; subject identity/position variants incl. contract and zero-hash signers) x 925 call contexts of up to 3 links (contracts with and "
         "without groups, native GAS as caller through onNEP17Payment, LoadScript dynamic scripts incl. a dynamic copy of the entry script, frames without "
         "ReadStates) x up to 7 accounts (signer under test, other signers, a non-signer, calling/current/entry hashes): 3.3M cells quick, 10.3M thorough. "
         "TLC also checks over the same cells that the neo-go-shaped model WitnessImpl refines the abstract spec; 5 named deviations are refuted; seeded "
         "random signer lists (depth-3 trees, up to 4 rules, 3 signers) are judged by TLC; 32 cells per run go through signed transactions in blocks.",
         "DESIGN.md section 4 C15",
         "Trusted: hand-assembled probe bytecode; the GetTestVM execution path; a neotest chain with all stable hardforks; the wire round trip of signers; TLC. "
         "The harness's contexts are cross-checked frame by frame against the spec's universe (mismatch = exit 2). One tolerance pinned by the repository's own "
         "tests: in a frame without ReadStates a signer with the CustomGroups bit may be refused (fault) - recorded, not judged.",
         "spec-as-oracle exhaustive enumeration by TLC; Impl=>Abstract model check; TLC judging of recorded observations"),
}

NOT_YET = {}   # id -> reason (properties not (yet) claimed)
NA = {
 "C14": "not applicable to the studied family: relates two programs (Go source vs emitted bytecode) over an unbounded program space with the Go toolchain as oracle; no state machine, schedule or history to model (DESIGN.md section 5)",
 "C17": "not applicable to the studied family: byte-level encode/decode fidelity of ~20 formats over all byte strings is grammar restatement, which TLC cannot enumerate; the one behavioural slice (identity of a transaction received in a non-canonical encoding) is reached through C07 (DESIGN.md section 5)",
}

def main():
    props = [json.loads(l) for l in open(os.path.join(V, "properties.jsonl"))]
    checks, na = [], []
    for p in props:
        i = p["id"]
        if i in CHECKS:
            cat, text, ref, note, tech = CHECKS[i]
            checks.append({
                "property_id": i,
                "quick_cmd": "tools/vcheck %s --tier quick" % i,
                "thorough_cmd": "tools/vcheck %s --tier thorough" % i,
                "evidence_file": "evidence/%s.json" % i,
                "replay_cmd_template": "tools/vcheck %s --replay {path}" % i,
                "engine": "tlc+go",
                "level_claimed": {"category": cat, "text": text, "design_ref": ref},
                "level_note": note,
                "technique": tech,
            })
        elif i in NA:
            na.append({"property_id": i, "reason": NA[i]})
        else:
            na.append({"property_id": i, "reason": NOT_YET.get(i, "not claimed yet: machinery for this property is not built/registered at this commit (planned in DESIGN.md section 4)")})
    m = {
        "version": 1,
        "setup_cmd": "tools/setup.sh",
        "hooks": {
            "guard": "verif",
            "enable": "go test -tags verif (drivers under /verif/harness are built with -tags verif against /repo through a replace directive)",
            "baseline_off_cmd": "cd /repo && export GOFLAGS=-mod=mod GOPROXY=off && go test -vet=off -count=1 -timeout 25m ./... && (cd internal/contracts/oracle_contract && go test -vet=off -count=1 ./...) && (cd pkg/interop && go test -vet=off -count=1 ./...)",
            "source_commits": HOOK_COMMITS,
            "add_only": True,
        },
        "engines": [
            {"name": "tlc+go", "path": "tools/vcheck", "serves_properties": sorted(CHECKS),
             "kind_free_text": "python runner: TLC exhaustive model checking of TLA+ specs under spec/, TLC simulation/enumeration for behaviour generation, Go drivers under harness/ executing behaviours on the real neo-go packages and recording NDJSON traces, TLC trace validation against the abstract specs"},
        ],
        "checks": checks,
        "not_applicable": na,
        "notes": "Model-based verification with explicit TLA+ specifications; see DESIGN.md. Exit 2 of a check means inconclusive (infrastructure), never a verdict.",
    }
    json.dump(m, open(os.path.join(V, "MANIFEST.json"), "w"), indent=1)

HOOK_COMMITS = ["5c76afc", "d2ac362", "a91511b"]
if __name__ == "__main__":
    main()
