#!/usr/bin/env python3
"""Regenerates MANIFEST.json from the table below (single source of truth for registration)."""
import json, os
V = os.path.dirname(os.path.dirname(os.path.abspath(__file__)))

CHECKS = {
 # id: (category, text, design_ref, level_note, technique)
 "C08": ("model_checking",
         "TLC exhaustively checks that the code-shaped model MempoolImpl (fee-sum cache, conflicts map, oracle map, policy ratchet) "
         "satisfies every invariant and action property of the abstract specification Mempool on four universes; TLC simulation "
         "behaviours of that model and seeded random histories are executed on the real mempool.Pool and every recorded step is "
         "judged by TLC against the abstract specification (MempoolTrace). Bounded exhaustive at model level, sampled at code level.",
         "DESIGN.md section 4 C08",
         "Trusted: TLC, the stub Feer (balances change only at RemoveStale), the projection of real transactions to abstract records "
         "(read back from the real Transaction objects). Universes are small (5-6 transactions exhaustive, 8-17 random). Extension notarypool: the same invariants "
         "are model-checked (NotaryPoolImpl, 3 universes, 2 named deviations) and judged by TLC (NotaryPoolTrace) on the node's SECOND pool, the P2P notary request pool: a "
         "real core.Blockchain plus a real, never-started network.Server (RelayP2PNotaryRequest and the post-block refresh the server registers), real deposits, a designated "
         "notary node, completed fallback/main transactions in blocks; per-depositor solvency is checked against the deposit record in Notary contract storage after every step "
         "and TryGetData must return the payload of exactly the pooled fallback. The staleness rule (expired / on chain => gone) is evaluated as information (drift) only.",
         "TLA+ two-level spec; TLC exhaustive Impl=>Abstract; TLC simulation replay on real Pool; TLC trace validation of recorded steps"),
 "C01": ("model_checking",
         "TLC exhaustively checks Node.tla (replicas x AddBlock/Flush/Stop/Crash/Restart schedules over all vote/plain chains with committee "
         "epochs: equal height => equal ledger state, equal to the never-restarted reference; disk is a prefix) and generates schedules; the "
         "schedules are executed on real core.Blockchain replicas on MemoryStore/BoltDB/LevelDB with different node-local options, fed the "
         "same serialized blocks of a generated history (transfers, votes/candidates across epochs, policy/roles, deploy/update/destroy, "
         "storage-heavy and faulting invocations, notary deposits); after every step a 13-component digest of the replica is recorded and "
         "TLC (NodeTrace) checks it equals the reference node's digest at that height, that flushes change no answer and that a clean "
         "stop/restart is transparent. Sampled at code level (histories x schedules), exhaustive at model level. Extension (spec/transferlog, "
         "harness/c01transfers): the RPC-visible token transfer log (batches, newest-first iteration with timestamp bounds, last-updated, "
         "transfer GC) is specified (TransferLog/TransferLogImpl, batch size 3, four named deviations caught) and the iteration answers of real "
         "replicas with different backends/flush/restart schedules are judged by TLC against the list rebuilt from the stored application logs.",
         "DESIGN.md section 4 C01",
         "Trusted: TLC; the digest (state root, full storage dump of native ids and deployed ids 1..24, AERs of the top block, committee/"
         "validators/candidates, policy values, native+deployed contract states, roles) as the notion of 'ledger state'; the history generator "
         "produces only blocks the reference node accepted; block signers stay the standby validators (NextConsensus fixed) while the computed "
         "committee/validators vary with votes. StateRootInHeader varies per world, not between replicas of one world.",
         "TLA+ Node model checked by TLC; TLC-generated schedules replayed on real replicas; TLC trace validation of per-step digests"),
 "C03": ("model_checking",
         "On the C01 worlds (real replicas in all trie modes, TLC schedules, generated histories) every replica reads, at each height and for "
         "retained earlier heights, THROUGH THE STATE ROOT: the full trie content (range search per contract), point reads of present/absent "
         "keys, bounded finds (prefix/start/max), proofs (GetStateProof+VerifyProof, also offered for other keys and tampered) and ~40-100 "
         "read-only scripts as historic invocations (balances, unclaimedGas, candidates, policy, storage get/find incl. backwards). TLC "
         "(StateTrace.tla) recomputes every answer from the reference node's flat storage dump / live script results of that height: "
         "RootCommits, GetMatches, FindMatches, ProofComplete, ProofSound, HistoricEqualsLive, HistoricAvailable. Node.tla is model-checked "
         "for the schedule space. Sampled at code level.",
         "DESIGN.md section 4 C03",
         "Trusted: TLC; the reference node's SeekStorage dump as 'what contract storage held after block h' (its ordering is itself checked, "
         "RefSorted); retention rule per configuration (only retained heights are judged); bounded find judged under its documented semantics.",
         "TLC trace validation of reads through state roots against the flat-storage reference; TLC-generated schedules on real replicas"),
 "C16": ("model_checking",
         "TLC checks exhaustively that the code-shaped model FlagsImpl (SyscallHandler flag check, Contract.Call -> callInternal -> callExFromNative, "
         "CallFromNative, LoadScript, gated effects; named deviations BugNoIntersect/BugNoSafeStrip/BugPutNoCheck) satisfies the abstract predicates of "
         "Flags (FlagsShrink, EnterConfined, EffectImpliesFlag, SafeNeverWrites, EndToEnd, CallEndToEnd) for all 16 root flag sets and 3 (thorough 4) "
         "nested calls. TLC enumerates every call chain of <=3 hops x 16 requested flag sets x safe/non-safe (33,824 chains) with the specified answers; "
         "each chain x 5 probe operations runs on the real engine; all 41 system calls and all 125 native methods (+9 variants) run under 16 flag sets x 6-7 "
         "positions of the restricting set; seeded random chains of 3-6 hops and real block transactions are added. Every invocation is judged by TLC "
         "(FlagsTrace) on the flags read from the real vm.Context objects, the storage diff of the invocation's own DAO layer and the notification list. "
         "Permissions: TLC enumerates 6,312 (manifest, callee, method) cases and checks Impl = Abstract; each is realised by deployed contracts through "
         "System.Contract.Call and CALLT, and by Manifest.CanCall / Permission.IsAllowed on manifests read back from the chain; the spec is the oracle.",
         "DESIGN.md section 4 C16",
         "Trusted: TLC; the instruction hook reading real flags and stacks; attribution of an effect to the frame that executed the previous instruction; "
         "emit-built probe contracts and argument builders (39 of 41 non-safe native calls reach a write/notification under full flags; the two bare "
         "onNEP17Payment entries are reached through GAS.transfer variants). Single-validator neotest chain, Application trigger, all hardforks on. "
         "Verdict direction: observed effect => flag present, real call allowed => spec allows; the converse is drift.",
         "two-level TLA+ spec; TLC exhaustive Impl=>Abstract; TLC case enumeration replayed on the real engine; TLC trace validation of per-context flag/effect records"),
 "C18": ("model_checking",
         "Parallel multisig, Merkle root and the VM integer codec (below), the number / identifier codecs and the key / signature algebra (extensions, at the end). "
         "Multisig: TLC explores every interleaving of main loop, 3 workers, task channel "
         "(capacity 2) and result channel of vm.CheckMultisigPar for every realisable validity matrix with n<=5 keys (repeats allowed), m<=4 signatures and "
         "every boolean matrix with n,m<=4: answer = OrderedMatch, no deadlock, termination. All 21,456 delivery orders for n<=4 (sample for n=5) are "
         "replayed on the real vm.CheckMultisigPar with real P-256 keys/signatures, results released one at a time through the vm.VerifMultisigGate hook "
         "inside a testing/synctest bubble (hangs decided without sleeps), plus free-running calls, the System.Crypto.CheckMultisig script and random "
         "universes up to 12 keys / 8 signatures; every run judged by TLC against the validity matrix measured with real PublicKey.Verify. Merkle: in-place "
         "model = recursive definition for lengths 0..40 (thorough 0..260); printed root terms evaluated with SHA-256 and compared with hash.CalcMerkleRoot, "
         "NewMerkleTree().Root(), block.ComputeMerkleRoot/RebuildMerkleRoot. Integer codec: Enc checked against the abstract definition on boundary values "
         "up to 34 bytes and exhaustively on short strings / small values; real bigint.ToBytes/FromBytes, stackitem.BigInteger.Bytes(), VM CONVERT and "
         "emit.BigInt judged by TLC (denotation, minimality, round trip, normalisation, input preserved).",
         "DESIGN.md section 4 C18",
         "The cryptographic primitives themselves (ECDSA, scrypt, AES, SHA-256, RIPEMD-160) are uninterpreted: the algebra the statement asserts over them is "
         "specified and judged, their arithmetic is not. Trusted: TLC, Go's testing/synctest for quiescence, crypto/sha256, math/big readback, the gate hook sitting before "
         "verify-and-deliver; the hash is injective in the Merkle model; the validity matrix is taken from the real Verify.",
         "TLC exhaustive interleavings; gate-hook replay of TLC delivery orders on the real checker; TLC trace validation; spec-as-oracle enumeration"),
 "C19": ("model_checking",
         "DBFT.tla is an implementation-shaped model of dBFT 2.0 as integrated by pkg/consensus for one height (timer firings, deliveries of any sent "
         "payload to any validator at most once in any order, undelivered = lost, block sync, a silent set of at most f validators that changes over "
         "time); TLC checks Agreement, AcceptJustified and CommitLock exhaustively for N=4 (quick: one backup / the first primary silent with a view "
         "change; thorough: nobody silent in view 0, 2.1M states, and progress under weak fairness), a named deviation (BugQuorum) must be caught. TLC "
         "simulation supplies schedules, including goal-directed ones (random walks reaching 'commits in different views', 'block after a view change', "
         "'exactly a quorum accepted'). They are replayed one event at a time on 4 and 7 REAL consensus.Service instances, each on its own real ledger, "
         "real bqueue and real extensible pool (wire decode, witness check, de-duplication), with an injected virtual dBFT timer and an event-loop idle "
         "callback (build tag verif); a seeded random adversary adds late/repeated payloads incl. recovery traffic, timers, transactions reaching only some "
         "validators, block relays and changing silent sets; all-honest fully-delivering phases and runs follow. TLC (DBFTTrace) judges: Agreement (one "
         "hash per height over all ledgers and all assembled blocks), Acceptable (every block a validator assembles carries a witness that its peers' "
         "ledgers accept; every committed block fed through the wire encoding is accepted by every other ledger), Progress and TxIncluded where the "
         "statement's liveness condition holds.",
         "DESIGN.md section 4 C19",
         "Trusted: TLC; the harness network and virtual clock; 'silent = late' (no deliveries to and no timer of a silent validator); synchrony = "
         "everything delivered, blocks relayed through the block queue, earliest virtual deadline fires when nothing else can happen; Progress bound 6N "
         "rounds per block. Liveness is judged only where everybody was honest and everything was delivered since the height began (after an asynchronous "
         "period the left-over height may stall: known dBFT 2.0 commit/view split, counted as stalls_after_asynchrony, not judged). Wall-clock only "
         "detects a dead driver (exit 2). One height per model run; recovery messages are not modelled (they are exercised on the real nodes). Extension extpool: the "
         "extensible payload pool in front of the consensus service (extpool.Pool Add/Get/GetCategory/RemoveStale): ExtPoolImpl checked exhaustively by TLC over 3 universes "
         "with 3 named deviations; TLC behaviours and seeded random histories (12 sender classes incl. multisig and state validators, 6 bad-witness kinds, same-hash twins, "
         "delayed RemoveStale) replayed on a real pool over a real ledger with really signed payloads, every step judged by TLC (ExtPoolTrace): nothing invalid is accepted "
         "or served, valid payloads the pool does not hold are accepted (re-admission after eviction), held payloads are filtered; eviction order, capacity and "
         "RemoveStale retention are drift only.",
         "TLA+ dBFT model checked by TLC; TLC (goal-directed) schedules replayed on real consensus services with virtual time; TLC trace validation"),
 "C05": ("model_checking",
         "TLC exhaustively checks that the code-shaped model Tokens.tla (transfers incl. self/zero, vote/unvote, register/unregister with drop-if-zero, mint, "
         "burn, claim, deposit, withdraw, notary fee, faulting transactions) preserves every law of TokenLaws.tla (NEO supply = 100,000,000 = sum of balances; GAS "
         "supply = sum of balances; candidate votes = NEO of its voters, also for unregistered-but-voted candidates; voters count; Notary GAS = sum of deposits; "
         "no negative balance) and that each step's balance change equals the net of the Transfer events it emits; nine named deviations are each caught. "
         "TLC-generated behaviours are executed as real transactions on a real chain, seeded random histories are added (histgen with token weights raised, "
         "contracts with payment callbacks that throw/forward/pull/vote, try-wrapped and faulting transfers, registration by payment, notary-assisted "
         "transactions, account blocking, epoch rewards). After every block the ledger is read FROM STORAGE (NEO/GAS/Notary items decoded) and the block's "
         "Transfer events from stored execution results; TLC (TokensTrace) evaluates all 9 laws with exact big-number arithmetic (BigNat.tla, cross-checked "
         "against TLC integers) at every block boundary.",
         "DESIGN.md section 4 C05",
         "Trusted: TLC; the decoders in pkg/core/state; BigNat (cross-checked). Reward/claim/fee amounts are not predicted (taken from events): only "
         "conservation is judged. Observation at block boundaries only. Transfer events counted: native NEO/GAS hashes in HALT executions of OnPersist, "
         "transactions and PostPersist.",
         "TLA+ judge + code-shaped model checked by TLC; TLC behaviours replayed on a real chain; TLC trace validation of per-block storage projections"),
 "C15": ("model_checking",
         "The witness check grants exactly where the abstract specification Witness.tla grants, shown on real code for every enumerated cell through "
         "System.Runtime.CheckWitness in real deployed contracts and through WitnessCondition.Match on a stub context: 3,926 signer configurations (each "
         "scope alone with all parameter lists; all 1,848 single rules over condition trees of depth <=2 and all 1,764 two-rule lists; all 16 scope-bit "
         "combinations; subject identity/position variants incl. contract and zero-hash signers) x 925 call contexts of up to 3 links (contracts with and "
         "without groups, native GAS as caller through onNEP17Payment, LoadScript dynamic scripts incl. a dynamic copy of the entry script, frames without "
         "ReadStates) x up to 7 accounts (signer under test, other signers, a non-signer, calling/current/entry hashes): 3.3M cells quick, 10.3M thorough. "
         "TLC also checks over the same cells that the neo-go-shaped model WitnessImpl refines the abstract spec; 5 named deviations are refuted; seeded "
         "random signer lists (depth-3 trees, up to 4 rules, 3 signers) are judged by TLC; 32 cells per run go through signed transactions in blocks. Extension "
         "(spec/witnessdyn, harness/c15dyn): the same rule while the contract table changes under the running invocation - a neo-go-shaped model (DAO layers "
         "owning/inheriting ContractManagement's cache, try-wrapped call layers, FAULT / caught-exception rollback, _deploy callbacks, VM contexts with load-time "
         "manifests) refines 'Witness!CheckX over the CURRENT table' (3 contracts, 2 groups, depth <=3, <=2 table changes per transaction, 2 transactions: 1.6M "
         "states; 5 named deviations refuted); TLC-generated and seeded histories (self-update/destroy, re-entrant updates, deploy-and-call, THROW caught by a "
         "caller, ABORT, interleaved test invocations) run as real signed transactions, CheckWitness asked after every step and judged by WitnessDynTrace.",
         "DESIGN.md section 4 C15",
         "Trusted: hand-assembled probe bytecode; the GetTestVM execution path; a neotest chain with all stable hardforks; the wire round trip of signers; TLC. "
         "The harness's contexts are cross-checked frame by frame against the spec's universe (mismatch = exit 2). One tolerance pinned by the repository's own "
         "tests: in a frame without ReadStates a signer with the CustomGroups bit may be refused (fault) - recorded, not judged.",
         "spec-as-oracle exhaustive enumeration by TLC; Impl=>Abstract model check; TLC judging of recorded observations"),
 "C02": ("model_checking",
         "NodeDisk.tla models the node's disk as the persisted facts start-up reads (tip pointers, bodies, headers, header-hash pages, state roots, flat-storage "
         "height per prefix, active prefix, stage markers, GC mark) that change ONLY by the atomic batches the real node issues: flush, the GC passes, Reset's "
         "asynchronously flushed stage batches (incl. merges and the concurrent stale-prefix GC) and the state-jump stages. TLC exhaustively checks that a crash "
         "between any two batches (up to 3 per behaviour) followed by restart/resume satisfies NoDead, HeightBound, RecoverOK, ResetConfluence and "
         "MarkersFollowData; six named deviations are each caught. TLC-generated schedules run on a real core.Blockchain behind a recording store; EVERY prefix "
         "of the recorded batch sequence (plus the other order of concurrently issued batches, plus second crashes during a resume) is reopened with "
         "core.NewBlockchain and compared with a never-restarted reference: digest at the recovered height, trie-vs-flat, acceptance of all remaining blocks with a "
         "digest per block, raw database dump against the uninterrupted reset/jump. Recorded batches and outcomes are judged by TLC (NodeDiskTrace). "
         "Extension (spec/headerhashes, harness/c02hdrhashes): header-hash paging (pages of 2000, previous/latest page, LRU, GC of pages, trusted-header "
         "start, a trusted header configured on an existing database, Reset across a page boundary) modelled with page size 3, seven named deviations "
         "caught, and chains of up to 6140 headers on the real node with EVERY batch boundary reopened and all indexes swept.",
         "DESIGN.md section 4 C02",
         "Crash points are exactly the PutChangeSet/SeekGC commits (backend atomicity assumed, no torn batches). Images are replayed into a MemoryStore and "
         "checked against the real backend at the end of each run; BoltDB worlds also reopen file copies taken after each commit, LevelDB worlds reopen a fresh "
         "DB holding the image. Flush and GC only between blocks. State sync: MPT mode only, judged from the first jump batch on (collection-phase crash points "
         "are not covered).",
         "TLA+ disk/batch model checked by TLC; crash-point enumeration on real code (every batch prefix reopened); TLC trace validation"),
 "C04": ("model_checking",
         "TLC checks exhaustively that neo-go's layering optimisation (a private DAO layer is pushed only if the calling contract is inside a TRY and the flags "
         "allow writes/notifications; commit or drop in the unload callback; native caches copied on write per layer; notification list truncated) equals an "
         "always-snapshot nested-transaction machine, for every call tree of 2-3 contracts, depth 2-3, 6-7 statements, 1-2 TRY levels, subroutines, a cached "
         "native setting, GAS transfers and onNEP17Payment callbacks; and that the recursive semantics Sem(tree) equals that machine on all 595k tree prefixes of "
         "<=5 statements; 5 named deviations are caught. All enumerated trees, TLC simulation walks and seeded random trees are compiled to real contracts "
         "(exact TRY/CATCH/FINALLY/CALL layout) and run in real blocks; TLC judges against Sem: VM state, storage, notifications (AER and subscription feed), "
         "balances, transfer log, Policy cache and storage, deployments, the fee-only rule for faulted transactions. Statement-level hook traces of the real VM "
         "are replayed through the machine (ExecSteps).",
         "DESIGN.md section 4 C04",
         "Trusted: TLC, the harness's emit-based tree compiler (checked indirectly by control-flow agreement of the step traces), neotest chain. Model bounds are "
         "global statement budgets. Calls made while an exception is pending are counted, not judged. AER.Events of a FAULTed transaction is not judged (the "
         "repository's own test pins that pre-fault notifications stay there); judged instead: nothing delivered to subscribers, no transfer logged. Natives "
         "covered: Policy.setFeePerByte, GAS.transfer, Management.deploy (abstract level).",
         "two-level TLA+ spec; TLC exhaustive Impl == nested transactions; TLC enumeration/simulation compiled to real contracts in real blocks; TLC trace validation"),
 "C06": ("model_checking",
         "Accept.tla states the property (a block is accepted only if valid and fitting the recorded header chain; a rejected block leaves ledger, mempool and "
         "store untouched; only a validly signed and linked header may be recorded; the correct block is still accepted afterwards). TLC checks the code-shaped "
         "AddBlock/AddHeaders model against it for every offer description in every reachable state, and prints the case table (8 chain-state kinds x "
         "StateRootInHeader x VerifyTransactions x AddBlock/AddHeaders x 50 corruption kinds x raw/resealed; 1557 rows). Every row is built as a real corrupted "
         "block from a generated valid next block and offered to a fresh real node; seeded single-bit flips of the wire bytes are offered too. TLC (AcceptTrace) "
         "judges every step from before/after observations: heights, tip, header chain, 13-component digest, state-root module, mempool incl. witnesses, full "
         "key/value dump of the store after a forced flush; then the correct block is offered and must reproduce the reference digest.",
         "DESIGN.md section 4 C06",
         "Trusted: the harness's own description of each offered block, its own Merkle/header-hash/multisig verifier (stdlib sha256/ECDSA), chainkit.Compute as "
         "the observation of ledger state. Transaction clauses judged with VerifyTransactions=true only. In-memory stores. The good block is required afterwards "
         "only when the header chain is untouched or holds the correct block's header. With VerifyTransactions=false a block with its last transaction "
         "duplicated (same Merkle root) is accepted - recorded as drift (configuration outside the judged clauses).",
         "TLC exhaustive Impl=>Abstract; TLC-enumerated case table replayed on real nodes; TLC trace validation"),
 "C10": ("model_checking",
         "TLC proves exhaustively on small universes (7 keys with prefix chains, long shared nibble prefixes, empty value; 5 keys with every change set) that the "
         "local Put/Delete rewrites of trie.go and the PutBatch restructuring of batch.go yield exactly the canonical structure Build(content) of MPTCanon.tla, that "
         "the three structural invariants of mpt/doc.go hold, and that proofs are complete, minimal and sound for every subset of own + foreign proof nodes under an "
         "injective hash. TLC-generated histories (put, delete, batch, flush, persist, collapse(n), reload incl. discard of unflushed changes, reads, searches, "
         "tampered proofs) are replayed on the real mpt.Trie in ModeAll/ModeLatest/ModeGC, seeded random histories over 5-30-key universes (max-length keys, long "
         "values) are added. Every step is judged by TLC: root = root of a fresh trie; root = real hash of the canonical structure TLC printed; node structure "
         "decoded by hash from the root = Build(content); Get, TrieStore.Get, Find, TrieStore.Seek agree with the content; VerifyProof complete, and sound under 15 "
         "tampering families.",
         "DESIGN.md section 4 C10",
         "Hash injectivity assumed (double SHA-256). The driver's node decoder and hash linking are independent of trie.go/batch.go. MemCachedStore over "
         "MemoryStore. Find/Seek judged on store-rooted tries over a flushed store (Trie.Find on a live unflushed trie collapses in-memory nodes: recorded as "
         "drift, production never does it). Keys strictly extending Prefix+Start in a backwards Seek are not judged (as in C09).",
         "TLA+/TLC exhaustive refinement of the restructuring code; TLC behaviour replay; TLC trace validation"),
 "C11": ("model_checking",
         "After every block, flush, GC run, re-initialisation and dropped block the raw DataMPT table of the real store is dumped and re-assembled in TLC "
         "(MPTRefTrace), which recomputes reachability and per-node occurrence counts FROM THE TABLE ITSELF and checks: stored count = occurrences in the latest "
         "trie; unreferenced nodes deleted (ModeLatest) or inactive with the exact height at which they died (ModeGC); every node of every retained root present "
         "and decodable; GC(G) removes nothing heights >= G need; retained roots read exactly, dropped roots fail or read exactly. Histories are TLC-generated from "
         "MPTRefImpl (on which TLC exhaustively proves Impl => Abstract, incl. blocks computed but never committed) and seeded random over six key universes; they "
         "run on stateroot.Module (PutBatch path), on mpt.Trie (single Put/Delete path) and on a full core.Blockchain with KeepOnlyLatestState / "
         "RemoveUntraceableBlocks (flushes and GC placed through the verif hooks).",
         "DESIGN.md section 4 C11",
         "Trusted: the harness's own decoder of raw records (cross-checked against the real decoder and the key hash); table read through the top write cache; the "
         "chain-layer GC height taken from the module's log entry. Model universes are tiny (3-4 keys, 1-2 values, 3-5 blocks). Completeness of GC (everything "
         "inactive <= G actually removed) is not judged.",
         "TLA+ abstract judge + code-shaped model (TLC exhaustive); TLC behaviours replayed on real code; dumped node tables validated by TLC"),
 "C20": ("model_checking",
         "Block queue: BlockQueueAbs states the first sentence of the statement (applied in index order, each at most once, reaches the highest contiguous block "
         "given); BlockQueue is a program-counter model of bqueue/queue.go (Put = height read + locked section, Blocking wait loop, Run = wait, read height, locked "
         "read + cleanup, AddItem, locked clear; Discard; External writer; Requester transcribed from Server.requestBlocks). TLC checks exhaustively that it refines "
         "the abstract spec plus NoStuck, WindowOnly, NoPanic, LenExact, ReqNotStarved and convergence under weak fairness (Cap 2-3, 2-3 producers, <=8 Puts, "
         "Blocking mode, Discard, H0>0); named deviations are caught. TLC behaviours, BFS witnesses of named situations and ~4,000 (quick) / 40,000 (thorough) "
         "random schedules run on the REAL bqueue.Queue with real goroutines gated at Height()/AddItem() (two-phase gates reproduce stale reads); every scenario is "
         "drained to a quiescent state decided from goroutine states, completed, and judged event by event by TLC (BlockQueueTrace). State synchronisation: see "
         "level_note.",
         "DESIGN.md section 4 C20",
         "The harness ledger accepts exactly height+1 (the real ledger is C06's subject). Server.requestBlocks is transcribed by hand. The wake-up receive has no "
         "gate: delayed-wake schedules are covered by the model only. The Go goroutine-dump format is trusted for the 'parked' decision (a format change gives exit "
         "2). Outside the statement, reported in the evidence only: the runner is not re-signalled when the ledger advances by another writer. The state-sync half "
         "of the statement is covered at crash-point level by C02's jump worlds; a dedicated StateSync model/harness is registered here when built.",
         "TLA+ PC model + refinement checked by TLC; gated goroutine replay on the real queue; TLC trace validation"),
 "C07": ("model_checking",
         "TLC enumerates every admission cell (the valid transaction and every transaction invalid in exactly one respect: 11 standard witness kinds, contract "
         "and custom witnesses, cosigners, all attribute rules incl. Oracle and Notary, size up to MaxTransactionSize +-1, validity-window edges, balance edges, fee "
         "slack -1/0/+1, 23 encodings and 10 malformed containers), checks that the code-shaped order of checks (NewTransactionFromBytes / verifyAndPoolTx / "
         "pool.Add / ApplyPolicyToTxSet; 4 named deviations) agrees with the abstract defect sets incl. two-defect cells, and that the packing model stays within "
         "limits on all pools of <=4 transactions x 240 limit records. Every cell is realised as wire bytes, parsed with NewTransactionFromBytes and offered to "
         "PoolTx and VerifyTx on chains with default and seeded Policy values; TLC (AdmissionTrace) judges Sound / FeeExact / Consistent. Proposals from real pools "
         "(TLC pack cases, an encoding sweep, seeded mixes) go through ApplyPolicyToTxSet -> block -> EncodeBinary -> DecodeBinary -> AddBlock on an independent "
         "replica; TLC judges Proposable and WithinLimits byte-exactly. Extension conflictrec (spec/conflictrec, harness/c07conflicts): the on-chain side of the "
         "Conflicts rule is a state machine of its own; the verdict for an offered transaction is computed from the chain itself (reject / accept / open outside "
         "the traceability window); TLC checks exhaustively (3 signers, 4 hashes, <=3 Conflicts attributes, <=4 blocks, window 2: 2.0M states) that the "
         "code-shaped record store (StoreAsTransaction / HasTransaction / DeleteBlock / RemoveStale) answers soundly for every candidate, 5 named deviations "
         "refuted; behaviours are replayed on a real dao.Simple (every GC order) and on pairs of real nodes (plain + RemoveUntraceableBlocks, chains crossing "
         "height 2000, restarts, proposals as wire bytes to every node); after every block every transaction of the universe is offered to a fresh pool of every "
         "node and ConflictRecTrace judges Sound / Admits / Proposable.",
         "DESIGN.md section 4 C07",
         "Trusted: the chainkit network, the neotest executor (preparation only), the harness's re-encoder. Chain states are prepared chains, not arbitrary histories. "
         "The fee threshold is judged for the canonical encoding; for non-minimal encodings only soundness against the canonical size and proposability are judged. "
         "Contract-based witnesses are judged only for PoolTx/VerifyTx consistency. The replica is a second Blockchain fed wire bytes (consensus exchange is C19). "
         "conflictrec: verdicts outside the traceability window are left open; the real collector runs twice per world (heights 2000/2001), other GC orders only "
         "at dao level; one known finding (a collecting proposer admits a transaction naming a collected transaction, a plain node refuses the block).",
         "spec-as-oracle enumeration by TLC; TLC trace validation; wire-round-trip replication on an independent replica"),
 "C09": ("model_checking",
         "TLC exhaustively checks the code-shaped read-path model (KVSeekImpl: lookup through layers with tombstones, performSeek's merge of the sorted cached "
         "snapshot with the lower store's ordered scan, SearchDepth, prefix trimming) against the abstract ordered map KVStore for every stack of the universe and "
         "every range (prefix x start x direction x SearchDepth x trimming): Result = Ref and Get = Ref (quick: 6 keys, <=3 entries, 2 layers; thorough: 8 keys with "
         "336 ranges per stack, 3 layers, depth 0-3). Backend range translations are decided at table level over a 37-key universe; every flush step leaves the map "
         "unchanged. KVPersistConc (writer / Persist as three steps incl. the backend-failure restore path / reader) is checked over all interleavings: a point read "
         "is exact in every Persist window, a committed key is never missing, no stale value. Model counterexamples, TLC simulation behaviours and seeded random "
         "histories are executed on real MemCachedStore stacks 1-5 deep (shared, private, dao.Simple, System.Storage.Find, SeekGC) over MemoryStore, BoltDB and "
         "LevelDB; concurrent schedules are replayed exactly through a gating backend; every answer is recomputed by TLC (KVTrace, KVConcTrace).",
         "DESIGN.md section 4 C09",
         "Trusted: TLC; the harness's split of batches; gates only at the backend's PutChangeSet entry/exit and Seek entry; the reference for a backward bound is "
         "prefix-inclusive (production backends' behaviour, callers rely on it). Values 2-3 bytes, keys <= 24 bytes. A LevelDB-only mismatch counts only if it "
         "reproduces on a fresh database (goleveldb's OpenTransaction path occasionally loses a batch: third-party, observed, not judged). Judged concurrent "
         "predicate: NoHalfBatch / never-missing / no-stale; one open known finding (seek-half-batch).",
         "two-level TLA+ spec; TLC exhaustive Impl=>Abstract; counterexamples and simulations replayed on real stores; gated schedule replay; TLC trace judging"),
 "C12": ("model_checking",
         "VMRef.tla transcribes pkg/vm/ref_counter.go exactly and has one action per collection instruction of vm.go (incl. struct cloning, slots, CALL/RET, TRY/THROW "
         "unloading); TLC exhaustively checks it against the counting clauses of VMLimits (counter >= walk always; counter = walk while no cycle was ever built; each "
         "item's own counter exact while acyclic) for 2-3 compound items x 1-2 elements, 2-3 stack cells, 1 static cell, 2 frames. Every transition of the quick state "
         "graphs (transition cover printed by TLC) is replayed on the real VM with round-robin opcode encodings; TLC simulation behaviours over larger heaps, TLC "
         "counterexamples, seeded random byte strings / opcode streams / mutants / well-typed 'go deep' programs, scripts walking up to each limit (2048 items in 11 ways, "
         "+-2^255, maximum item size, 1024 invocations, 16 try blocks) and near misses of the static script check are added, each under a generous and a tight gas "
         "limit. An observation is recorded before every executed instruction (opcode, offset, VerifRefs() hook, the harness's OWN walk of all stacks and slots, cycle "
         "detection, depths, gas) and TLC (VMTrace) evaluates all 12 clauses on every observation: HALT/FAULT only and no panic, gas <= limit, items/counter <= 2048, "
         "int <= 256 bits, item size, invocation depth, try depth, no under-count, exact when acyclic, executed offsets on instruction boundaries for statically accepted "
         "scripts.",
         "DESIGN.md section 4 C12",
         "Trusted: TLC; the harness's own walk and opcode-length table; a reflect read of Context.tryStack; the VerifRefs hook. Driven as vm.New + LoadWithFlags + "
         "SetGasLimit + Run with fee.Opcode prices; no syscall handler, so only CALL/CALLA contexts exist. A FAULT's leftover state is not judged. 'Cycle built' means a "
         "cycle among items reachable before or after an instruction.",
         "TLA+ refcount model checked by TLC; TLC-printed transition cover + simulation + counterexamples replayed on the real VM; TLC trace validation of per-instruction observations"),
 "C13": ("model_checking",
         "Spec as oracle: TLC evaluates an independent executable TLA+ specification of the side-effect-free NeoVM instruction set (VMSem.tla over VMVal.tla and the "
         "pure-TLA+ big integers of spec/common/BigInt.tla: unbounded integers with explicit 256-bit range checks, conversion and equality rules, reference identity, "
         "call frames, the exception-handling state machine) on about 11k (quick) / 142k (thorough) (script, initial stack) cases: opcode x boundary-operand tuples per "
         "family (0, +-1, +-2, 2^63+-1, +-2^127, 2^255-1, -2^255, 2^255, -2^255-1, 2^256-1, 32/33-byte strings, empty and long strings, negative encodings), control-flow "
         "and exception templates, exhaustive sequences of up to 3 instructions over 22 opcodes, and sequences of depth 10-14 from TLC simulation. The real VM runs every "
         "case twice in fresh VMs: HALT/FAULT, the whole final stack (types, values, aliasing) and run-to-run equality of stack, state and gas must match. The oracle's "
         "arithmetic is model-checked against algebraic laws on 576 boundary pairs (named deviation BugFloorDiv must be caught); a corrupted-oracle self-test must fail.",
         "DESIGN.md section 4 C13",
         "The specification is a transcription of the NeoVM (C#) reference semantics from knowledge of its source; there are no C# vectors in this tree (the neo-vm submodule is "
         "empty). Every disagreement on the unchanged tree was triaged; uncertain corners are narrowed out (listed at the end of VMSem.tla; ~11 SKIP cases per run; one recorded "
         "as drift only: ENDFINALLY in a called frame with an empty try stack while an exception is pending). The harness assembler/opcode table are trusted. Byte strings over "
         "64 bytes are compared by length, head/tail and a sampled checksum; the text of engine-raised exceptions is not compared; gas values are compared run-to-run only.",
         "TLC enumeration and simulation of an executable TLA+ specification; differential replay on pkg/vm; determinism double-run"),
 "C14": ("model_checking",
         "PARTIAL. Spec-based differential checking on a grammar-generated program space: programs are abstract syntax trees of a SUBSET of the documented "
         "dialect (GoSubset.tla: int/bool/string/[]byte/[]int/map[int]int/map[string]int/struct value/*struct; arithmetic, comparison, short-circuit logic, "
         "indexing, len, append (self-assign on unaliased slices), map comma-ok/delete, fields, pointer-receiver methods, calls with several / named results, "
         "bounded recursion, conversions string<->[]byte, if/else-if/init, the three for forms, range over slices/maps/string indexes, labelled break/continue, "
         "expression/tagless/fallthrough switch, early return, defer/recover/panic in the supported forms, globals with initialisers, shadowing blocks) with an "
         "executable TLA+ big-step semantics GoSem (total: ok | panic | out-of-scope; kept honest by 12 algebraic laws of Go and 7 named deviations that TLC refutes "
         "every run). EXHAUSTIVE small space (GoEnum): all expressions of depth <= 2 over two variables and the operator set (28k functions; every 8th in the quick "
         "tier), all && / || combinations with side-effecting operands, op=/++/-- on 7 kinds of lvalue, value/reference semantics of arguments, 536 statement "
         "skeletons of depth <= 2 (15 control structures x every legal filler, named-result and deferred variants). SAMPLED large space (GoGen): programs derived "
         "step by step by tlc -simulate (260 production choices, type directed: every program type checks), 1000 (quick) / 12800 (thorough) per run, 7 boundary "
         "argument vectors each. The SAME source text is compiled by pkg/compiler and run in the real VM through its manifest entry, and compiled by the standard Go "
         "toolchain and run natively; VM vs toolchain on the whole result value / panic is the verdict (failing programs are delta-debugged on the syntax tree); "
         "GoSem vs toolchain is drift only. SECOND CLAUSE: per compiled program (generated, probes, the 13 stand-alone contracts of /repo/examples and "
         "internal/contracts, compile only) manifest, debug information, decoded instruction stream, source declarations and call observations are judged by "
         "AbiMatches.tla (23 predicates, TLC trace validation). The undocumented dialect differences found on the unchanged tree are excluded from generation and "
         "kept as fixed probe programs (listed findings; three of them repaired).",
         "DESIGN.md section 10.10 (C14)",
         "NOT covered: the rest of the dialect (interop packages and syscalls, inlined helpers, interfaces and type assertions, lambdas, arrays, nested structs, "
         "slices of structs, variadics, multi-package programs, _deploy bodies), programs beyond the bounds (|integer| >= 2^30, 400 loop iterations + calls, "
         "260 derivation steps, depth 3), 64-bit overflow boundary behaviour, constructs of the exclusion register (documented X1-X6; undocumented U1-U14 as "
         "probes; G1-G3 left open by the Go specification: evaluation order variable-read vs call, map iteration order). Trusted: the Go toolchain (the oracle), "
         "go/types, the harness's pretty printer and result codec (self-tested by an altered-tree run: 200 cases must be flagged).",
         "executable TLA+ semantics as generator and drift detector; TLC exhaustive enumeration + simulation; differential replay on pkg/compiler + pkg/vm vs go build; TLC trace validation of ABI facts"),
 "C17": ("model_checking",
         "PARTIAL. What is decided is the part of the statement that is a state machine - PATH INDEPENDENCE of hash, reported sizes, canonical bytes and content - plus the "
         "round-trip, canonical-form and decode laws on value spaces TLC can enumerate; NOT all byte strings. WirePaths.tla: an object of 15 kinds (transaction, block, header, "
         "state root, extensible / consensus payloads, notary request, execution result, notification, NEF, manifest, contract state, trie node, witness rule tree, stack item) "
         "carries content plus explicit hash / size memo fields and travels along a path of transports (P2P message with the compression threshold, block body, mempool, "
         "database, RPC JSON, re-encoding, copy, from-bytes, stack item form, encode-in-place); invariants PathIndependent, SizeExact, NoRefusal, Confluent are checked "
         "exhaustively by TLC for all paths of length <= 3 (quick) / 4 (thorough) over canonical and non-canonical arrivals; nine named deviations (among them the two "
         "defects this check found and that were repaired) and the one quirk the code still has are refuted by TLC every run. TLC enumerates every such path (9.9k / 50k) and the "
         "driver realises each on a FRESH real object (values instantiated from TLC shapes, hand-made size classes, objects grown on two real ledgers by histgen), reading back "
         "hash / sizes / canonical bytes / content after the last hop; WireShapes.tla enumerates constructor trees (witness conditions to one level beyond the limit, all signer "
         "scope sets, attribute lists, stack items incl. shared / recursive / limit cases, manifests, NEF) with the documented limits as predicates: binary and JSON round trips, "
         "binary->JSON->binary, agreement of the two decoders; TLC-chosen mutations (operator x field x anchor) of valid encodings of 42 binary and 18 JSON formats are decoded in "
         "guarded child processes (5 s, 3 GB heap guard, allocation delta): error or re-encode/decode fixpoint with equal hash and sizes, no panic, bounded time and allocation. "
         "Every recorded hop / shape / mutation is judged by TLC (WireTrace). Six repairs made (see known_findings.json fixed:), 17 listed findings remain (JSON decoders accepting "
         "what the binary decoder refuses, reserved attribute JSON, invocation arguments lost through JSON).",
         "DESIGN.md section 10.10 (C17)",
         "NOT covered: arbitrary byte strings (only structured mutations of valid samples: operator x learnt field), formats outside the 42+18 listed in harness/c17wire/formats.go, "
         "paths longer than K, values beyond the shape bounds. Trusted: TLC, the field maps learnt through a recording reader, the content renderer of the harness (self-tested: 12 "
         "corrupted events must each be named by the judge, 10 model refutations must happen).",
         "TLA+ path model with explicit memo state; TLC exhaustive + enumeration of paths / shapes / mutations; replay of every case on real codecs; TLC trace validation"),
}

NOT_YET = {}   # id -> reason (properties not (yet) claimed)
NA = {}

# additions of later rounds, appended to the level text / level note of the property (DESIGN.md section 10.9)
EXTRA_TEXT = {
 "C01": " Later additions: the history generator also produces oracle requests and responses (signed by the currently designated oracle nodes, "
        "paid from the prepaid GAS, incl. wrong / repeated ids), contracts looking at the ledger's past around the traceability horizon, native "
        "settings of Oracle / Notary / Management / attribute fees and deep storage spines; LONG-CHAIN worlds (4 000+ blocks, quiet stretch) in which "
        "the collecting replicas really remove old blocks and transactions, followed by activity that refers to the removed past."
        " Extension oraclesvc (spec/oraclesvc, harness/c01oraclesvc): 4 (7 thorough) real oracle services on real ledgers with different node-local ledger and service options "
        "are fed the same blocks by a service-less producer; the blocks carry oracle requests and the response transactions the services built, co-signed (harness network: "
        "reorder / duplicate / drop / junk / outsider signatures) and sent themselves; the HTTP side is a scripted transport with a gate (no sleeps; quiescence read from the "
        "goroutine dump). JUDGED (C01): every node's digest equals the producer's at every height and after service or ledger restarts, every produced block is stored, finish is "
        "applied at most once per request, no panic. BEYOND the statement (observations 'beyond:<Pred>/<ground>', never violations): the response transaction as a function of "
        "(request, answer class, chain facts), agreement of the signed bytes between nodes, response-code and JSONPath tables, fee bounds, quorum of designated keys, acceptance "
        "by the ledger, send-when-quorum. OracleSvcImpl: one action per critical section, 14 named deviations refuted by TLC, exhaustive runs up to 1.3M states; behaviours by TLC "
        "simulation plus seeded schedules; TraceIO judge with 12 self-test corruptions. Found and repaired in /repo: 9e0aa89, 99cbbbc, 8ec6243.",
 "C02": " Later additions: worlds in which flushes run CONCURRENTLY with AddBlock (as the node's own persisting goroutine does; every resulting batch is a "
        "crash point). Extension synccrash (spec/synccrash, harness/c02synccrash): crashes at every atomic batch while state synchronisation COLLECTS - "
        "headers, trie nodes (shared nodes, reference counts, billet collapse, pool rebuilt by traversal), window blocks, the three stage changes and the "
        "jump - with flushes placed between deliveries by TLC schedules and second crashes during recovery; SyncCrash.tla judged by NoCorruption / Resumable / "
        "CrashTransparent (+ Lockstep on traces), eight named deviations refuted; every prefix of the recorded batch sequence of a real sink is reopened, "
        "continued and compared raw with an uninterrupted synchronisation.",
 "C03": " Later additions: deep storage spines (a key leaving a 40-60 byte key at every half-byte: proofs with one node per nibble) and a probe "
        "preferring the longest key; stateroot.Module driven the way storeBlock drives it in the archival trie mode with computed-but-dropped blocks, "
        "every stored root judged by TLC (MPTRefTrace read predicates) to give back exactly the content committed at its height. "
        "Extension rpc (spec/rpcstate, harness/c03rpc): C03 (and the fee clause of C07) observed through the real rpcsrv.Server handlers and rpcclient: "
        "getstateroot, getstate, findstates (from / count / limit / truncated / first and last proof), getproof + verifyproof incl. forged proofs, "
        "getstorage / findstorage and historic forms, invokefunctionhistoric / invokescripthistoric by index, block hash and state root, "
        "calculatenetworkfee -> sendrawtransaction; RPCState.tla gives every answer as a function of the flat storage per height and TLC recomputes "
        "each recorded answer; Paging.tla checks the walk law of both paging protocols for all 15 360 (map, prefix, page size, limit) cases, refutes "
        "five named deviations, and every walk is replayed against the real server."
        " Extension stateservice (spec/statesvc, harness/c03statesvc): state root VALIDATION above the local roots - votes, incomplete roots with their window, M-of-N "
        "witness assembly, validated-root broadcast, AddStateRoot / VerifyStateRoot, validated height, the key cache of designated StateValidators across designation "
        "changes. The abstract module StateSvc judges only what C03 demands of this machinery: a root stored, signed or assembled for height h is the local root of h "
        "(StoredIsLocal, EmitIsLocal, VoteIsLocal) and a refused root changes no stored root (RefusedKeepsRoots); witness rules for roots equal to the local one, validated "
        "height monotonicity, restarts, relaying and progress are stated in the same module but reported as 'beyond:' observations, never as violations. StateSvcImpl has one "
        "action per critical section of service and module (six universes exhaustive, up to 410k states each; ten named deviations refuted, among them four former behaviours "
        "of the code that were repaired: d3fcc6d, 5827c1d, 51bbb30, ec75270). Binding: 4 (7 thorough) real services on real chains driven through the Ledger interface (block "
        "hand-over, log-line barrier, timer gate); TLC-simulated and seeded schedules (reorder, duplicate, drop, corruption, forged and foreign payloads, old-set and "
        "low-threshold witnesses, restarts) + 7 scripted worlds judged by StateSvcTrace; 6 binding self-tests.",
 "C04": " Extension events (spec/events, harness/c04events): what core.Blockchain and the mempool deliver to subscribers as a function of the accepted "
        "blocks - documented per-block order, exactly once in chain order, notifications only of HALTed executions, nothing for refused offers (incl. a "
        "late storeBlock failure) or header-only additions, delivered = stored, no loss / duplication for other subscribers when one (un)subscribes "
        "mid fan-out, mempool added/removed laws; EventsImpl (dispatcher-shaped, up to 347k states) and PoolEventsImpl refute seven named deviations; real "
        "nodes observed with a serial observer and gated episodes, judged by TLC (EventsTrace).",
 "C05": " Extension gov (spec/governance, harness/c05gov): Election.tla (the election as a pure function of the candidate table: registered, not "
        "blocked, 20 % turnout, ties by key) and GovJudge.tla (committee in force = Elect(table at the last epoch end), validator answers, fee burns, primary "
        "reward minus the NotaryAssisted part, committee reward to member h mod n, claims / unclaimedGas within rounding bounds), instantiated with TLC "
        "integers for the code-shaped model GovImpl (eleven named deviations refuted) and with BigInt limbs for real traces (random, simulated and "
        "hand-written edge scenarios: tie at the cut, exact turnout, exactly n candidates, block list changes in a quiet epoch).",
 "C06": " Every other header offer is a BATCH of two (the offered header followed by a header linked to it and signed by its designated validators), "
        "judged by FollowerOnlyAfterValid / HdrSound.",
 "C07": " Extension poollife (spec/poollife, harness/c07poollife): proposability over the LIFE of the pool - blocks accepted between poolings change "
        "what admission depends on (blocked signers, fee per byte incl. the pool's ratchet, execution fee factor, attribute fees, expiry, on-chain "
        "conflicts both ways, committee change under HighPriority, oracle request answered / oracle and notary nodes re-designated, verification "
        "contracts updated or destroyed, balances incl. notary deposits); PoolLifeImpl follows verifyAndPoolTx / mempool.Add / RemoveStale / "
        "IsTxStillRelevant, TLC checks Impl => Proposable on four universes and refutes seven named deviations; after EVERY block of TLC behaviours "
        "and seeded lives the consensus-style proposal of a real proposer is judged by an independent replica and by TLC (PoolLifeTrace).",
 "C08": " Extension notarysvc (spec/notarysvc, harness/c08notarysvc): the notary SERVICE above the request pool. NotarySvcImpl models the request map "
        "(isSent, minNotValidBefore, per-witness signatures left, first-copy rule), verifyIncompleteWitnesses, the newTxs channel + finalize (check / callback / "
        "bookkeeping as separate steps), PostPersist, UpdateNotaryNodes, restart and the real notification race (block vs. last removal); 10 named deviations are "
        "refuted by TLC (11.1M states in the thorough tier). The abstract level has two parts: part 1 is JUDGED (AdmitSound, PoolNoConflict, PoolSolvent, Proposable, "
        "OneOutcome - what C07 / C08 literally demand on the path service -> memory pool -> block); part 2 (service intent: complete, verified, designated-key, "
        "not-early sends, NKeys, order independence via twin histories, withdrawal, progress at rest) is reported as 'beyond:' observations (drift + counters), never as "
        "violations. The real notary.Notary with its goroutines runs on a real chain + real request pool; the driver steps only when the service is at rest (rendezvous "
        "with the two event dispatchers + goroutine states, bounded, no sleeps); every send is examined in onTransaction with the real ledger and pooled; blocks are "
        "made from the memory pool in wire form; TLC behaviours + seeded random histories + twins + 7 scripted worlds; the NDJSON trace is judged by TLC.",
 "C09": " Later additions: point reads through the same DAO while dao.SeekAsync / System.Storage.Find iterate; contracts with 6-12 items that reach "
        "the backend before they are iterated through a private DAO (lazy lower scan meets the iterating contract's own reads).",
 "C10": " Later addition: deep-trie histories (one spine key of 36-68 bytes with a key leaving it at almost every half-byte: proofs of up to "
        "2*MaxKeyLength+1 nodes), filled by batches, proved, collapsed, reloaded and edited.",
 "C18a": " Extension codec (spec/numcodec, harness/c18codec): fixed-point decimals (any precision incl. above the 10^16 table), Fixed8, Uint160/256 "
        "byte and string forms and their order, Base58Check and addresses: Decimal.tla / UintN.tla / Base58.tla are the oracle (11 781 enumerated cases "
        "quick, 20 643 thorough, executed forward and in reverse), the codecs are specified as PURE functions (CodecHistory refined by CodecHistoryImpl "
        "with decimal.go's power table as memo; eight named deviations refuted) and TLC-generated call histories are replayed each in one fresh process; "
        "seeded inputs and every single-character change of each address judged by TLC (NumCodecTrace).",
 "C12": " Extension xscript (spec/vmxref, harness/c12xscript): executions spanning SEVERAL scripts in one VM - VMXRef.tla models vm.go at script boundaries over "
        "VMRef's reference-counted heap (loading a callee incl. stack sharing, internal calls, RET with the return-count check and the uncounted move of return "
        "values, unloadContext's static-slot rule, frame-by-frame exception unwinding across script contexts), judged by VMLimits plus UnloadRule; the tree's own shape "
        "(stacks of unwound script contexts stay counted: listed finding 'abandoned-stack') and the released-stack variant are both checked, six named deviations "
        "refuted (up to 661k states); transition covers and simulations realised as straight-line scripts with exact counter predictions, seeded random multi-script "
        "programs incl. fills up to the 2048 limit, hand-assembled self-recursive scripts, and the same schedules as deployed contracts through System.Contract.Call; "
        "VMXRefTrace.tla judges every per-instruction observation (counter vs a real walk over every context's stack, slots and arguments).",
 "C16": " Extension dyn (spec/flagsdyn, harness/c16dyn): the clauses while the contract table CHANGES inside a transaction and between the transactions of a block "
        "(self-update then call / callback / CALLT / re-entry, callee updated or destroyed earlier, redeploy of a destroyed hash, fresh deploy, management operations "
        "as gated effects, _deploy callbacks): clauses evaluated against the table at the time of each call, 'its permissions' = the executing version from Domovoi on and "
        "the stored manifest before (documented semantics, both rules modelled and bound); a call.go / management.go-shaped model refines them (up to 4.6M states, ten "
        "named deviations refuted); TLC behaviours, 3 516 scripted situations and seeded histories run as real transactions on chains with and without Domovoi, observed per "
        "instruction and confirmed against the real block's application log; FlagsDynTrace judges every frame, effect and management operation.",
 "C18": " Extension keys (spec/keys, harness/c18keys): KeyAlgebra.tla - 11 sorts, 27 operations over uninterpreted primitives with an outcome class and normal "
        "form per term and the laws (sign/verify soundness incl. altered signatures, Dec(Enc(x)) = x for public / private keys, WIF and NEP-2, NEP-2 opens exactly for the "
        "NFC class of its passphrase, mangled inputs refused or decoded to something else, verification script / script hash / address agree); every term with <= 5 "
        "operations (15 822 quick, 25 125 thorough) evaluated with the real functions under 4-15 instantiations (edge keys, X coordinates valid on both curves, seven "
        "families of non-NFC passphrases, standard scrypt parameters); ten named deviations refuted. Decoding a public key is a PURE function: KeyCache refined by "
        "KeyCacheImpl (the LRU cache of publickey.go, capacity 2-3 exhaustive, four deviations refuted), TLC call histories replayed each in a fresh process against an "
        "independent curve-equation decoder. KeysTrace judges seeded call sequences by the term-equality closure and exhaustive single-change sweeps of WIF / NEP-2 / "
        "address strings, serialized keys and signatures.",
 "C19": " Extension recovery (spec/dbftrec, harness/c19dbft TestRecDriver): DBFTRec.tla makes RecoveryRequest / RecoveryMessage payloads of their own (who asks, who answers, what a "
        "message carries as a function of its sender's state, what the receiver's decoder rebuilds) and judges Agreement, CommitLock, Acceptable, AcceptJustified, RecoverySound, "
        "RecoveryAdequate (eight named deviations refuted); DBFTChain.tla covers 2-3 heights with the primary rotating by height, the future-height payload cache, late payloads and "
        "block relay (AgreementH, NoSkip, CacheHarmless; four deviations refuted); exhaustive runs N=4 up to 3.1M states; every payload sent by the real services is decoded and "
        "recorded, every RecoveryMessage both as its compact payloads on the wire and as the node's own decoder rebuilds them, judged by DBFTRecTrace against the set of payloads "
        "really sent; scripted recovery windows and future-height scenarios incl. N=7. "
        "Extension net (spec/consnet, harness/c19net): the consensus service INSIDE the real P2P server - one real network.Server + consensus.Service (wired as cli/server does) "
        "against fake validators over loopback TCP holding the other validators' keys, and meshes of 3-4 real servers, under virtual dBFT time; ConsNet judges delivery exactly once, "
        "relay, proposal transactions, block out, agreement, acceptability, service start; ConsNetImpl (five named deviations refuted, about 23M states in the thorough tier); "
        "schedules from ConsNetSim plus seeded adversaries; 'missing at a quiescent point' confirmed by a slow replay; a missing answer to ONE proposal is informational, judged is "
        "decision within 3 views with everybody honest.",
 "C20": " Later additions: LedgerOnce.tla (AddBlock as one critical section; deviation CheckOutsideLock refuted) bound by rounds in which 2-5 goroutines "
        "offer decoded copies of the SAME next block (+ a stale one) to the real Blockchain.AddBlock, judged by TLC (StoredExactlyOnce, HeightByOne, "
        "StateAsReference); stripped-body junk blocks in state sync; two scripted worlds reproducing the listed findings of state-synchronised nodes. "
        "Extension net (spec/netsync, harness/c20net): the P2P server itself - handshake state machine and the block / header / state-exchange request "
        "logic of pkg/network/server.go, driven over real loopback TCP connections by scripted fake peers (duplicates, gaps, garbage, silent peers), judged "
        "by TLC (HandshakeTrace, NetSyncTrace).",
}


def main():
    props = [json.loads(l) for l in open(os.path.join(V, "properties.jsonl"))]
    checks, na = [], []
    for p in props:
        i = p["id"]
        if i in CHECKS:
            cat, text, ref, note, tech = CHECKS[i]
            text += EXTRA_TEXT.get(i + "a", "") + EXTRA_TEXT.get(i, "")
            checks.append({
                "property_id": i,
                "quick_cmd": "tools/vcheck %s --tier quick" % i,
                "thorough_cmd": "tools/vcheck %s --tier thorough" % i,
                "evidence_file": "evidence/%s.json" % i,
                "replay_cmd_template": "tools/vcheck %s --replay {path}" % i,
                "engine": "tlc+go",
                "level_claimed": {"category": cat, "text": text, "design_ref": ref},
                "level_note": note,
                "technique": tech,
            })
        elif i in NA:
            na.append({"property_id": i, "reason": NA[i]})
        else:
            na.append({"property_id": i, "reason": NOT_YET.get(i, "not claimed yet: machinery for this property is not built/registered at this commit (planned in DESIGN.md section 4)")})
    m = {
        "version": 1,
        "setup_cmd": "tools/setup.sh",
        "hooks": {
            "guard": "verif",
            "enable": "go test -tags verif (drivers under /verif/harness are built with -tags verif against /repo through a replace directive)",
            "baseline_off_cmd": "cd /repo && export GOFLAGS=-mod=mod GOPROXY=off && go test -vet=off -count=1 -timeout 25m ./... && (cd internal/contracts/oracle_contract && go test -vet=off -count=1 ./...) && (cd pkg/interop && go test -vet=off -count=1 ./...)",
            "source_commits": HOOK_COMMITS,
            "add_only": True,
        },
        "engines": [
            {"name": "tlc+go", "path": "tools/vcheck", "serves_properties": sorted(CHECKS),
             "kind_free_text": "python runner: TLC exhaustive model checking of TLA+ specs under spec/, TLC simulation/enumeration for behaviour generation, Go drivers under harness/ executing behaviours on the real neo-go packages and recording NDJSON traces, TLC trace validation against the abstract specs"},
        ],
        "checks": checks,
        "not_applicable": na,
        "notes": "Model-based verification with explicit TLA+ specifications; see DESIGN.md. Exit 2 of a check means inconclusive (infrastructure), never a verdict.",
    }
    json.dump(m, open(os.path.join(V, "MANIFEST.json"), "w"), indent=1)

HOOK_COMMITS = ["5c76afc", "d2ac362", "a91511b"]
if __name__ == "__main__":
    main()
