"""Shared runner library for /verif checks (python3 standard library only).

A check module (tools/checks/cXX.py) defines run(ctx) and uses the helpers here:
TLC exhaustive runs, TLC simulation (behaviour generation), Go driver runs (real
code), TLC trace validation, verdict bookkeeping (VIOLATION / KNOWN-FINDING),
and the evidence writer.

Exit codes: 0 property held on everything explored; 1 violation exhibited by
real-code behaviour (VIOLATION line printed); 2 inconclusive (infrastructure).
"""
import hashlib
import json
import os
import re
import shutil
import subprocess
import sys
import time

VERIF = os.path.dirname(os.path.dirname(os.path.abspath(__file__)))
REPO = os.environ.get("VERIF_REPO", "/repo")
TLA_JAR = "/opt/veriftools/tla/tla2tools.jar"
CM_JAR = "/opt/veriftools/tla/CommunityModules-deps.jar"


class Inconclusive(Exception):
    pass


def log(*a):
    print("[vcheck]", *a, flush=True)


class Ctx:
    def __init__(self, pid, tier, seed, replay=None):
        self.pid = pid
        self.tier = tier
        self.seed = seed
        self.replay = replay
        self.t0 = time.time()
        self.work = os.path.join(VERIF, ".work", "%s-%d" % (pid, os.getpid()))
        shutil.rmtree(self.work, ignore_errors=True)
        os.makedirs(self.work)
        self.violations = []      # (signature dict, replay path)
        self.known_hits = []
        self.states = 0
        self.transitions = 0
        self.traces_validated = 0
        self.samples = []
        self.extra = {}
        self.assumptions = []
        self.spec_drift = []
        self.models = []          # per-TLC-run summaries
        self.evaluations = 0
        self.distinct = set()
        self.level = "model_checking"
        self.known = load_known()
        self.ncpu = os.cpu_count() or 4
        if REPO == "/repo":   # replays of an earlier run with the same id and seed are stale
            import glob
            for f in glob.glob(os.path.join(VERIF, "replays", "%s-%d-*.json" % (pid, seed))):
                try:
                    os.remove(f)
                except OSError:
                    pass

    # ---------------------------------------------------------------- env
    def goenv(self):
        e = dict(os.environ)
        e["GOFLAGS"] = "-mod=mod"
        e["GOPROXY"] = "off"
        e.pop("GOSUMDB", None)
        e.pop("GOTOOLCHAIN", None)
        e["VERIF_SEED"] = str(self.seed)
        e["VERIF_TIER"] = self.tier
        e["VERIF_WORK"] = self.work
        return e

    def quick(self):
        return self.tier == "quick"

    # ---------------------------------------------------------------- TLC
    def spec_scratch(self, subdir, name=None):
        """Copy spec/<subdir> + spec/common into a scratch directory and return it."""
        d = os.path.join(self.work, name or ("spec-" + subdir.replace("/", "-")))
        if os.path.isdir(d):
            return d
        os.makedirs(d)
        for src in (os.path.join(VERIF, "spec", "common"), os.path.join(VERIF, "spec", subdir)):
            if os.path.isdir(src):
                for f in os.listdir(src):
                    p = os.path.join(src, f)
                    if os.path.isfile(p):
                        shutil.copy(p, d)
        return d

    def _tlc_cmd(self, jvm=(), classpath_extra=()):
        cp = ":".join(list(classpath_extra) + [TLA_JAR, CM_JAR])
        # TLC's own temporary directories go into the scratch directory of the run (removed with it), not into /tmp
        tmpd = os.path.join(self.work, "jtmp")
        os.makedirs(tmpd, exist_ok=True)
        return ["java", "-XX:+UseParallelGC", "-Xss64m", "-Djava.io.tmpdir=" + tmpd] + list(jvm) + ["-cp", cp, "tlc2.TLC"]

    def tlc(self, specdir, module, cfg, timeout, workers=None, extra=(), jvm=(), env=None,
            classpath_extra=(), tag=None):
        """Run TLC; returns dict(out, rc, states, distinct, depth, error, timed_out)."""
        tag = tag or cfg.replace(".cfg", "")
        md = os.path.join(self.work, "md-%s-%d" % (tag, len(self.models)))
        cmd = ["timeout", "-k", "10", str(timeout)] + self._tlc_cmd(jvm, classpath_extra) + [
            "-workers", str(workers or self.ncpu), "-metadir", md, "-config", cfg] + list(extra) + [module]
        e = dict(os.environ)
        if env:
            e.update({k: str(v) for k, v in env.items()})
        t0 = time.time()
        p = subprocess.run(cmd, cwd=specdir, env=e, stdout=subprocess.PIPE, stderr=subprocess.STDOUT,
                           text=True, errors="replace")
        out = p.stdout
        res = {"out": out, "rc": p.returncode, "wall_s": round(time.time() - t0, 1), "cfg": cfg,
               "module": module, "timed_out": p.returncode in (124, 137)}
        m = re.findall(r"(\d+) states generated, (\d+) distinct states found", out)
        if m:
            res["states"] = int(m[-1][1])
            res["transitions"] = int(m[-1][0])
        m = re.search(r"depth of the complete state graph search is (\d+)", out)
        if m:
            res["depth"] = int(m.group(1))
        res["error"] = None
        if "Error:" in out or p.returncode not in (0,):
            em = re.search(r"Error: (.*)", out)
            res["error"] = em.group(1) if em else "rc=%d" % p.returncode
        shutil.rmtree(md, ignore_errors=True)
        with open(os.path.join(self.work, "tlc-%s-%d.log" % (tag, len(self.models))), "w") as f:
            f.write(out)
        self.models.append({k: res.get(k) for k in ("module", "cfg", "states", "transitions", "depth", "wall_s", "error")})
        return res

    def tlc_mc(self, subdir, module, cfg, timeout, workers=None, coverage=False, extra=(), must_cover=True,
               classpath_extra=(), env=None):
        """Exhaustive model check: must finish with no error. Model-level errors are exit 2 (inconclusive),
        never a violation (DESIGN 2.2): the caller may catch ModelError to try reproducing on real code."""
        d = self.spec_scratch(subdir)
        ex = list(extra)
        if coverage:
            ex += ["-coverage", "1"]
        r = self.tlc(d, module, cfg, timeout, workers=workers, extra=ex, classpath_extra=classpath_extra, env=env)
        if r["timed_out"]:
            raise Inconclusive("TLC timed out on %s/%s" % (module, cfg))
        if r["error"]:
            raise ModelError("TLC reported an error on %s/%s: %s" % (module, cfg, r["error"]), r)
        if "states" not in r:
            raise Inconclusive("could not parse TLC output for %s/%s" % (module, cfg))
        self.states += r["states"]
        self.transitions += r["transitions"]
        if coverage and must_cover:
            un = uncovered_actions(r["out"])
            if un:
                raise Inconclusive("vacuity guard: actions never taken in %s: %s" % (cfg, un))
        log("MC %s/%s: %d distinct states, %d generated, depth %s, %.1fs" % (
            module, cfg, r["states"], r["transitions"], r.get("depth"), r["wall_s"]))
        return r

    def tlc_sim(self, subdir, module, cfg, num, depth, timeout, marker="@@HIST@@", extra=(), seed=None, env=None):
        """Simulation for behaviour generation. The spec prints `marker` followed by a JSON string
        (via PrintT(<<marker, ToJson(hist)>>)) ; returns the decoded list."""
        d = self.spec_scratch(subdir)
        s = self.seed if seed is None else seed
        r = self.tlc(d, module, cfg, timeout, workers=1,
                     extra=["-simulate", "num=%d" % num, "-depth", str(depth), "-seed", str(s)] + list(extra),
                     tag="sim-" + cfg.replace(".cfg", ""), env=env)
        if r["timed_out"]:
            log("simulation timed out (partial output used)")
        out = []
        for line in r["out"].splitlines():
            i = line.find(marker)
            if i < 0:
                continue
            js = extract_tla_string(line[i + len(marker):])
            if js is None:
                continue
            try:
                out.append(json.loads(js))
            except Exception:
                pass
        if not out and r["error"]:
            raise Inconclusive("simulation of %s/%s failed: %s" % (module, cfg, r["error"]))
        log("SIM %s/%s: %d behaviours, %.1fs" % (module, cfg, len(out), r["wall_s"]))
        return out

    def tlc_dump(self, subdir, module, cfg, timeout, marker="@@CASE@@", workers=1, extra=(), classpath_extra=(), env=None):
        """Exhaustive run of an enumeration spec that prints one JSON case per state."""
        d = self.spec_scratch(subdir)
        r = self.tlc(d, module, cfg, timeout, workers=workers, extra=extra, tag="dump-" + cfg.replace(".cfg", ""),
                     classpath_extra=classpath_extra, env=env)
        if r["timed_out"]:
            raise Inconclusive("TLC enumeration timed out: %s/%s" % (module, cfg))
        if r["error"]:
            raise ModelError("TLC enumeration error %s/%s: %s" % (module, cfg, r["error"]), r)
        out = []
        for line in r["out"].splitlines():
            i = line.find(marker)
            if i < 0:
                continue
            js = extract_tla_string(line[i + len(marker):])
            if js is not None:
                out.append(json.loads(js))
        self.states += r.get("states", 0)
        self.transitions += r.get("transitions", 0)
        log("ENUM %s/%s: %d cases, %d states, %.1fs" % (module, cfg, len(out), r.get("states", 0), r["wall_s"]))
        return out

    def tlc_trace(self, subdir, module, cfg, tracefile, timeout, nevents=None, dfs=False, workers=1, env=None,
                  classpath_extra=()):
        """Validate an NDJSON trace with a Trace spec. Returns dict(accepted, depth, out, error).
        The trace file is copied to trace.ndjson in a private scratch copy of the spec dir."""
        d = self.spec_scratch(subdir, name="tr-%s-%d" % (subdir.replace("/", "-"), len(self.models)))
        shutil.copy(tracefile, os.path.join(d, "trace.ndjson"))
        jvm = ["-Dtlc2.tool.queue.IStateQueue=StateDeque"] if dfs else []
        r = self.tlc(d, module, cfg, timeout, workers=workers, jvm=jvm, tag="trace-" + cfg.replace(".cfg", ""), env=env,
                     classpath_extra=classpath_extra)
        shutil.rmtree(d, ignore_errors=True)
        if r["timed_out"]:
            raise Inconclusive("trace validation timed out (%s)" % cfg)
        res = {"accepted": r["error"] is None and r["rc"] == 0, "depth": r.get("depth"), "out": r["out"],
               "error": r["error"], "states": r.get("states", 0), "transitions": r.get("transitions", 0)}
        # A parse / semantic error of the spec itself is infrastructure, not a verdict
        if r["error"] and not is_property_failure(r["out"]):
            raise Inconclusive("trace spec failed to run (%s): %s\n%s" % (cfg, r["error"], tail(r["out"], 30)))
        self.states += res["states"]
        self.transitions += res["transitions"]
        return res

    def trace_judge(self, subdir, module, cfg, tracefile, timeout=1800, env=None, dfs=False, classpath_extra=()):
        """Run a total, reporting trace spec (spec/common/TraceIO.tla). Returns the list of decoded
        @@FAIL@@ records. Raises Inconclusive if TLC did not consume the whole trace."""
        r = self.tlc_trace(subdir, module, cfg, tracefile, timeout, env=env, dfs=dfs, classpath_extra=classpath_extra)
        fails = []
        for line in r["out"].splitlines():
            i = line.find("@@FAIL@@")
            if i < 0:
                continue
            js = extract_tla_string(line[i + 8:])
            if js is not None:
                try:
                    fails.append(json.loads(js))
                except Exception:
                    pass
        if not r["accepted"]:
            raise Inconclusive("trace spec %s did not consume the whole trace (depth %s): %s\n%s" % (
                cfg, r.get("depth"), r.get("error"), tail(r["out"], 25)))
        return fails

    def trace_judge_parts(self, subdir, module, cfg, events, max_events=40000, timeout=1800, workers=4,
                          is_start=lambda e: e.get("event") == "init"):
        """Judge a long trace as several independent TLC runs: the trace is cut at start events (histories / worlds are
        independent) into parts of about max_events lines, each judged by its own TLC (memory stays bounded, parts run in
        parallel). Returns the failure records with line numbers of the WHOLE trace."""
        import concurrent.futures
        starts = [i for i, e in enumerate(events) if is_start(e)]
        if len(events) <= max_events or len(starts) < 2:
            path = os.path.join(self.work, "whole-%d.ndjson" % len(self.models))
            write_ndjson(path, events)
            return self.trace_judge(subdir, module, cfg, path, timeout=timeout)
        cuts, nxt = [0], max_events
        for st in starts:
            if st >= nxt:
                cuts.append(st)
                nxt = st + max_events
        cuts.append(len(events))
        src = self.spec_scratch(subdir)

        def one(k):
            a, b = cuts[k], cuts[k + 1]
            d = os.path.join(self.work, "trpart-%s-%d-%d" % (cfg.replace(".cfg", ""), len(self.models), k))
            shutil.copytree(src, d)
            write_ndjson(os.path.join(d, "trace.ndjson"), events[a:b])
            r = self.tlc(d, module, cfg, timeout, workers=1, tag="tracepart%d" % k)
            shutil.rmtree(d, ignore_errors=True)
            if r["timed_out"] or r["error"] or r["rc"] != 0:
                raise Inconclusive("trace part %d of %s was not consumed entirely: %s\n%s" % (k, cfg, r.get("error"), tail(r["out"], 20)))
            out = []
            for line in r["out"].splitlines():
                i = line.find("@@FAIL@@")
                if i >= 0:
                    js = extract_tla_string(line[i + 8:])
                    if js is not None:
                        f = json.loads(js)
                        f["line"] += a
                        out.append(f)
            return out, r.get("states") or 0, r.get("transitions") or 0

        fails = []
        with concurrent.futures.ThreadPoolExecutor(max_workers=workers) as ex:
            for out, st, tr in ex.map(one, range(len(cuts) - 1)):
                fails += out
                self.states += st
                self.transitions += tr
        fails.sort(key=lambda f: f["line"])
        return fails

    # ---------------------------------------------------------------- Go
    def go_prepare(self):
        h = os.path.join(VERIF, "harness")
        src = os.path.join(REPO, "go.sum")
        dst = os.path.join(h, "go.sum")
        try:
            if not os.path.exists(dst) or open(src).read() != open(dst).read():
                shutil.copy(src, dst)
        except OSError:
            pass

    def go_driver(self, pkg, test, env=None, timeout=1200, tags="verif", race=False, extra=()):
        """Run one Go driver (a go test function) against /repo's working tree. The driver reads
        VERIF_IN / writes VERIF_OUT (directories under the scratch dir). Returns parsed result.json."""
        self.go_prepare()
        outd = os.path.join(self.work, "out-%s-%s" % (pkg, test))
        shutil.rmtree(outd, ignore_errors=True)
        os.makedirs(outd)
        e = self.goenv()
        e["VERIF_OUT"] = outd
        e["TMPDIR"] = os.path.join(self.work, "tmp")
        os.makedirs(e["TMPDIR"], exist_ok=True)
        if env:
            e.update({k: str(v) for k, v in env.items()})
        modflag = []
        if os.path.realpath(REPO) != "/repo":
            # alternative tree (mutation testing in a scratch worktree): private go.mod with another replace target
            mf = os.path.join(self.work, "alt.mod")
            if not os.path.exists(mf):
                gm = open(os.path.join(VERIF, "harness", "go.mod")).read().replace("=> /repo", "=> " + os.path.realpath(REPO))
                open(mf, "w").write(gm)
                shutil.copy(os.path.join(REPO, "go.sum"), os.path.join(self.work, "alt.sum"))
            modflag = ["-modfile=" + mf]
        cmd = ["go", "test"] + modflag + ["-tags", tags, "-count=1", "-vet=off", "-timeout", "%ds" % timeout,
               "-run", "^%s$" % test] + (["-race"] if race else []) + list(extra) + ["./" + pkg]
        t0 = time.time()
        p = subprocess.run(cmd, cwd=os.path.join(VERIF, "harness"), env=e, stdout=subprocess.PIPE,
                           stderr=subprocess.STDOUT, text=True, errors="replace")
        with open(os.path.join(self.work, "go-%s-%s.log" % (pkg, test)), "w") as f:
            f.write(p.stdout)
        rp = os.path.join(outd, "result.json")
        if not os.path.exists(rp):
            crash = foreign_goroutine_panic(p.stdout)
            if crash:
                # the test process was killed by a panic in a goroutine that the CODE UNDER TEST started (no harness frame on its
                # stack: the harness cannot recover it): real-code behaviour, not an infrastructure failure
                self.violation({"kind": "process-crash", "driver": pkg, "where": crash["where"]},
                               {"what": "a goroutine started by the code under test panicked and took the process down: " + crash["msg"],
                                "stack": crash["stack"], "driver": "%s/%s" % (pkg, test), "seed": self.seed})
                return {"_out": outd, "_rc": p.returncode, "_log": p.stdout, "violations": [], "evaluations": 0, "crashed": True}
            raise Inconclusive("driver %s/%s produced no result (rc=%d):\n%s" % (pkg, test, p.returncode, tail(p.stdout, 60)))
        res = json.load(open(rp))
        res["_out"] = outd
        res["_rc"] = p.returncode
        res["_log"] = p.stdout
        if p.returncode != 0 and not res.get("violations"):
            raise Inconclusive("driver %s/%s failed without a recorded violation (rc=%d):\n%s" % (
                pkg, test, p.returncode, tail(p.stdout, 60)))
        log("GO %s/%s: %s evaluations, %d violations, %.1fs" % (
            pkg, test, res.get("evaluations"), len(res.get("violations") or []), time.time() - t0))
        return res

    def absorb(self, res):
        """Fold a driver's result.json into the context (counts, samples, violations)."""
        self.evaluations += int(res.get("evaluations") or 0)
        for h in res.get("distinct_hashes") or []:
            self.distinct.add(h)
        for s in (res.get("samples") or [])[:3]:
            if len(self.samples) < 8:
                self.samples.append(s)
        for d in res.get("drift") or []:
            if len(self.spec_drift) < 20:
                self.spec_drift.append(d)
        for k, v in (res.get("stats") or {}).items():
            if isinstance(v, (int, float)) and isinstance(self.extra.get(k, 0), (int, float)):
                self.extra[k] = self.extra.get(k, 0) + v
            else:
                self.extra[k] = v
        for v in res.get("violations") or []:
            self.violation(v.get("signature") or {}, v)

    # ---------------------------------------------------------------- verdicts
    def violation(self, signature, detail):
        """Record a violation exhibited by real code. signature: small dict identifying the failing
        input / call site / history class (matched against known_findings.json)."""
        for kf in self.known.get("findings", []):
            if kf.get("property") == self.pid and sig_match(kf.get("signature", {}), signature):
                if os.environ.get("VERIF_DEBUG_SIGS"):
                    print("[vcheck] known-finding match: %s" % json.dumps(signature, sort_keys=True, default=str), flush=True)
                if kf not in self.known_hits:
                    self.known_hits.append(kf)
                    print("KNOWN-FINDING: property=%s %s" % (self.pid, kf.get("what", json.dumps(kf.get("signature")))), flush=True)
                return
        key = json.dumps(signature, sort_keys=True, default=str)
        self.sig_counts = getattr(self, "sig_counts", {})
        self.sig_counts[key] = self.sig_counts.get(key, 0) + 1
        if self.sig_counts[key] > 1:
            return      # one replay per distinct signature; the count goes to the evidence
        # replays of runs against another tree (VERIF_REPO) or of a stand-alone extension run go to .work/alt-replays
        rdir = os.path.join(VERIF, "replays") if REPO == "/repo" and not getattr(self, "ext_only", False) else os.path.join(VERIF, ".work", "alt-replays")
        os.makedirs(rdir, exist_ok=True)
        path = os.path.join(rdir, "%s-%d-%d.json" % (self.pid, self.seed, len(self.violations)))
        with open(path, "w") as f:
            json.dump({"property": self.pid, "seed": self.seed, "tier": self.tier, "signature": signature,
                       "detail": detail}, f, indent=1, default=str)
        self.violations.append((signature, path))
        print("VIOLATION property=%s replay=%s" % (self.pid, path), flush=True)

    def count(self, case):
        self.evaluations += 1
        self.distinct.add(hashlib.sha1(json.dumps(case, sort_keys=True, default=str).encode()).hexdigest()[:16])

    # ---------------------------------------------------------------- evidence
    def write_evidence(self, rule, exhaustive=False):
        cov = {
            "states": max(self.states, 0),
            "transitions": max(self.transitions, 0),
            "traces_validated_against_impl": self.traces_validated,
            "samples": self.samples[:8] if self.samples else [],
            "evaluations": self.evaluations,
            "distinct_nontrivial": len(self.distinct),
            "rule": rule,
            "models": self.models,
            "spec_drift": self.spec_drift,
            "known_findings_hit": [k.get("what") for k in self.known_hits],
            "violation_signatures": getattr(self, "sig_counts", {}),
        }
        if exhaustive:
            cov["exhaustive"] = True
        cov.update(self.extra)
        ev = {
            "property_id": self.pid, "tier": self.tier, "seed": self.seed, "level": self.level,
            "coverage": cov, "assumptions": self.assumptions,
            "wall_s": round(time.time() - self.t0, 1), "violations": len(self.violations),
        }
        # evidence under /verif/evidence describes /repo only: a run against another tree (VERIF_REPO, used to
        # evaluate seeded changes) writes its evidence under .work/alt-evidence instead
        evdir = os.path.join(VERIF, "evidence") if REPO == "/repo" and not getattr(self, "ext_only", False) else os.path.join(VERIF, ".work", "alt-evidence")
        os.makedirs(evdir, exist_ok=True)
        with open(os.path.join(evdir, self.pid + ".json"), "w") as f:
            json.dump(ev, f, indent=1, default=str)

    def cleanup(self):
        if os.environ.get("VERIF_KEEP"):
            log("scratch kept at", self.work)
            return
        shutil.rmtree(self.work, ignore_errors=True)


class ModelError(Exception):
    def __init__(self, msg, res=None):
        super().__init__(msg)
        self.res = res


def foreign_goroutine_panic(out):
    """If a go test output ends with a panic whose goroutine has frames of the repository under test and NONE of the
    harness (package path verifharness/), return {msg, where, stack}; else None."""
    out = "\n" + out
    i = out.rfind("\npanic: ")
    if i < 0:
        return None
    tail_ = out[i + 1:]
    j = tail_.find("\ngoroutine ")
    if j < 0:
        return None
    block = tail_[j + 1:].split("\n\n")[0]
    block = "\n".join(l for l in block.splitlines() if not l.startswith(("FAIL", "exit status", "ok ")))
    if "verifharness/" in block or "github.com/nspcc-dev/neo-go/" not in block:
        return None
    where = ""
    for line in block.splitlines()[1:]:
        line = line.strip()
        if line.startswith("github.com/nspcc-dev/neo-go/"):
            where = line.split("(")[0].replace("github.com/nspcc-dev/neo-go/", "")
            break
    return {"msg": tail_.splitlines()[0][:300], "where": where, "stack": block.splitlines()[:24]}


def load_known():
    p = os.path.join(VERIF, "known_findings.json")
    if os.path.exists(p):
        return json.load(open(p))
    return {"findings": [], "fixed": []}


def sig_match(pattern, sig):
    if not pattern:
        return False
    for k, v in pattern.items():
        if sig.get(k) != v:
            return False
    return True


def tail(s, n):
    return "\n".join(s.splitlines()[-n:])


def is_property_failure(out):
    """TLC output that denotes a rejected trace / violated invariant rather than a broken spec."""
    keys = ("Invariant ", "is violated", "Postcondition", "POSTCONDITION", "Deadlock reached",
            "Action property", "Temporal properties were violated", "postcondition")
    return any(k in out for k in keys) and "Parsing or semantic analysis failed" not in out


def uncovered_actions(out):
    """Names of top-level actions with zero count in a `-coverage 1` report (last report)."""
    un = []
    # lines like: <Next line 10, col 1 to line 10, col 20 of module M>: 0:0
    blocks = out.split("The coverage statistics at")
    if len(blocks) < 2:
        return un
    for line in blocks[-1].splitlines():
        m = re.match(r"^<(\w+) line \d+, col \d+ to line \d+, col \d+ of module (\w+)>: (\d+):(\d+)", line)
        if m and int(m.group(4)) == 0 and m.group(1) not in ("Init",):
            un.append(m.group(1))
    return un


def extract_tla_string(s):
    """Given text following the marker in a PrintT(<<marker, str>>) line, return the TLA+ string's content."""
    i = s.find('"')
    if i < 0:
        return None
    # the printed tuple is <<"marker", "....">> ; the marker's closing quote comes first
    s = s[i + 1:]
    j = s.find('"')
    if j < 0:
        return None
    s = s[j + 1:]
    k = s.rfind('"')
    if k < 0:
        return None
    body = s[:k]
    return body.replace('\\"', '"').replace("\\\\", "\\")


def write_ndjson(path, events):
    with open(path, "w") as f:
        for e in events:
            f.write(json.dumps(e, sort_keys=True) + "\n")


def read_ndjson(path):
    out = []
    with open(path) as f:
        for line in f:
            line = line.strip()
            if line:
                out.append(json.loads(line))
    return out


def main(argv):
    import argparse
    import importlib.util
    ap = argparse.ArgumentParser()
    ap.add_argument("pid")
    ap.add_argument("--tier", default=os.environ.get("VERIF_TIER") or "quick", choices=["quick", "thorough"])
    ap.add_argument("--replay")
    a = ap.parse_args(argv)
    seed = int(os.environ.get("VERIF_SEED") or 1)
    pid = a.pid.upper()
    ext = pid.startswith("EXT:")   # stand-alone run of an extension (tools/checks/<name>.py: run_ext); evidence goes to .work/alt-evidence
    if ext:
        pid = pid[4:]
    modp = os.path.join(VERIF, "tools", "checks", pid.lower() + ".py")
    if not os.path.exists(modp):
        print("no such check", pid)
        return 2
    spec = importlib.util.spec_from_file_location("check_" + pid, modp)
    mod = importlib.util.module_from_spec(spec)
    spec.loader.exec_module(mod)
    ctx = Ctx(pid, a.tier, seed, a.replay)
    ctx.ext_only = ext
    rc = 2
    try:
        (mod.run_ext if ext else mod.run)(ctx)
        rc = 1 if ctx.violations else 0
    except Inconclusive as e:
        log("INCONCLUSIVE:", e)
        rc = 1 if ctx.violations else 2   # a violation already exhibited by real code stands
    except ModelError as e:
        log("MODEL ERROR (model-level counterexample or broken spec; not a verdict):", e)
        if e.res:
            log(tail(e.res["out"], 60))
        rc = 2
    except Exception as e:      # a stage could not go on (e.g. after the driver process was crashed by the code under test)
        import traceback
        log("check aborted:", "".join(traceback.format_exception_only(type(e), e)).strip())
        rc = 1 if ctx.violations else 2
    finally:
        try:
            if rc in (0, 1):
                ctx.write_evidence(getattr(mod, "RULE", "see DESIGN.md"), exhaustive=ctx.extra.pop("exhaustive", False))
        finally:
            ctx.cleanup()
    log("%s tier=%s seed=%d exit=%d wall=%.1fs" % (pid, a.tier, seed, rc, time.time() - ctx.t0))
    return rc


if __name__ == "__main__":
    sys.exit(main(sys.argv[1:]))
