#!/usr/bin/env python3
"""Renders the 'which checks catch which seeded changes' table (DESIGN.md 10.6) from seeded/*/meta.json."""
import glob, json, os
V = os.path.dirname(os.path.dirname(os.path.abspath(__file__)))
rows = []
for f in sorted(glob.glob(os.path.join(V, "seeded", "*", "meta.json"))):
    m = json.load(open(f))
    name = m["name"]
    res = []
    for chk, rs in sorted(m.get("checks", {}).items()):
        hit = [r for r in rs if r["exit"] == 1]
        kinds = sorted({(s.get("kind") or s.get("history") or "?") for r in hit for s in r["signatures"]})
        res.append("%s: %d/%d seeds%s" % (chk, len(hit), len(rs), (" (" + ", ".join(str(k) for k in kinds[:3]) + ")") if kinds else ""))
    ok = "yes" if m.get("demo_clean_pass") and m.get("demo_changed_fails") else "NO (clean=%s changed_fails=%s)" % (m.get("demo_clean_pass"), m.get("demo_changed_fails"))
    rows.append("| `%s` | %s | %s | %s | %s |" % (name, m["property"], ok, "; ".join(res) or "-", ", ".join(m.get("detected_by") or []) or "**missed**"))
out = []
out.append("| seeded change | property | demonstration confirmed | checks run against it (quick tier) | caught by |")
out.append("|---|---|---|---|---|")
out += rows
import re, sys
txt = "\n".join(out)
if "--design" in sys.argv:
    p = os.path.join(V, "DESIGN.md")
    s = open(p).read()
    s = re.sub(r"<!-- SEEDTABLE-BEGIN -->.*<!-- SEEDTABLE-END -->", lambda m: "<!-- SEEDTABLE-BEGIN -->\n" + txt + "\n<!-- SEEDTABLE-END -->", s, flags=re.S)
    open(p, "w").write(s)
else:
    print(txt)
