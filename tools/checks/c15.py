"""C15 - witness scopes and witness rules are enforced exactly.

Model: spec/witness  Witness (abstract judge: Check(signers, account, call chain)), WitnessImpl (neo-go shaped:
invocation stack with per-context calling hash, contract table looked up by hash, scope if-chain), WitnessEnum
(exhaustive enumeration signer configurations x call contexts x accounts; invariant Impl => Abstract; prints the
specified answers), WitnessTrace (judges what the real code answered).
Real code: harness/c15wit - probe contracts deployed on a neotest chain, System.Runtime.CheckWitness asked in
every frame of every call chain, signer list taken through the transaction wire format; plus
transaction.WitnessCondition.Match against a stub MatchContext."""
import json
import os
import random

import vlib

RULE = ("cases = (signer configuration, call context, account) cells whose System.Runtime.CheckWitness answer was observed "
        "on the real chain (each cell observed in two phases of the frame and usually in several call chains sharing the "
        "context) plus (condition, context) cells of WitnessCondition.Match on a stub context; configurations come from the "
        "TLC enumeration (families std, rules) and from seeded random signer lists; distinct = distinct (signers, context, "
        "packed answers) / (condition, context, answer) tuples; every cell is judged twice: against the answer TLC printed "
        "for it and by WitnessTrace re-evaluating Witness!Check on the recorded observation")

MAX_SIGS = 6


def split(cases):
    uni = [c for c in cases if c.get("kind") == "universe"]
    if len(uni) != 1:
        raise vlib.Inconclusive("enumeration did not print exactly one universe")
    return uni[0], [c for c in cases if c.get("kind") == "case"]


def frame_class(chain):
    f = chain[-1]
    return f["kind"] if f["rs"] else "no-readstates"


def resolve(acct, chain, subj):
    if acct == "S":
        return subj
    if acct == "caller":
        return chain[-2]["name"] if len(chain) > 1 else "Z"
    if acct == "current":
        return chain[-1]["name"]
    if acct == "entry":
        return "E"
    return acct


def signature(kind, acct, signers, subj, chain):
    """Same function as signature() of the Go driver."""
    sig = {"kind": kind, "account": acct, "frame": frame_class(chain)}
    name = resolve(acct, chain, subj)
    for s in signers:
        if s["account"] != name:
            continue
        sc = "+".join(s["scopes"]) or "None"
        sig["scopes"] = sc
        special = ""
        if "CustomGroups" in sc and not s["groups"]:
            special = "custom-groups-empty-list"
        elif '"Z"' in json.dumps(s):
            special = "zero-hash-operand"
        if special:
            return {"kind": kind, "frame": frame_class(chain), "special": special}
        break
    return sig


class Reporter:
    """At most MAX_SIGS distinct signatures become violations (one replay each); the rest is counted."""

    def __init__(self, ctx):
        self.ctx = ctx
        self.sigs = {}
        self.more = set()

    def add(self, sig, detail):
        k = json.dumps(sig, sort_keys=True)
        if k not in self.sigs:
            if len(self.sigs) >= MAX_SIGS:
                self.more.add(k)
                self.ctx.extra["further_violation_signatures"] = len(self.more)
                return
            self.sigs[k] = 0
            vlib.log("violation signature:", k)
        self.sigs[k] += 1
        self.ctx.violation(sig, detail)


def judge_trace(ctx, rep, path, events, timeout):
    """TLC (WitnessTrace) judges the recorded observations; returns number of failing lines."""
    fails = ctx.trace_judge("witness", "WitnessTrace.tla", "Trace_Witness.cfg", path, timeout=timeout)
    uni = {c["id"]: c["chain"] for c in events[0]["ctx"]}
    for f in fails:
        ev = events[f["line"] - 1]
        if ev["event"] == "cfg":
            obs = {o[0]: o[1] for o in ev["obs"]}
            idx = {c["id"]: i + 1 for i, c in enumerate(events[0]["ctx"])}
            for cid, k in f["ctx"]["bad"][:50]:
                d = (obs[idx[cid]] // (3 ** (k - 1))) % 3
                kind = "granted-where-denied" if d == 1 else "refused-where-allowed"
                acct = ev["accts"][k - 1]
                rep.add(signature(kind, acct, ev["signers"], ev["subj"], uni[cid]),
                        {"what": "WitnessTrace: %s for account %s in context %s (observed %d)" % (kind, acct, cid, d),
                         "signers": ev["signers"], "ctx": cid, "chain": uni[cid]})
        elif ev["event"] == "match":
            for cid in f["ctx"]["bad"][:50]:
                rep.add({"kind": "condition-match-mismatch", "cond": ev["cond"]["t"], "frame": frame_class(uni[cid])},
                        {"what": "WitnessCondition.Match differs from Witness!Eval", "cond": ev["cond"], "ctx": cid})
    return len(fails)


def run(ctx):
    q = ctx.quick()
    rnd = random.Random(ctx.seed)
    # 1. model non-vacuity: every named deviation of the Impl model must be refuted by ImplAgrees
    for dev in ("groups", "deny", "entry", "caller", "zero"):
        try:
            ctx.tlc_mc("witness", "WitnessEnum.tla", "MC_dev_%s.cfg" % dev, timeout=600, workers=4)
            raise vlib.Inconclusive("deviation %s of the Impl model not detected (vacuous Impl => Abstract check)" % dev)
        except vlib.ModelError:
            ctx.extra["model_selftests"] = ctx.extra.get("model_selftests", 0) + 1
    # 2. exhaustive enumeration (checks Impl => Abstract on every cell, prints the abstract answers)
    W = 8 if q else 16
    uni_std, cases_std = split(ctx.tlc_dump("witness", "WitnessEnum.tla", "MC_std.cfg", timeout=1500, workers=W))
    uni_rules, cases_rules = split(ctx.tlc_dump("witness", "WitnessEnum.tla", "MC_rules_q.cfg" if q else "MC_rules.cfg",
                                                timeout=3000, workers=W))
    deep = uni_std["ctx"]
    ncell = len(cases_std) * len(uni_std["ctx"]) * len(uni_std["accts"]) + \
        len(cases_rules) * len(uni_rules["ctx"]) * len(uni_rules["accts"])
    ctx.extra["enumerated_cells"] = ncell
    ctx.extra["enumerated_configurations"] = len(cases_std) + len(cases_rules)
    ctx.extra["contexts"] = {"std": len(uni_std["ctx"]), "rules": len(uni_rules["ctx"])}
    ctx.extra["constants"] = {"MaxLinks_std": uni_std["maxlinks"], "MaxLinks_rules": uni_rules["maxlinks"]}
    impl_value_diffs = sum(len(c["impdiff"]) for c in cases_std + cases_rules)
    ctx.extra["impl_vs_abstract_value_differences(false-vs-fault)"] = impl_value_diffs

    def batch(uni, cases, fam):
        return {"family": fam, "accts": uni["accts"], "ctx": uni["ctx"],
                "cases": [{"subj": c["subj"], "signers": c["signers"], "exp": c["exp"], "impdiff": c["impdiff"],
                           "deep": False} for c in cases]}
    b_std = batch(uni_std, cases_std, "std")
    b_rules = batch(uni_rules, cases_rules, "rules")
    if q:
        # stratified sample of rule configurations observed on the deep universe (3 links) as well:
        # per top-level condition type of the first rule
        strata = {}
        for c in b_rules["cases"]:
            r = c["signers"][1]["rules"]
            strata.setdefault((len(r), r[0]["cond"]["t"], r[0]["action"]), []).append(c)
        for k in sorted(strata):
            for c in rnd.sample(strata[k], min(len(strata[k]), 4)):
                c["deep"] = True
        ctx.extra["deep_sampled_rule_configurations"] = sum(1 for c in b_rules["cases"] if c["deep"])
    ind = os.path.join(ctx.work, "in-c15")
    os.makedirs(ind)
    json.dump({"deep": deep, "batches": [b_std, b_rules], "corrupt": 0}, open(os.path.join(ind, "input.json"), "w"))
    # 3. real code
    res = ctx.go_driver("c15wit", "TestDriver", env={"VERIF_IN": ind, "VERIF_RANDOM": 100 if q else 3000, "GOGC": 400}, timeout=3000)
    viol = res.pop("violations", None) or []
    ctx.absorb(res)
    rep = Reporter(ctx)
    for v in viol:
        rep.add(v.get("signature") or {}, v)
    # 4. TLC judges the recorded observations with the abstract specification
    trace = os.path.join(res["_out"], "trace.ndjson")
    events = vlib.read_ndjson(trace)
    ctx.extra["trace_events"] = len(events)
    CH = 6000 if q else 2500
    nfail = 0
    if len(events) <= CH + 1:
        nfail += judge_trace(ctx, rep, trace, events, 3000)
    else:
        for i in range(1, len(events), CH):
            part = [events[0]] + events[i:i + CH]
            p = os.path.join(ctx.work, "trace-part.ndjson")
            vlib.write_ndjson(p, part)
            nfail += judge_trace(ctx, rep, p, part, 3000)
    ctx.traces_validated += res.get("traces", 0)
    ctx.extra["trace_lines_rejected"] = nfail
    ctx.assumptions.append("probe contracts are hand-assembled NeoVM code; their recorded answers are what "
                           "System.Runtime.CheckWitness / GAS.transfer returned in that frame")
    ctx.assumptions.append("executions use Blockchain.GetTestVM with the transaction as script container (application "
                           "trigger); the entry script receives its plan on the initial stack")
    # 5. binding self-tests (only meaningful on a clean run)
    if not viol and nfail == 0:
        selftest_trace(ctx, events)
        selftest_driver(ctx, deep, b_std)
    if not q:
        ctx.extra["exhaustive"] = True
    # extension: witness checks while the contract table changes under the running invocation (spec/witnessdyn, harness/c15dyn)
    ext = _load_ext("c15_dyn")
    if ext:
        ext.run_ext(ctx)


def _load_ext(name):
    import importlib.util
    p = os.path.join(os.path.dirname(os.path.abspath(__file__)), name + ".py")
    if not os.path.exists(p):
        return None
    sp = importlib.util.spec_from_file_location("check_" + name, p)
    m = importlib.util.module_from_spec(sp)
    sp.loader.exec_module(m)
    return m


def selftest_trace(ctx, events):
    """Corrupt one recorded observation of a good trace: TLC must reject exactly that line."""
    head = [events[0]]
    done = 0
    want = {"grant": None, "refuse": None, "match": None}
    for e in events[1:]:
        if e["event"] == "cfg" and e["obs"]:
            for j, (ci, p) in enumerate(e["obs"]):
                d = p % 3
                if d == 1 and want["refuse"] is None:
                    o = [list(x) for x in e["obs"]]
                    o[j][1] = p - 1
                    want["refuse"] = (dict(e, obs=o), "GrantedOnlyWhereAllowed")
                if d == 0 and want["grant"] is None:
                    o = [list(x) for x in e["obs"]]
                    o[j][1] = p + 1
                    want["grant"] = (dict(e, obs=o), "GrantedOnlyWhereAllowed")
        if e["event"] == "match" and want["match"] is None and e["obs"]:
            o = [list(x) for x in e["obs"]]
            o[0][1] = 1 - (o[0][1] % 2)
            want["match"] = (dict(e, obs=o), "ConditionMatches")
    good = [e for e in events[1:4]]
    for name, w in want.items():
        if w is None:
            raise vlib.Inconclusive("binding self-test: nothing to corrupt for %s" % name)
        bad, expect = w
        path = os.path.join(ctx.work, "selftest-%s.ndjson" % name)
        vlib.write_ndjson(path, head + good + [bad])
        st, tr = ctx.states, ctx.transitions
        fails = ctx.trace_judge("witness", "WitnessTrace.tla", "Trace_Witness.cfg", path, timeout=600)
        ctx.states, ctx.transitions = st, tr
        if [f for f in fails if f["line"] != len(good) + 2] or not any(expect in f["what"] for f in fails):
            raise vlib.Inconclusive("binding self-test %s: corrupted observation not rejected as expected: %s" % (name, fails[:3]))
        done += 1
    ctx.extra["binding_selftests"] = ctx.extra.get("binding_selftests", 0) + done


def selftest_driver(ctx, deep, b_std):
    """Corrupt expected outputs: the driver's comparison must report them."""
    ind = os.path.join(ctx.work, "in-c15-selftest")
    os.makedirs(ind)
    small = dict(b_std, cases=b_std["cases"][:5])
    json.dump({"deep": deep, "batches": [small], "corrupt": 3}, open(os.path.join(ind, "input.json"), "w"))
    res = ctx.go_driver("c15wit", "TestDriver", env={"VERIF_IN": ind, "VERIF_RANDOM": 0}, timeout=1200)
    n = len(res.get("violations") or [])
    if n < 3:
        raise vlib.Inconclusive("binding self-test: driver did not report corrupted expectations (%d of 3)" % n)
    ctx.extra["binding_selftests"] = ctx.extra.get("binding_selftests", 0) + 1
