"""Extension of the C01 check: the TOKEN TRANSFER LOG (RPC-visible transfer history) is a function of the block
sequence alone - whatever the backend, the flush points, the restarts and the batch boundaries; transfer GC only
forgets entries that are not newer than its bound.

Model: spec/transferlog (TransferLog abstract judge, TransferLogImpl code-shaped, TransferLogSim generator,
TransferLogTrace validator).  Real code: core.Blockchain replicas driven by harness/c01transfers.

Called from the C01 check:   ext = load('c01_transfers'); ext.run_ext(ctx)
Violation signatures carry "part": "transferlog".
"""
import concurrent.futures
import json
import os
import random

import vlib

SUB = "transferlog"
DEVIATIONS = ("MemSeekExclusive", "GCDropsEdge", "NoReloadOpenBatch", "KeyByBlockTs")
RULE_EXT = ("transfer-log extension: cases = iterations (ForEachNEP17Transfer / ForEachNEP11Transfer with 'now', exact "
            "batch-edge, neighbouring, random and zero newestTimestamp bounds) and GetTokenLastUpdated answers of real replicas "
            "(memory / BoltDB / LevelDB, different flush and restart schedules, one with transfer GC) on TLC behaviours of "
            "TransferLogImpl and on seeded random chains; every answer is compared by TLC (TransferLogTrace) with the reference "
            "rebuilt from the stored application logs")


def _mc(ctx, cfg, timeout, workers):
    return ctx.tlc_mc(SUB, "MCTransferLog.tla", cfg, timeout=timeout, workers=workers)


def model_stage(ctx):
    q = ctx.quick()
    ctx.spec_scratch(SUB)          # created once, before the parallel runs share it
    good = ["MC_TL_one.cfg", "MC_TL_two.cfg", "MC_TL_gc.cfg"] if q else \
           ["MC_TL_one_t.cfg", "MC_TL_kinds_t.cfg", "MC_TL_two_t.cfg", "MC_TL_gc_t.cfg", "MC_TL_gc2_t.cfg", "MC_TL_b2_t.cfg"]
    devs = ["MC_TL_dev_%s.cfg" % d for d in DEVIATIONS]
    w = max(2, ctx.ncpu // 4)
    errors = []
    caught = []

    def run_good(cfg):
        _mc(ctx, cfg, 900 if q else 3000, w)

    def run_dev(cfg):
        try:
            _mc(ctx, cfg, 600, 2)
        except vlib.ModelError as e:
            if not (e.res and "Invariant AbsAll is violated" in e.res["out"]):
                raise      # a broken spec is not a caught deviation
            caught.append(cfg)
            return
        raise vlib.Inconclusive("named deviation %s not detected by the abstract invariants (vacuous model)" % cfg)

    with concurrent.futures.ThreadPoolExecutor(max_workers=4) as ex:
        futs = [ex.submit(run_good, c) for c in good] + [ex.submit(run_dev, c) for c in devs]
        for f in futs:
            try:
                f.result()
            except Exception as e:       # first failure is re-raised after all runs ended (scratch stays consistent)
                errors.append(e)
    if errors:
        raise errors[0]
    ctx.extra["tl_model_selftests"] = len(caught)
    # the deviation runs end at their counterexample: their state counts are not coverage
    return good


def behaviours(ctx):
    q = ctx.quick()
    out = []
    seen = set()
    for i, cfg in enumerate(("Sim_TL_b2.cfg", "Sim_TL_b4.cfg")):
        hs = ctx.tlc_sim(SUB, "TransferLogSim.tla", cfg, num=(14 if q else 220), depth=22, timeout=300 if q else 1500,
                         seed=ctx.seed * 10 + i)
        # the candidates of the last step share their prefix: one behaviour per prefix
        for h in hs:
            k = json.dumps(h[:-1], sort_keys=True)
            if k not in seen:
                seen.add(k)
                out.append(h)
    random.Random(ctx.seed).shuffle(out)
    out = out[: (24 if q else 400)]
    if not out:
        raise vlib.Inconclusive("no transfer-log behaviours generated")
    return out


def split_worlds(events):
    """[(first line index, events of one world)]"""
    cuts = [i for i, e in enumerate(events) if e["event"] == "init"]
    cuts.append(len(events))
    return [(a, events[a:b]) for a, b in zip(cuts, cuts[1:])]


def judge(ctx, events, tag, limit=40000):
    """TLC judges the trace in chunks of whole worlds (bounded memory). Returns failure records with global lines."""
    worlds = split_worlds(events)
    chunks, cur, first = [], [], 0
    for a, evs in worlds:
        if cur and len(cur) + len(evs) > limit:
            chunks.append((first, cur))
            cur = []
        if not cur:
            first = a
        cur = cur + evs
    if cur:
        chunks.append((first, cur))
    fails = []
    for n, (first, evs) in enumerate(chunks):
        path = os.path.join(ctx.work, "tl-%s-%d.ndjson" % (tag, n))
        vlib.write_ndjson(path, evs)
        for f in ctx.trace_judge(SUB, "TransferLogTrace.tla", "Trace_TL.cfg", path, timeout=3000):
            f["line"] += first
            fails.append(f)
        os.remove(path)
    return fails


PRIORITY = ("IterNoError", "IterOrdered", "IterNoLoss", "LastUpdated")


def question(world, ev):
    """What identifies a question put to several replicas at one checkpoint."""
    if ev["event"] == "iter":
        return (world, "iter", ev["h"], ev["acc"], ev["kind"], ev["tb"], ev.get("bclass"))
    return (world, "lastupd", ev["h"], ev["acc"])


def signature(f, ev, scope):
    """Small, stable class of a failure.  scope 'all-replicas': every replica asked the same question gave a rejected
    answer (the defect does not depend on anything node-local); 'node-local': only some did - then the backend, whether
    the answer came (partly) from the write cache, GC and the kind of bound are the input class; 'replay': worlds
    following a TLC behaviour observe one replica per step."""
    kind = [k for k in PRIORITY if k in f["what"]] or sorted(f["what"])
    sig = {"part": "transferlog", "kind": kind[0], "scope": scope}
    if scope != "all-replicas":
        sig["backend"] = (ev.get("cfg") or "?/?").split("/")[-1]
        if ev["event"] == "iter":
            sig.update({"unflushed": bool(ev.get("unflushed")), "gc": ev.get("gcb", -1) >= 0})
            if scope == "node-local":
                sig["bound"] = ev.get("bclass")
    return sig


def extras_drift(ctx, events):
    """Information only: replicas asked the same question hand out a different number of entries NEWER than the bound
    (allowed by the abstract level; the code-shaped model predicts equal batch boundaries on every replica)."""
    groups = {}
    world = -1
    for e in events:
        if e["event"] == "init":
            world = e["world"]
        if e["event"] == "iter" and e.get("gcb", -1) < 0:
            newer = sum(1 for x in e["res"] if x[0] > e["tb"])
            groups.setdefault((world, e["h"], e["acc"], e["kind"], e["tb"], e["bclass"]), set()).add(newer)
    n = 0
    for k, v in groups.items():
        if len(v) > 1:
            n += 1
            if len(ctx.spec_drift) < 20:
                ctx.spec_drift.append({"kind": "newer-than-bound-prefix-differs", "where": list(k), "counts": sorted(v)})
    ctx.extra["tl_extras_disagreements"] = n


def selftest(ctx, events):
    """Binding self-test: four corruptions of a good recorded world must each be rejected with the expected predicate."""
    worlds = split_worlds(events)
    done = {}
    for _, evs in worlds:
        for i, e in enumerate(evs):
            if e["event"] == "iter" and e.get("gcb", -1) < 0 and not e["err"]:
                res = e["res"]
                wanted = [j for j, x in enumerate(res) if x[0] <= e["tb"]]
                if "drop" not in done and len(wanted) >= 2:
                    j = wanted[len(wanted) // 2]
                    done["drop"] = (evs, i, dict(e, res=res[:j] + res[j + 1:]), "IterNoLoss")
                # (a complete answer - bound "now" - so that a repeated or displaced entry cannot pass for one of the
                # identical entries a burst leaves in the reference)
                if "dup" not in done and len(res) >= 1 and e["bclass"] == "max":
                    done["dup"] = (evs, i, dict(e, res=res[:1] + res), "IterOrdered")
                if "swap" not in done and e["bclass"] == "max":
                    for j in range(len(res) - 1):
                        if res[j] != res[j + 1]:
                            r2 = list(res)
                            r2[j], r2[j + 1] = r2[j + 1], r2[j]
                            done["swap"] = (evs, i, dict(e, res=r2), "IterOrdered")
                            break
                if "edge" not in done and e["bclass"] == "edge" and wanted and wanted[0] == 0:
                    # what a seek that stops short of the batch keyed exactly by the bound would return
                    k = 0
                    while k < len(res) and res[k][0] == e["tb"]:
                        k += 1
                    if 0 < k < len(res):
                        done["edge"] = (evs, i, dict(e, res=res[k:]), "IterNoLoss")
            if e["event"] == "lastupd" and "lu" not in done and e["lu"]:
                lu = [list(p) for p in e["lu"]]
                lu[0][1] += 1
                done["lu"] = (evs, i, dict(e, lu=lu), "LastUpdated")
        if len(done) >= 5:
            break
    need = {"drop", "dup", "swap", "lu"}
    if not need <= set(done):
        raise vlib.Inconclusive("transfer-log self-test could not find places to corrupt: %s" % sorted(need - set(done)))
    # one TLC run over the concatenation of the corrupted worlds (each keeps its init / block events and ends with the
    # corrupted answer): exactly the last line of each segment must be reported, with the expected predicate
    st, trn = ctx.states, ctx.transitions
    seg_all, last_line = [], {}
    for name, (evs, i, bad, expect) in sorted(done.items()):
        seg_all += [x for x in evs[:i] if x["event"] in ("init", "block")] + [bad]
        last_line[len(seg_all)] = (name, expect)
    path = os.path.join(ctx.work, "tl-selftest.ndjson")
    vlib.write_ndjson(path, seg_all)
    fails = ctx.trace_judge(SUB, "TransferLogTrace.tla", "Trace_TL.cfg", path, timeout=900)
    ctx.states, ctx.transitions = st, trn
    got = {f["line"]: f["what"] for f in fails}
    for line, (name, expect) in last_line.items():
        if expect not in got.get(line, []):
            raise vlib.Inconclusive("transfer-log binding self-test %s: corrupted answer not rejected (%s expected, got %s)" % (
                name, expect, got.get(line)))
    extra = [ln for ln in got if ln not in last_line]
    if extra:
        raise vlib.Inconclusive("transfer-log binding self-test: uncorrupted lines reported: %s" % extra[:5])
    ctx.extra["tl_binding_selftests"] = len(last_line)


def run_ext(ctx):
    q = ctx.quick()
    # 1. exhaustive: Impl => Abstract; the four named deviations are caught
    model_stage(ctx)
    # 2. behaviours of the code-shaped model
    bs = behaviours(ctx)
    ind = os.path.join(ctx.work, "in-c01x")
    os.makedirs(ind, exist_ok=True)
    json.dump(bs, open(os.path.join(ind, "behaviours.json"), "w"))
    # 3. real replicas
    res = ctx.go_driver("c01transfers", "TestDriver", timeout=3000, env={
        "VERIF_IN": ind, "VERIF_RANDOM_WORLDS": 1 if q else 8, "VERIF_RANDOM_BLOCKS": 48 if q else 90,
        "VERIF_CHECK_EVERY": 6 if q else 5})
    ctx.absorb(res)
    # 4. TLC judges every recorded answer against the abstract specification
    trace = os.path.join(res["_out"], "trace.ndjson")
    events = vlib.read_ndjson(trace)
    fails = judge(ctx, events, "main")
    ctx.traces_validated += res.get("traces", 0)
    kinds = {}
    for e in events:
        kinds[e["event"]] = kinds.get(e["event"], 0) + 1
    ctx.extra["tl_trace_events"] = kinds
    starts, world_of, src_of, asked = {}, {}, {}, {}
    s0 = 0
    for i, e in enumerate(events):
        if e["event"] == "init":
            s0 = i
        starts[i] = s0
        if e["event"] in ("iter", "lastupd"):
            asked.setdefault(question(s0, e), {})[e["r"]] = e.get("gcb", -1)
    failed = {}
    for f in fails:
        ev = events[f["line"] - 1]
        failed.setdefault(question(starts[f["line"] - 1], ev), set()).add(ev["r"])
    for f in fails:
        li = f["line"] - 1
        ev = events[li]
        init = events[starts[li]]
        qk = question(starts[li], ev)
        if init.get("src") == "tlc":
            scope = "replay"
        elif len(asked[qk]) > 1 and failed[qk] >= {r for r, g in asked[qk].items() if g < 0}:
            scope = "all-replicas"      # every replica that has collected nothing (a GC replica may have lost the evidence)
        else:
            scope = "node-local"
        sig = signature(f, ev, scope)
        ctx.violation(sig, {
            "what": "abstract predicate(s) %s false on the answer of a real replica" % sorted(f["what"]),
            "where": f.get("ctx") or {}, "replicas_asked": sorted(asked[qk]), "replicas_rejected": sorted(failed[qk]),
            "world": {k: init.get(k) for k in ("world", "src", "mtb", "batch", "replicas")},
            "seed": ctx.seed, "tier": ctx.tier,
            "answer_head": (ev.get("res") or ev.get("lu") or [])[:12],
            "schedule": [{k: v for k, v in x.items() if k in ("event", "r", "h", "gcb")}
                         for x in events[starts[li]:li] if x["event"] in ("add", "flush", "restart") and x.get("r") == ev.get("r")][-40:],
        })
    extras_drift(ctx, events)
    # 5. binding self-test on the good trace
    if not fails and not ctx.violations:
        selftest(ctx, events)
    ctx.samples.append({"transferlog": {"behaviours": len(bs), "events": kinds,
                                        "probe_same_block_deploy": ctx.extra.get("tl_probe_same_block_deploy")}})
    ctx.assumptions.append("transfer log: block timestamps are strictly increasing with the index, so a newestTimestamp bound is "
                           "represented by the index of the last block not newer than it")
    ctx.assumptions.append("transfer log: the reference follows the rules established from the code (sender entry then receiver "
                           "entry, also for a self-transfer; events of a contract deployed in the same block are not logged - "
                           "recorded by a probe as information, judged worlds avoid the case)")
    ctx.assumptions.append("transfer log: the GC bound used by the judge is the target tryRunGC computes from the persisted "
                           "height; a collection the node skipped (timestamp not in its in-memory cache) only retains more")
