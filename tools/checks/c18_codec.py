"""Extension of the C18 check: the NUMBER / IDENTIFIER CODECS the registered check leaves out -
"... 160/256-bit integers, fixed-point decimals ... all decode back to exactly what was encoded": pkg/encoding/fixedn
(decimal.go ToString / FromString at any precision, fixed8.go), pkg/util Uint160 / Uint256 (BE / LE byte and string forms,
Reverse, Compare / Less, JSON / YAML), pkg/encoding/address + base58 (Base58Check).  Called from c18.py:

    ext = _load_ext('c18_codec'); ext.run_ext(ctx)

Model: spec/numcodec
  Decimal       (abstract: grammar, what a string denotes, canonical form; constructive: Canon, SynCanon; input classes)
  DecimalImpl   (decimal.go step by step over BigInt, with the table of powers of ten as an explicit memo; named deviations
                 AliasTable, SignFromIntValue, SignFromQuotient, FracUint64, TruncateFraction, TrimWholeZero)
  UintN, Base58 (byte / hex views by what they denote, numeric order; positional base-58 spelling, checksum uninterpreted)
  NumCodecEnum  (the specification as oracle: one state per case, checked against the laws, printed for the driver)
  CodecHistory / CodecHistoryImpl / CodecHistoryMC / CodecHistorySim
                (the codecs are PURE FUNCTIONS: abstract machine whose memo is empty for ever; the code's table as the concrete
                 memo; exhaustive runs; generator of call histories)
  NumCodecTrace (judges what the real code did on seeded random inputs)
Real code: harness/c18codec (enumerated cases forward / reverse; every TLC history in ONE FRESH PROCESS of the test binary)."""
import json
import os
import random
from concurrent.futures import ThreadPoolExecutor

import vlib

PART = "codec"
SPEC = "numcodec"
RULE_EXT = ("codec: cases = calls of the real number codecs: (a) one per (enumerated case, pass) - TLC enumerates value x "
            "precision, string x precision (every malformation), Fixed8 range edges, Uint160 / Uint256 patterns, ordered "
            "pairs, malformed decoder inputs and prints the specified output; each case is executed forward and in reverse "
            "order; (b) one per call of a TLC-generated call history (exhaustive orders of precisions below / at / above the "
            "table of powers of ten, plus simulated long histories), every history replayed in one fresh process and every "
            "answer compared with the pure answer; (c) one per seeded random input, judged by NumCodecTrace.tla")

RULE = RULE_EXT      # stand-alone runs (tools/vcheck EXT:c18_codec)

DEVS_DECIMAL = ("SignFromIntValue", "SignFromQuotient", "FracUint64", "TruncateFraction", "TrimWholeZero")
DEVS_UINT = ("LENoReverse", "LexFromLast")

DEC = "0123456789-+.A _e"


def dstr(codes):
    return "".join(DEC[c] if 0 <= c < len(DEC) else "?" for c in codes)


def cases_of(out, marker):
    res = []
    for line in out.splitlines():
        i = line.find(marker)
        if i < 0:
            continue
        js = vlib.extract_tla_string(line[i + len(marker):])
        if js is None:
            continue
        try:
            res.append(json.loads(js))
        except Exception:
            pass
    return res


def tlc_parallel(ctx, jobs):
    """jobs: list of dict(name, module, cfg, timeout, workers, extra).  Runs them concurrently (each is its own JVM) and
    returns {name: result of ctx.tlc}.  Bookkeeping stays in the calling thread."""
    d = ctx.spec_scratch(SPEC)
    with ThreadPoolExecutor(max_workers=len(jobs)) as ex:
        futs = {j["name"]: ex.submit(ctx.tlc, d, j["module"], j["cfg"], j["timeout"], workers=j.get("workers", 2),
                                     extra=j.get("extra", ()), tag=j["name"], jvm=["-Xmx%dg" % j.get("heap_g", 2)])
                for j in jobs}
        rs = {k: f.result() for k, f in futs.items()}
    # a JVM that died without a TLC verdict (no "Error:" line: killed, could not reserve memory on the shared machine) is
    # run once more, alone
    for j in jobs:
        r = rs[j["name"]]
        if not r["timed_out"] and r["error"] and r["error"].startswith("rc="):
            vlib.log("codec: TLC job %s ended with %s and no verdict, running it again" % (j["name"], r["error"]))
            rs[j["name"]] = ctx.tlc(d, j["module"], j["cfg"], j["timeout"], workers=j.get("workers", 2), extra=j.get("extra", ()),
                                    tag=j["name"] + "-again", jvm=["-Xmx%dg" % j.get("heap_g", 2)])
    return rs


def must_pass(ctx, r, what):
    if r["timed_out"]:
        raise vlib.Inconclusive("codec: TLC timed out on %s" % what)
    if r["error"]:
        raise vlib.ModelError("codec: TLC reported an error on %s: %s" % (what, r["error"]), r)
    ctx.states += r.get("states", 0)
    ctx.transitions += r.get("transitions", 0)
    vlib.log("codec %s: %s distinct states, %s generated, %.1fs" % (what, r.get("states"), r.get("transitions"), r["wall_s"]))


def must_fail(ctx, r, name, invariants):
    """Model-level non-vacuity: the named deviation must be refuted by one of the given invariants / properties."""
    if r["timed_out"]:
        raise vlib.Inconclusive("codec: TLC timed out on deviation %s" % name)
    if not r["error"] or not any(("%s is violated" % i) in r["out"] or ("property %s" % i) in r["out"] for i in invariants):
        raise vlib.Inconclusive("codec: named deviation %s not refuted by %s (vacuous model): %s" % (name, invariants, r["error"]))
    ctx.extra["codec_model_selftests"] = ctx.extra.get("codec_model_selftests", 0) + 1


def run_ext(ctx):
    q = ctx.quick()
    rnd = random.Random(ctx.seed)
    ind = os.path.join(ctx.work, "in-c18codec")
    os.makedirs(ind, exist_ok=True)

    # ------------------------------------------------------------------ 1. models
    jobs = [
        dict(name="enum", module="NumCodecEnum.tla", cfg="Enum_q.cfg" if q else "Enum_t.cfg", timeout=900 if q else 2400, workers=8, heap_g=6),
        dict(name="history", module="CodecHistoryMC.tla", cfg="MC_History_q.cfg" if q else "MC_History_t.cfg",
             timeout=600 if q else 2400, workers=4),
        dict(name="order", module="CodecHistorySim.tla", cfg="Enum_Order2.cfg" if q else "Enum_Order3.cfg",
             timeout=600 if q else 1800, workers=2 if q else 4),
        dict(name="sim", module="CodecHistorySim.tla", cfg="Sim_History.cfg", timeout=600 if q else 1800, workers=1,
             extra=["-simulate", "num=%d" % (100 if q else 1500), "-depth", "17", "-seed", str(ctx.seed)]),
        dict(name="dev-AliasTable", module="CodecHistoryMC.tla", cfg="MC_History_dev_AliasTable.cfg", timeout=600, workers=2),
    ]
    jobs += [dict(name="dev-" + d, module="NumCodecEnum.tla", cfg="MC_Dev_%s.cfg" % d, timeout=600, workers=2)
             for d in DEVS_DECIMAL + DEVS_UINT]
    rs = tlc_parallel(ctx, jobs)
    must_pass(ctx, rs["enum"], "NumCodecEnum (laws on every enumerated case)")
    must_pass(ctx, rs["history"], "CodecHistoryImpl (AnswerIsPure, TablePristine%s)" % ("" if q else ", Refines"))
    must_pass(ctx, rs["order"], "CodecHistorySim / orders")
    if rs["sim"]["error"] and "@@HIST@@" not in rs["sim"]["out"]:
        raise vlib.Inconclusive("codec: simulation failed: %s" % rs["sim"]["error"])
    must_fail(ctx, rs["dev-AliasTable"], "AliasTable", ("AnswerIsPure", "TablePristine", "Refines"))
    for d in DEVS_DECIMAL:
        must_fail(ctx, rs["dev-" + d], d, ("ValOK", "StrOK"))
    for d in DEVS_UINT:
        must_fail(ctx, rs["dev-" + d], d, ("UintOK", "OrdOK"))

    cases = cases_of(rs["enum"]["out"], "@@CASE@@")
    orders = cases_of(rs["order"]["out"], "@@HIST@@")
    sims, seen = [], set()
    for h in cases_of(rs["sim"]["out"], "@@HIST@@"):
        k = json.dumps(h, sort_keys=True)
        if k not in seen:
            seen.add(k)
            sims.append(h)
    nk = {}
    for c in cases:
        nk[c["k"]] = nk.get(c["k"], 0) + 1
    if nk.get("val", 0) < 3000 or nk.get("str", 0) < 3000 or nk.get("uint", 0) < 150 or nk.get("ord", 0) < 100 or nk.get("udec", 0) < 80:
        raise vlib.Inconclusive("codec: the enumeration printed too few cases: %s" % nk)
    if len(orders) < (144 if q else 1728) or len(sims) < (60 if q else 800):
        raise vlib.Inconclusive("codec: too few call histories generated (%d orders, %d simulated)" % (len(orders), len(sims)))
    # every ordered pair of table classes must occur next to each other in some history
    adj = set()
    for h in orders + sims:
        for a, b in zip(h, h[1:]):
            adj.add((pclass(a["p"]), pclass(b["p"])))
    if len(adj) < 9:
        raise vlib.Inconclusive("codec: histories do not mix precisions below / at / above the table in every order: %s" % sorted(adj))
    if not q:
        rnd.shuffle(orders)
        orders = orders[:1728]
    rnd.shuffle(cases)      # the order of the enumeration is part of the experiment (forward, then reverse): seeded
    json.dump(cases, open(os.path.join(ind, "cases.json"), "w"))
    json.dump(orders, open(os.path.join(ind, "orders.json"), "w"))
    json.dump(sims, open(os.path.join(ind, "histories.json"), "w"))
    ctx.extra["codec_cases_enumerated"] = nk
    ctx.extra["codec_histories"] = {"orders": len(orders), "simulated": len(sims)}

    # ------------------------------------------------------------------ 2. the real code
    res = ctx.go_driver("c18codec", "TestDriver", timeout=3000, env={
        "VERIF_IN": ind, "VERIF_RANDOM_DECIMAL": 260 if q else 4000, "VERIF_RANDOM_FIXED8": 120 if q else 1500,
        "VERIF_RANDOM_UINT": 100 if q else 1200, "VERIF_RANDOM_ADDR": 32 if q else 300})
    stats = res.pop("stats", None) or {}
    for k, v in stats.items():
        ctx.extra["codec_" + k] = v
    ctx.absorb(res)
    ctx.traces_validated += res.get("traces", 0)

    # ------------------------------------------------------------------ 3. TLC judges the seeded random part
    trace = os.path.join(res["_out"], "trace.ndjson")
    events = vlib.read_ndjson(trace)
    fails = judge_chunks(ctx, events)
    nviol = report(ctx, events, fails)
    ctx.extra["codec_trace_events"] = len(events)
    ctx.traces_validated += 1

    # ------------------------------------------------------------------ 4. binding self-tests
    try:
        selftest(ctx, events, fails, cases, orders)
    except vlib.Inconclusive as e:
        if not ctx.violations:
            raise
        vlib.log("codec: binding self-test not completed on a tree that violates the property (%s)" % e)

    ctx.assumptions += [
        "codec: SHA-256 is not modelled: the Base58Check checksum is an uninterpreted function whose value per payload is "
        "computed by the driver with crypto/sha256 (not through the code under test)",
        "codec: which non-canonical or malformed strings a decoder tolerates is judged only where the repository's own tests "
        "pin it (empty, non-digit, more fraction digits than the precision); the rest is recorded as drift",
        "codec: a call that gives no answer within 20 s (calls take microseconds) is reported as not returning",
        "codec: the order of Uint160 / Uint256 promised by the doc comments (numeric, big-endian) is recorded as drift when the "
        "code orders differently; only Less / Compare consistency is judged",
    ]
    return nviol


def pclass(p):
    return "below" if p < 16 else ("at" if p == 16 else "above")


def judge_chunks(ctx, events, chunk=6000):
    fails = []
    lo = 0
    while lo < len(events):
        hi = min(len(events), lo + chunk)
        p = os.path.join(ctx.work, "codec-trace-part.ndjson")
        vlib.write_ndjson(p, events[lo:hi])
        for f in ctx.trace_judge(SPEC, "NumCodecTrace.tla", "Trace_NumCodec.cfg", p, timeout=3000):
            f["line"] += lo
            fails.append(f)
        lo = hi
    return fails


def signature_of(ev, name, fctx):
    """(kind, class) of a falsified abstract predicate on a recorded event."""
    e = ev["event"]
    if e == "tostr":
        return "decimal-roundtrip", fctx.get("cls")
    if e == "parse":
        return "decimal-parse", fctx.get("cls")
    if e == "f8":
        return "fixed8", fctx.get("scls") if name == "Fixed8RoundTrip" else fctx.get("cls")
    if e == "f8parse":
        return "fixed8", fctx.get("cls")
    t = "uint160" if ev.get("n") == 20 else "uint256"
    if e == "uint":
        return "uint-roundtrip", "%s/%s" % (t, name)
    if e == "ord":
        return "uint-order", "%s/%s" % (t, {"LessAgreesWithCompare": "less-differs-from-compare"}.get(name, "compare-not-an-order"))
    if e == "udec":
        return "uint-roundtrip", "%s/decode-%s" % (t, ev.get("form"))
    if e == "addr":
        return "address", {"AddressRoundTrip": "roundtrip", "AlteredAddressSameHash": "altered-string-same-hash"}.get(name, name)
    return "address", "base58check-roundtrip" if ev.get("data") else "base58check-empty-payload"


def readable(ev):
    out = dict(ev)
    if ev["event"] in ("parse", "f8parse"):
        out["string"] = dstr(ev["s"])
    if ev["event"] == "tostr":
        out["string"] = "".join(DEC[c] if c < len(DEC) else chr(c - len(DEC) - 1000) for c in ev["out"])
    if ev["event"] == "f8":
        out["string"] = "".join(DEC[c] if c < len(DEC) else chr(c - len(DEC) - 1000) for c in ev["str"])
    return out


def report(ctx, events, fails):
    n = 0
    for f in fails:
        ev = events[f["line"] - 1]
        for w in sorted(f["what"]):
            if w.startswith("harness:"):
                raise vlib.Inconclusive("codec: the driver recorded a malformed event: %s" % json.dumps(ev)[:300])
            if w.startswith("drift:"):
                key = "codec_drift_" + w[6:]
                ctx.extra[key] = ctx.extra.get(key, 0) + 1
                if ctx.extra[key] == 1 and len(ctx.spec_drift) < 20:
                    ctx.spec_drift.append({"part": PART, "kind": w[6:], "event": readable(ev), "spec": f["ctx"]})
                continue
            n += 1
            kind, cls = signature_of(ev, w, f["ctx"])
            ctx.violation({"part": PART, "kind": kind, "class": cls},
                          {"what": "abstract predicate %s of spec/numcodec is false for an answer of the real code" % w,
                           "event": readable(ev), "specification": f["ctx"]})
    return n


def selftest(ctx, events, fails, cases, orders):
    """Corrupt one field of good recorded events / one expected output and require rejection."""
    badlines = set(f["line"] - 1 for f in fails if any(not w.startswith("drift:") for w in f["what"]))
    good = [e for i, e in enumerate(events) if i not in badlines]

    def pick(kind, cond=lambda e: True):
        for e in good:
            if e["event"] == kind and cond(e):
                return json.loads(json.dumps(e))
        raise vlib.Inconclusive("codec self-test: no good %s event to corrupt" % kind)

    muts = []
    e = pick("tostr", lambda e: not e["hung"] and len(e["out"]) >= 3)
    e["out"][-1] = (e["out"][-1] + 1) % 10
    muts.append((e, "ToStringCanonical"))
    e = pick("parse", lambda e: e["ok"] and len(e["mag"]) >= 1)
    e["mag"][0] ^= 1
    muts.append((e, "ParseValue"))
    e = pick("f8", lambda e: e["bok"])
    e["bneg"] = not e["bneg"]
    muts.append((e, "Fixed8RoundTrip"))
    e = pick("uint")
    e["le"][0], e["le"][-1] = e["le"][-1], (e["le"][0] + 1) % 256
    muts.append((e, "BytesLE"))
    e = pick("ord", lambda e: e["hasless"] and e["cmp"] != 0)
    e["less"] = not e["less"]
    muts.append((e, "LessAgreesWithCompare"))
    e = pick("addr")
    e["same"] = 1
    muts.append((e, "AlteredAddressSameHash"))
    e = pick("addr")
    e["back"][3] ^= 4
    muts.append((e, "AddressRoundTrip"))
    e = pick("b58c", lambda e: len(e["data"]) >= 2)
    e["back"] = e["back"][1:]
    muts.append((e, "Base58CheckRoundTrip"))
    path = os.path.join(ctx.work, "codec-selftest.ndjson")
    vlib.write_ndjson(path, [m[0] for m in muts])
    st, tr = ctx.states, ctx.transitions
    got = ctx.trace_judge(SPEC, "NumCodecTrace.tla", "Trace_NumCodec.cfg", path, timeout=600)
    ctx.states, ctx.transitions = st, tr
    by_line = {f["line"]: set(f["what"]) for f in got}
    for i, (_, name) in enumerate(muts):
        if name not in by_line.get(i + 1, set()):
            raise vlib.Inconclusive("codec binding self-test: corrupted %s event not rejected with %s (got %s)" % (
                muts[i][0]["event"], name, sorted(by_line.get(i + 1, []))))
    ctx.extra["codec_binding_selftests"] = len(muts)

    # expected outputs (spec -> code direction): corrupted specified outputs must make the driver report violations
    ind = os.path.join(ctx.work, "in-c18codec-selftest")
    os.makedirs(ind, exist_ok=True)
    sel = []
    v = next(c for c in cases if c["k"] == "val" and c["cls"] == "pos-fraction" and c["p"] == 6)
    v = dict(v, out=v["out"][:-1] + [(v["out"][-1] + 1) % 10])
    s = next(c for c in cases if c["k"] == "str" and c["cls"] == "canonical-fraction" and c["p"] == 2 and not c["neg"])
    s = dict(s, mag=[(s["mag"] or [0])[0] ^ 1] + (s["mag"] or [0])[1:], canon=s["canon"])
    u = next(c for c in cases if c["k"] == "uint" and c["n"] == 32 and c["sle"][0] != c["sle"][-1])
    u = dict(u, sle=[u["sle"][-1]] + u["sle"][1:-1] + [u["sle"][0]])
    sel = [v, s, u]
    h = json.loads(json.dumps(orders[0]))
    for c in h:
        if c["op"] == "tostring":
            c["str"] = c["str"] + [0]
        else:
            c["rmag"] = [(c["rmag"] or [0])[0] ^ 1] + (c["rmag"] or [0])[1:]
    json.dump(sel, open(os.path.join(ind, "cases.json"), "w"))
    json.dump([h], open(os.path.join(ind, "orders.json"), "w"))
    json.dump([], open(os.path.join(ind, "histories.json"), "w"))
    r = ctx.go_driver("c18codec", "TestDriver", timeout=900, env={
        "VERIF_IN": ind, "VERIF_RANDOM_DECIMAL": 0, "VERIF_RANDOM_FIXED8": 0, "VERIF_RANDOM_UINT": 0, "VERIF_RANDOM_ADDR": 0})
    kinds = set((x["signature"].get("kind"), x["signature"].get("class")) for x in r.get("violations") or [])
    want = {("decimal-roundtrip", "pos-fraction"), ("decimal-parse", "canonical-fraction"), ("uint-roundtrip", "uint256/StringLE")}
    in_history = any(isinstance(x.get("replay"), dict) and "history" in x["replay"] for x in r.get("violations") or [])
    if not want <= kinds or not in_history:
        raise vlib.Inconclusive("codec binding self-test: corrupted expected outputs were not reported by the driver (%s)" % sorted(kinds))
    ctx.extra["codec_binding_selftests"] += 4
