"""C07 - transaction admission is sound, fee-exact and yields proposable blocks.
Model: spec/admission (Admission abstract judge; AdmissionImpl code-shaped order of checks + block packing;
AdmissionCases / AdmissionPack enumerations; AdmissionTrace validator).  Real code: core.Blockchain PoolTx / VerifyTx /
ApplyPolicyToTxSet / AddBlock on prepared chains, driven by harness/c07admit."""
import json
import os
import random

import vlib

RULE = ("cases = (a) admission cells: one concrete transaction per (TLC-enumerated cell x prepared chain), offered as wire bytes "
        "through NewTransactionFromBytes -> PoolTx and VerifyTx; a cell is the valid transaction or a transaction invalid in "
        "exactly one respect, over witness kinds, cosigners, attributes, sizes up to the limit, validity-window edges, balance "
        "edges, fee slack -1/0/+1 and 23 encodings; (b) proposals: a pool filled with admitted transactions, packed by "
        "ApplyPolicyToTxSet, block encoded, decoded and offered to an independent replica (TLC-enumerated packing cases, an "
        "encoding sweep, seeded mixes). distinct = distinct (chain, cell) / (chain, pool, selection); every case is judged by "
        "TLC (AdmissionTrace) against the abstract predicates Sound, FeeExact, Consistent, Proposable, WithinLimits")

NC_KIND = "noncanonical-encoding-admitted"


def run(ctx):
    q = ctx.quick()
    # 1. model level: the code-shaped order of checks agrees with the abstract defect sets on every cell with TWO defects
    ctx.tlc_mc("admission", "AdmissionCases.tla", "MC_pairs.cfg", timeout=900)
    ctx.tlc_mc("admission", "MCPack.tla", "MC_pack_q.cfg" if q else "MC_pack.cfg", timeout=1200)
    # non-vacuity: named deviations of the code-shaped level must be caught by the same invariants
    for mod, cfg in (("AdmissionCases.tla", "MC_dev_VubInclusive.cfg"), ("AdmissionCases.tla", "MC_dev_ConflictAnySigner.cfg"),
                     ("MCPack.tla", "MC_dev_PackNoSysFee.cfg"), ("MCPack.tla", "MC_dev_PackCountLate.cfg")):
        try:
            ctx.tlc_mc("admission", mod, cfg, timeout=600)
            raise vlib.Inconclusive("deviation %s not detected by the model invariants (vacuous model)" % cfg)
        except vlib.ModelError:
            ctx.extra["model_selftests"] = ctx.extra.get("model_selftests", 0) + 1
    # 2. enumeration: the specification is the oracle
    rnd = random.Random(ctx.seed)
    rows = ctx.tlc_dump("admission", "AdmissionCases.tla", "Cases_k1.cfg", timeout=600)
    k1 = {json.dumps(r["cell"], sort_keys=True) for r in rows}
    if not q:
        more = ctx.tlc_dump("admission", "AdmissionCases.tla", "Cases_k2.cfg", timeout=3000, workers=4)
        more = [r for r in more if json.dumps(r["cell"], sort_keys=True) not in k1]
        prod = ctx.tlc_dump("admission", "AdmissionCases.tla", "Cases_prod.cfg", timeout=3000, workers=4)
        seen = {json.dumps(r["cell"], sort_keys=True) for r in more} | k1
        more += [r for r in prod if json.dumps(r["cell"], sort_keys=True) not in seen]
        rows += more
    packs = ctx.tlc_dump("admission", "MCPack.tla", "Cases_pack_q.cfg" if q else "Cases_pack.cfg", timeout=900, workers=4)
    ctx.extra["cells"] = len(rows)
    ctx.extra["pack_cases"] = len(packs)
    ind = os.path.join(ctx.work, "in-c07")
    os.makedirs(ind)
    json.dump(rows, open(os.path.join(ind, "cells.json"), "w"))
    json.dump(packs, open(os.path.join(ind, "packs.json"), "w"))
    # 3. the real node
    res = ctx.go_driver("c07admit", "TestDriver", timeout=3000,
                        env={"VERIF_IN": ind, "VERIF_W1_SHARE": 100, "VERIF_WORLDS": 2 if q else 4, "VERIF_PACKS": 400 if q else 12000,
                             "VERIF_MIXES": 80 if q else 1500, "VERIF_NCMIXES": 30 if q else 500})
    ctx.absorb(res)
    # 4. TLC judges the recorded trace against the abstract specification
    trace = os.path.join(res["_out"], "trace.ndjson")
    events = vlib.read_ndjson(trace)
    detail = vlib.read_ndjson(os.path.join(res["_out"], "detail.ndjson"))
    fails = []
    CH = 40000      # one TLC run per 40 000 events keeps the JSON log within a modest heap
    for lo in range(0, len(events), CH):
        part = trace
        if len(events) > CH:
            part = os.path.join(ctx.work, "trace-part-%d.ndjson" % lo)
            vlib.write_ndjson(part, events[lo:lo + CH])
        for f in ctx.trace_judge("admission", "AdmissionTrace.tla", "Trace_Admission.cfg", part, timeout=3000):
            f["line"] += lo
            fails.append(f)
    ctx.traces_validated += res.get("traces", 0)
    ctx.extra["trace_events"] = len(events)
    failed_lines = set()
    drift = {}
    for f in fails:
        li = f["line"] - 1
        ev = events[li]
        names = sorted(f["what"])
        hard = [n for n in names if not n.startswith("Drift")]
        for n in names:
            if n.startswith("Drift"):
                drift[n] = drift.get(n, 0) + 1
                if n == "DriftRealisation":
                    raise vlib.Inconclusive("the harness did not realise the requested cell (line %d): facts %s, wanted %s" % (
                        f["line"], ev.get("f"), ev.get("want")))
                if len(ctx.spec_drift) < 20 and drift[n] <= 3:
                    ctx.spec_drift.append({"what": n, "event": brief(ev, detail, li)})
        if not hard:
            continue
        failed_lines.add(li)
        if ev["event"] == "admit":
            d = detail[li].get("detail", {}) if li < len(detail) else {}
            cell = d.get("cell", {})
            for n in hard:
                sig = {"kind": n, "respect": "+".join(sorted(defects_of(ev))) or "none", "cell_value": bad_value(cell)}
                ctx.violation(sig, {"what": "abstract predicate %s false for a transaction offered to the real node" % n,
                                    "world": ev.get("world"), "cell": cell, "facts": ev["f"], "observed": ev["o"],
                                    "message": detail[li].get("msg"), "info": d.get("info")})
        else:
            for n in hard:
                if n == "Proposable":
                    culprits = ev.get("culprits") or []
                    fields = sorted({ev["tx"][i - 1]["enc"].split("_")[0] for i in culprits})
                    if fields:
                        for fld in fields:
                            ctx.violation({"kind": NC_KIND, "field": fld},
                                          {"what": "a transaction received in a non-minimal encoding was admitted to the pool under the hash of the "
                                                   "received bytes; the block proposed from the pool is rejected by an independent replica after the "
                                                   "wire round trip", "error": ev.get("err"), "src": ev["src"],
                                           "txs": [ev["tx"][i - 1] for i in culprits], "pool": ev["pool"], "sel": ev["sel"]})
                    else:
                        ctx.violation({"kind": "proposal-rejected", "error": err_class(ev.get("err", ""))},
                                      {"what": "block packed from the pool is rejected by an independent replica", "event": ev})
                else:
                    ctx.violation({"kind": "proposal-exceeds-limits"}, {"what": "packed block exceeds the block limits", "event": ev})
    ctx.extra["drift_counts"] = drift
    ctx.extra["hard_failures"] = len(failed_lines)
    ctx.assumptions += [
        "chain states are prepared chains (default and seeded Policy values incl. fractional execution fee factors), not arbitrary histories",
        "the fee threshold is judged for the canonical encoding; for non-minimal encodings only soundness w.r.t. the canonical size and proposability are judged",
        "contract-based witnesses (deployed verify(), native Notary / Oracle, custom scripts): cost not judged, only PoolTx/VerifyTx consistency",
        "replica = a second core.Blockchain on its own MemoryStore fed only wire bytes; consensus message exchange itself is C19",
    ]
    # 5. binding self-test: corrupted good events must be rejected by the same trace specification
    selftest(ctx, events, failed_lines)
    if not ctx.samples:
        ctx.samples.append(brief(events[1], detail, 1))
    # extension: the on-chain conflict record store (spec/conflictrec, harness/c07conflicts)
    ext = _load_ext("c07_conflicts")
    if ext:
        ext.run_ext(ctx)
    # extension: the life of the pool across blocks (spec/poollife, harness/c07poollife)
    ext = _load_ext("c07_poollife")
    if ext:
        ext.run_ext(ctx)


def _load_ext(name):
    import importlib.util
    p = os.path.join(os.path.dirname(os.path.abspath(__file__)), name + ".py")
    if not os.path.exists(p):
        return None
    sp = importlib.util.spec_from_file_location("check_" + name, p)
    m = importlib.util.module_from_spec(sp)
    sp.loader.exec_module(m)
    return m


def defects_of(ev):
    return ev.get("want", {}).get("defects") or []


def bad_value(cell):
    default = {"form": "ok", "script": "ok", "chain": "fresh", "blocked": "none", "attr": "none", "wval": "ok", "bal": "ok",
               "sysfee": "ok", "size": "small", "d": "0", "vub": "mid"}
    bad = {"vub": ("expired", "far"), "chain": ("dup", "namedsender", "namedcosigner"), "size": ("over",), "d": ("m1",),
           "bal": ("short",), "sysfee": ("over",)}
    out = []
    for k, v in sorted(cell.items()):
        if k in ("form", "script", "blocked", "wval") and v != default[k]:
            out.append("%s=%s" % (k, v))
        elif k == "attr" and ("_" in v or v == "reserved"):
            out.append("%s=%s" % (k, v))
        elif k in bad and v in bad[k]:
            out.append("%s=%s" % (k, v))
    return ",".join(out) or "valid"


def err_class(s):
    for k in ("MerkleRoot", "failed to verify", "hash mismatch", "decode", "encode"):
        if k in s:
            return k
    return s[:40]


def brief(ev, detail, li):
    d = dict(ev)
    if li < len(detail) and detail[li]:
        d["cell"] = detail[li].get("detail", {}).get("cell")
    if "tx" in d and len(d["tx"]) > 6:
        d["tx"] = d["tx"][:6]
    return d


def selftest(ctx, events, failed_lines):
    picks = {}
    for i, e in enumerate(events):
        if i in failed_lines:
            continue
        if e["event"] == "admit":
            w = e["want"]
            if "unsound" not in picks and w["outcome"] == "reject" and e["o"]["parsed"]:
                b = json.loads(json.dumps(e))
                b["o"].update(poolok=True, verifyok=True, inpool=True, poolerr="ok")
                picks["unsound"] = (b, "Sound")
            if "feeinexact" not in picks and w["outcome"] == "accept" and e["o"]["inpool"]:
                b = json.loads(json.dumps(e))
                b["o"].update(poolok=False, verifyok=False, inpool=False, poolerr="witness")
                picks["feeinexact"] = (b, "FeeExact")
            if "threshold" not in picks and w["outcome"] == "accept" and e["o"]["inpool"] and e["f"]["slack"] == 0:
                # the same observation for a transaction paying one unit less must be judged unsound
                b = json.loads(json.dumps(e))
                b["f"]["slack"] = -1
                b["f"]["recvslack"] = -1
                b["want"] = {"defects": ["fee"], "outcome": "reject"}
                picks["threshold"] = (b, "Sound")
            if "inconsistent" not in picks and e["o"]["inpool"]:
                b = json.loads(json.dumps(e))
                b["o"]["verifyok"] = False
                picks["inconsistent"] = (b, "Consistent")
        elif e["event"] == "propose" and e["accepted"] and e["sel"]:
            if "unproposable" not in picks:
                b = json.loads(json.dumps(e))
                b["accepted"] = False
                picks["unproposable"] = (b, "Proposable")
            if "oversize" not in picks:
                b = json.loads(json.dumps(e))
                b["wiresize"] = b["maxsize"] + 1
                picks["oversize"] = (b, "WithinLimits")
            if "oversys" not in picks and any(e["tx"][i - 1]["sysfee"] > 0 for i in e["sel"]):
                b = json.loads(json.dumps(e))
                b["maxsys"] = sum(e["tx"][i - 1]["sysfee"] for i in e["sel"]) - 1
                picks["oversys"] = (b, "WithinLimits")
    need = {"unsound", "feeinexact", "threshold", "inconsistent", "unproposable", "oversize", "oversys"}
    if need - set(picks):
        raise vlib.Inconclusive("self-test could not find events to corrupt: %s" % sorted(need - set(picks)))
    names = sorted(picks)
    path = os.path.join(ctx.work, "selftest.ndjson")
    vlib.write_ndjson(path, [picks[n][0] for n in names])
    st, tr = ctx.states, ctx.transitions
    fails = ctx.trace_judge("admission", "AdmissionTrace.tla", "Trace_Admission.cfg", path, timeout=300)
    ctx.states, ctx.transitions = st, tr
    got = {f["line"]: f["what"] for f in fails}
    for k, n in enumerate(names):
        if picks[n][1] not in got.get(k + 1, []):
            raise vlib.Inconclusive("binding self-test %s: corrupted event was not rejected (%s expected, got %s)" % (
                n, picks[n][1], got.get(k + 1)))
        ctx.extra["binding_selftests"] = ctx.extra.get("binding_selftests", 0) + 1
