"""Extension of C03 (and of the fee clause of C07) - the same properties observed THROUGH THE RPC SERVER, i.e. through the
handler code of pkg/services/rpcsrv (parameter decoding, paging, limits, proof packaging, resolution of a height given as
index / block hash / state root, base64 / hex forms) and through pkg/rpcclient, which no other check executes.

Model: spec/rpcstate
  RPCState.tla       abstract judge: every answer that names a state root / height as a function of the flat contract
                     storage S_h of that height (getstate, findstates incl. `from` / count / limit / truncated / first and
                     last proof, getproof + verifyproof, getstorage / findstorage incl. `start` / next / truncated and their
                     historic forms, the walk law of both paging protocols, historic invocation = recorded live answer,
                     calculatenetworkfee = acceptance threshold of sendrawtransaction)
  Paging.tla         stateful, code-shaped model of the two paging protocols (client cursor, server limit); TLC checks the
                     walk law for EVERY map over an 8-key universe x prefix x page size x limit (MCPaging / Enum_Paging.cfg),
                     refutes five named deviations and the "empty key" property of the wire format, and prints every finished
                     walk (@@CASE@@) for replay
  RPCStateTrace.tla  total, reporting trace judge (reference data as constant look-ups into the log)
Real code: harness/c03rpc - real chains (a paging world whose scenario contract runs through every map of the model's
universe, histgen worlds on nodes that keep every state / only the latest / a window with the MPT collector running, fee
worlds with committee-changed policy), real rpcsrv.Servers with different limits on loopback ports, real rpcclient AND raw
JSON-RPC documents; the reference node's flat storage dump per height is the only oracle data.

Call from the registered check of C03:   ext = load('c03_rpc'); ext.run_ext(ctx)
Violations carry "part": "rpc":  {"part": "rpc", "kind": GetState|FindStates|Paging|Proof|Storage|Historic|Fee|Root,
"pred": <falsified predicate>, "via": client|raw, "cfg": all|latest|window (+ "class" for requests that got no answer)}.
Predicates named "i:..." are informational (drift, never a verdict): proof presence for short lists, `next` of a final page,
the fee formula, the walk that cannot pass an EMPTY key, pages differing from the Impl model's prediction."""
import json
import os
import random

import vlib

PART = "rpc"
SUB = "rpcstate"
DEVIATIONS = ("inclusive_from", "trunc_from_count", "cap_after_trunc", "from_full_key", "next_off_by_one")
KIND = {"getstate": "GetState", "findstates": "FindStates", "paging": "Paging", "proof": "Proof", "forged": "Proof",
        "getstorage": "Storage", "findstorage": "Storage", "historic": "Historic", "fee": "Fee", "root": "Root",
        "stateheight": "Root"}
METHOD_KIND = {"findstates": "FindStates", "getstate": "GetState", "getproof": "Proof", "verifyproof": "Proof",
               "getstorage": "Storage", "findstorage": "Storage", "findstoragehistoric": "Storage",
               "invokefunctionhistoric": "Historic", "calculatenetworkfee": "Fee", "sendrawtransaction": "Fee",
               "getstateroot": "Root", "getstateheight": "Root"}


def run_ext(ctx):
    q = ctx.quick()
    # 1. the paging protocols: exhaustive over every map / prefix / page size / limit; every finished walk is a replay case
    cases = ctx.tlc_dump(SUB, "MCPaging.tla", "Enum_Paging.cfg", timeout=1200)
    if len(cases) < 1000:
        raise vlib.Inconclusive("paging model produced %d walks only" % len(cases))
    for d in DEVIATIONS + ("emptykey",):
        try:
            ctx.tlc_mc(SUB, "MCPaging.tla", "MC_Paging_dev_%s.cfg" % d, timeout=600, workers=4)
            raise vlib.Inconclusive("paging deviation %s not refuted by the walk invariants (vacuous model)" % d)
        except vlib.ModelError as e:
            if "is violated" not in (e.res or {}).get("out", ""):
                raise vlib.Inconclusive("paging deviation %s: TLC failed for another reason than an invariant: %s" % (d, e))
            ctx.extra["rpc_model_selftests"] = ctx.extra.get("rpc_model_selftests", 0) + 1
    # the walk law holds on the universe with the empty key once "from = empty key" means "after the empty key"
    ctx.tlc_mc(SUB, "MCPaging.tla", "MC_Paging_emptykey_ideal.cfg", timeout=600, workers=4)
    ctx.extra["rpc_paging_walks_in_model"] = len(cases)
    # 2. the walks replayed on the real server: all of them (thorough) or a seeded sample (quick)
    rnd = random.Random(ctx.seed)
    rnd.shuffle(cases)
    sel = cases if not q else cases[:700]
    ind = os.path.join(ctx.work, "in-c03rpc")
    os.makedirs(ind, exist_ok=True)
    json.dump(sel, open(os.path.join(ind, "cases.json"), "w"))
    env = {"VERIF_IN": ind,
           "VERIF_HIST_WORLDS": 2 if q else 16, "VERIF_HIST_BLOCKS": 28 if q else 80,
           "VERIF_FEE_WORLDS": 2 if q else 8, "VERIF_FEE_PHASES": 3 if q else 8, "VERIF_FEE_CASES": 8 if q else 16,
           "VERIF_PAR": 4 if q else 8}
    res = ctx.go_driver("c03rpc", "TestDriver", env=env, timeout=3000)
    ctx.absorb(res)
    # 3. TLC re-computes every answer from the reference node's storage dumps
    trace = os.path.join(res["_out"], "trace.ndjson")
    events = vlib.read_ndjson(trace)
    kinds = {}
    for e in events:
        kinds[e["event"]] = kinds.get(e["event"], 0) + 1
    ctx.extra["rpc_event_kinds"] = kinds
    ctx.traces_validated += res.get("traces", 0)
    worlds = {}
    for e in events:
        worlds.setdefault(e["w"], []).append(e)
    fails = judge_worlds(ctx, worlds, "w")
    info = {}
    clean = True
    for f, e in fails:
        judged = sorted(w for w in f["what"] if not w.startswith("i:") and not w.startswith("h:"))
        for w in f["what"]:
            if w.startswith("h:"):
                raise vlib.Inconclusive("harness sanity predicate %s false at %s" % (w, small(e)))
            if w.startswith("i:"):
                info[w] = info.get(w, 0) + 1
                if sum(1 for d in ctx.spec_drift if d.get("informational") == w) < 2 and len(ctx.spec_drift) < 20:
                    ctx.spec_drift.append({"part": PART, "informational": w, "event": small(e)})
        for w in judged:
            clean = violation(ctx, signature(e, w), {"what": "abstract predicate %s false for a %s answer of the real RPC server (%s)" % (
                w, e["event"], e.get("srv")), "event": small(e), "ctx": f.get("ctx")}) and clean
    ctx.extra["rpc_informational_failures"] = info
    ctx.extra["rpc_clean"] = clean
    ctx.assumptions.append(
        "rpc: retention per configuration - default keeps every height, RemoveUntraceableBlocks the heights h >= tip - "
        "MaxTraceableBlocks (the MPT collector is run by the harness), KeepOnlyLatestState the current one and no proofs at all; "
        "an answer, if given, is judged everywhere (Sound), that an answer IS given only at retained heights (Complete)")
    ctx.assumptions.append(
        "rpc: which error is returned is never judged; `from` = the empty key may be read either way (the wire format cannot tell "
        "it from 'no from'); proof presence for lists shorter than two items, `next` of a final page and the fee formula are informational")
    # 4. binding self-test
    selftest(ctx, worlds, set(id(e) for _, e in fails), strict=clean)


def violation(ctx, sig, detail):
    """ctx.violation (returns True when the signature is a listed known finding), except that a stand-alone run of the extension (property id C03_RPC) honours the known findings listed
    for the properties the extension belongs to (C03; C07 for the fee clause) the way the registered check does."""
    if ctx.pid not in ("C03", "C07"):
        for kf in ctx.known.get("findings", []):
            if kf.get("property") in ("C03", "C07") and vlib.sig_match(kf.get("signature", {}), sig):
                if kf not in ctx.known_hits:
                    ctx.known_hits.append(kf)
                    print("KNOWN-FINDING: property=%s %s" % (kf.get("property"), kf.get("what", json.dumps(kf.get("signature")))), flush=True)
                return True
    for kf in ctx.known.get("findings", []):
        if kf.get("property") == ctx.pid and vlib.sig_match(kf.get("signature", {}), sig):
            ctx.violation(sig, detail)   # prints the KNOWN-FINDING line
            return True
    ctx.violation(sig, detail)
    return False


def small(e):
    return {k: v for k, v in e.items() if k not in ("flat", "live")}


def signature(e, pred):
    sig = {"part": PART, "kind": KIND.get(e["event"], e["event"]), "pred": pred, "via": e.get("via"), "cfg": e.get("cfg")}
    if e.get("cfg") == "window" and e.get("ret"):
        sig["cfg"] = "window-retained"   # inside the window the node owes the same answers as an archival one
    if e["event"] == "malformed":
        sig["kind"] = METHOD_KIND.get(e.get("method"), e.get("method"))
        sig["class"] = e.get("class")
    if e["event"] in ("getstorage", "findstorage", "paging"):
        sig["historic"] = bool(e.get("historic"))
    return sig


def judge_worlds(ctx, worlds, tag, limit=60 << 20):
    """Judge the events world by world (groups of whole worlds up to `limit` bytes per TLC run, world numbers re-based).
    Returns [(fail record, event)]."""
    out = []
    group, size, n = [], 0, 0

    def flush():
        nonlocal group, size, n
        if not group:
            return
        evs = []
        for i, w in enumerate(group):
            for e in worlds[w]:
                e2 = dict(e)
                e2["w"] = i + 1
                evs.append((e2, e))
        path = os.path.join(ctx.work, "trace-%s-%d.ndjson" % (tag, n))
        vlib.write_ndjson(path, [a for a, _ in evs])
        fl = ctx.trace_judge(SUB, "RPCStateTrace.tla", "Trace_RPCState.cfg", path, timeout=3000)
        for f in fl:
            out.append((f, evs[f["line"] - 1][1]))
        os.remove(path)
        group, size = [], 0
        n += 1

    for w in sorted(worlds):
        sz = sum(len(json.dumps(e)) for e in worlds[w])
        if group and size + sz > limit:
            flush()
        group.append(w)
        size += sz
    flush()
    return out


def selftest(ctx, worlds, failed, strict=True):
    """Corrupt one field of good recorded answers (one per predicate family) and require rejection at exactly that line.
    When the run has violations of its own (strict = False) a family with no good answer left is skipped."""
    hist = next((w for w in sorted(worlds) if any(e["event"] == "historic" for e in worlds[w])), None)
    fee = next((w for w in sorted(worlds) if any(e["event"] == "fee" for e in worlds[w])), None)
    if hist is None or fee is None:
        raise vlib.Inconclusive("rpc self-test: no hist / fee world in the trace")
    evs = [dict(e) for e in worlds[hist]] + [dict(e) for e in worlds[fee]]
    orig = worlds[hist] + worlds[fee]
    expect = {}

    def corrupt(name, pred, ok, change):
        for i, e in enumerate(evs):
            if i in expect or id(orig[i]) in failed:
                continue
            if ok(e):
                evs[i] = change(dict(e))
                expect[i] = (name, pred)
                return
        if strict:
            raise vlib.Inconclusive("rpc self-test: nothing to corrupt for %s" % name)

    corrupt("getstate-value", "GetStateSound", lambda e: e["event"] == "getstate" and e["ok"], lambda e: dict(e, v=e["v"] + "00"))
    corrupt("getstate-refusal", "GetStateComplete", lambda e: e["event"] == "getstate" and e["ok"] and e["ret"], lambda e: dict(e, ok=False, v=""))
    corrupt("findstates-item-lost", "FindStatesSound", lambda e: e["event"] == "findstates" and e["ok"] and len(e["keys"]) >= 2 and e["truncated"],
            lambda e: dict(e, keys=e["keys"][:-1], vals=e["vals"][:-1]))
    corrupt("findstates-truncated", "FindStatesSound", lambda e: e["event"] == "findstates" and e["ok"] and len(e["keys"]) >= 1,
            lambda e: dict(e, truncated=not e["truncated"]))
    corrupt("findstates-from-inclusive", "FindStatesSound",
            lambda e: e["event"] == "findstates" and e["ok"] and e["fromgiven"] and e["from"] and len(e["keys"]) >= 1 and e["from"] != e["keys"][0] and e["count"] > len(e["keys"]),
            lambda e: dict(e, keys=[e["from"]] + e["keys"], vals=["00"] + e["vals"]))
    corrupt("findstates-lastproof-of-first", "FindStatesProofsVerify", lambda e: e["event"] == "findstates" and e["ok"] and len(e["keys"]) >= 2 and e["lp"]["have"],
            lambda e: dict(e, lp=dict(e["fp"])))
    corrupt("walk-item-lost", "PagingExact", lambda e: e["event"] == "paging" and e["complete"] and len(e["pages"]) >= 2 and len(e["pages"][1]) >= 1,
            lambda e: dict(e, pages=[e["pages"][0]] + [e["pages"][1][1:]] + e["pages"][2:]))
    corrupt("walk-item-repeated", "PagingExact", lambda e: e["event"] == "paging" and e["complete"] and len(e["pages"]) >= 2 and len(e["pages"][0]) >= 1,
            lambda e: dict(e, pages=[e["pages"][0], [e["pages"][0][-1]] + e["pages"][1]] + e["pages"][2:]))
    corrupt("proof-value", "ProofComplete", lambda e: e["event"] == "proof" and e["have"] and e["lok"] and e["ret"], lambda e: dict(e, lv=e["lv"] + "01"))
    corrupt("proof-for-absent-key", "ProofSound", lambda e: e["event"] == "proof" and not e["have"], lambda e: dict(e, have=True, lok=True, lv="01"))
    corrupt("forged-accepted", "ProofSound", lambda e: e["event"] == "forged" and not e["lok"], lambda e: dict(e, lok=True, lv="beef"))
    corrupt("getstorage-value", "GetStorageSound", lambda e: e["event"] == "getstorage" and e["ok"], lambda e: dict(e, v="ff" + e["v"]))
    corrupt("findstorage-next", "FindStorageSound", lambda e: e["event"] == "findstorage" and e["ok"] and e["truncated"], lambda e: dict(e, next=e["next"] + 1))
    corrupt("findstorage-shifted", "FindStorageSound", lambda e: e["event"] == "findstorage" and e["ok"] and len(e["keys"]) >= 2,
            lambda e: dict(e, keys=e["keys"][1:], vals=e["vals"][1:]))
    corrupt("historic-answer", "HistoricEqualsLive", lambda e: e["event"] == "historic" and e["results"] and e["results"][0] != "UNAVAILABLE",
            lambda e: dict(e, results=["HALT|corrupted"] + e["results"][1:]))
    live = {e["h"]: e["live"] for e in worlds[hist] if e["event"] == "ref"}

    def differs(e):   # the answers recorded live at h-1 differ from those at h for one of the repeated calls
        a, b = live.get(e["h"]), live.get(e["h"] - 1)
        return a and b and any(i > len(b) or a[i - 1] != b[i - 1] for i in e["idx"])
    corrupt("historic-height-off-by-one", "HistoricEqualsLive",
            lambda e: e["event"] == "historic" and e["h"] > 3 and e["results"] and "UNAVAILABLE" not in e["results"] and differs(e),
            lambda e: dict(e, h=e["h"] - 1))
    corrupt("root", "RootMatches", lambda e: e["event"] == "root" and e["ok"], lambda e: dict(e, root=e["root"][:-2] + ("00" if e["root"][-2:] != "00" else "11")))
    corrupt("fee-threshold", "FeeExact", lambda e: e["event"] == "fee" and e["acc_f"] and not e["acc_fm1"], lambda e: dict(e, acc_fm1=True))
    corrupt("fee-too-low", "FeeExact", lambda e: e["event"] == "fee" and e["acc_f"] and not e["acc_fm1"], lambda e: dict(e, acc_f=False))
    corrupt("fee-client-raw", "FeeAgree", lambda e: e["event"] == "fee" and e["ok_raw"], lambda e: dict(e, f_raw=e["f_raw"] + 1))
    wmap = {hist: 1, fee: 2}
    for e in evs:
        e["w"] = wmap[e["w"]]
    path = os.path.join(ctx.work, "selftest-rpc.ndjson")
    vlib.write_ndjson(path, evs)
    st, tr = ctx.states, ctx.transitions
    fails = ctx.trace_judge(SUB, "RPCStateTrace.tla", "Trace_RPCState.cfg", path, timeout=900)
    ctx.states, ctx.transitions = st, tr
    for i, (name, pred) in expect.items():
        if not any(f["line"] == i + 1 and pred in f["what"] for f in fails):
            raise vlib.Inconclusive("rpc binding self-test %s: corrupted answer was not rejected (%s expected at line %d)" % (name, pred, i + 1))
    ctx.extra["rpc_binding_selftests"] = len(expect)
