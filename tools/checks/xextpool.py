"""Temporary stand-alone runner of the C19 extension c19_extpool (not registered)."""
RULE = "extension"


def run(ctx):
    import importlib.util, os
    p = os.path.join(os.path.dirname(os.path.abspath(__file__)), "c19_extpool.py")
    spec = importlib.util.spec_from_file_location("check_c19_extpool", p)
    mod = importlib.util.module_from_spec(spec)
    spec.loader.exec_module(mod)
    mod.run_ext(ctx)
