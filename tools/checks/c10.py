"""C10 - the state trie is a canonical authenticated map.
Model: spec/mpt (MPTCanon abstract judge; MPTImpl code-shaped rewrites of trie.go/batch.go; MPTProof proof
soundness; MPTSim generator; MPTTrace validator).  Real code: mpt.Trie / mpt.TrieStore / mpt.VerifyProof driven
by harness/c10mpt."""
import bisect
import copy
import json
import os

import vlib

RULE = ("cases = operations (Put/Delete/PutBatch/Flush/Persist/Collapse/reload/full dump/Find/TrieStore.Seek/"
        "VerifyProof on one tampered node list) executed on the real mpt.Trie in the three trie modes, from TLC "
        "simulation behaviours of MPTSim (7-key universe) and from seeded random histories over universes of 5-30 "
        "keys (long shared prefixes, prefix chains, maximum-length keys, empty and >252-byte values); distinct = "
        "distinct (source kind, mode, operation, resulting root) / (search arguments, answer size) / (tampering "
        "family, outcome) tuples; every recorded step is re-evaluated by TLC against MPTCanon (root of a fresh trie, "
        "hash of the printed canonical structure, decoded structure = Build(content), reads, searches, proofs)")

SIG_EVENT_KEYS = ("back", "hasfrom", "on")


def run(ctx):
    q = ctx.quick()
    # 1. exhaustive: the local rewrites of trie.go / batch.go produce Build(content); doc.go invariants; proofs
    ctx.tlc_mc("mpt", "MCMPT.tla", "MC_K7q.cfg" if q else "MC_K7.cfg", timeout=900)  # 7 keys x {a,""}, batches <= 1 / 2
    ctx.tlc_mc("mpt", "MCMPT.tla", "MC_K5.cfg", timeout=900)        # 5 keys x {a,""}, every change set
    ctx.tlc_mc("mpt", "MCProof.tla", "MC_Proof.cfg", timeout=900)   # 4 keys x {a,b}, foreign trie differs in <= 1 key
    if not q:
        ctx.tlc_mc("mpt", "MCMPT.tla", "MC_K7t.cfg", timeout=2400)      # batches <= 3
        ctx.tlc_mc("mpt", "MCMPT.tla", "MC_K5v3.cfg", timeout=2400)     # three values
        ctx.tlc_mc("mpt", "MCProof.tla", "MC_ProofAll.cfg", timeout=2400)   # every foreign trie
    # model-level non-vacuity: the named deviations must be caught by the same invariants
    for mod, cfg in (("MCMPT.tla", "MC_K5bug.cfg"), ("MCProof.tla", "MC_ProofBug.cfg")):
        st, tr = ctx.states, ctx.transitions
        try:
            ctx.tlc_mc("mpt", mod, cfg, timeout=600)
            raise vlib.Inconclusive("deviation %s not detected by the model invariants (vacuous model)" % cfg)
        except vlib.ModelError:
            ctx.extra["model_selftests"] = ctx.extra.get("model_selftests", 0) + 1
        ctx.states, ctx.transitions = st, tr
    # 2. behaviours
    behaviours, seen = [], set()
    for h in ctx.tlc_sim("mpt", "MPTSim.tla", "Sim_K7.cfg", num=350 if q else 6000, depth=16,
                         timeout=300 if q else 1500, seed=ctx.seed * 10 + 1):
        k = json.dumps(h, sort_keys=True)
        if k not in seen:
            seen.add(k)
            behaviours.append(h)
    if not behaviours:
        raise vlib.Inconclusive("no behaviours generated")
    ind = os.path.join(ctx.work, "in-c10")
    os.makedirs(ind)
    json.dump(behaviours, open(os.path.join(ind, "behaviours.json"), "w"))
    # 3. real code
    res = ctx.go_driver("c10mpt", "TestDriver", env={"VERIF_IN": ind, "VERIF_RANDOM": 1200 if q else 20000, "VERIF_DEEP": 4 if q else 40},
                        timeout=3000)
    ctx.absorb(res)
    # 4. TLC judges the recorded traces against the abstract specification
    trace = os.path.join(res["_out"], "trace.ndjson")
    inits, n = [], 0          # line numbers (0-based) of the init events; the trace can be large: keep no events
    with open(trace) as f:
        for line in f:
            if line.startswith('{"event":"init"'):
                inits.append(n)
            n += 1
    fails = judge(ctx, trace, n)
    ctx.traces_validated += res.get("traces", 0)
    ctx.extra["trace_events"] = n
    reported = {}
    for f in sorted(fails, key=lambda f: f["line"]):
        li = f["line"] - 1
        s = inits[bisect.bisect_right(inits, li) - 1]
        if s not in reported:
            reported[s] = (li, f)    # the first failing step of a history is the violation
    for s, (li, f) in sorted(reported.items())[:200]:
        hist = read_lines(trace, s, li + 1)
        ev = hist[-1]
        w = sorted(f["what"])[0]
        sig = {"kind": w, "op": ev["event"]}
        for k in SIG_EVENT_KEYS:
            if k in ev:
                sig[k] = ev[k]
        if ev["event"] == "seek":
            sig["start"] = len(ev["start"]) > 0
        ctx.violation(sig, {"what": "abstract predicate %s false at %s on the real trie (%s)" % (
            w, ev["event"], hist[0].get("src")), "all_failed": sorted(f["what"]), "mode": hist[0].get("mode"),
            "history": slim(hist)})
    # 5. binding self-test: corrupted good traces must be rejected
    if not fails and not ctx.violations:
        # sample for the self-test: the head of the trace (TLC behaviours) and its tail (random histories)
        tail = [i for i in inits if i >= n - 50000]
        sample = read_lines(trace, 0, min(30000, n))
        if tail and tail[0] >= 30000:
            sample += read_lines(trace, tail[0], n)
        selftest(ctx, sample)


def read_lines(path, lo, hi):
    out = []
    with open(path) as f:
        for i, line in enumerate(f):
            if i >= hi:
                break
            if i >= lo:
                out.append(json.loads(line))
    return out


def judge(ctx, trace, n, chunk=60000):
    """TLC loads a whole trace file in memory: long traces are split at history boundaries (every history starts with
    an init event, which re-initialises the specification) and the parts are judged in turn."""
    max_bytes = 48 << 20     # deep-trie histories have large dump events: bound the bytes of a part too
    if n <= chunk and os.path.getsize(trace) <= max_bytes:
        return ctx.trace_judge("mpt", "MPTTrace.tla", "Trace_MPT.cfg", trace, timeout=3000)
    fails, part, base, k = [], [], 0, 0
    nbytes = 0

    def flush_part():
        nonlocal part, base, k, nbytes
        if not part:
            return
        pp = os.path.join(ctx.work, "trace-part-%d.ndjson" % k)
        with open(pp, "w") as f:
            f.writelines(part)
        for fl in ctx.trace_judge("mpt", "MPTTrace.tla", "Trace_MPT.cfg", pp, timeout=3000):
            fl["line"] += base
            fails.append(fl)
        os.remove(pp)
        base += len(part)
        part = []
        k += 1
        nbytes = 0

    with open(trace) as f:
        for line in f:
            if not line.strip():
                continue
            if (len(part) >= chunk or nbytes >= max_bytes) and line.startswith('{"event":"init"'):
                flush_part()
            part.append(line)
            nbytes += len(line)
    flush_part()
    return fails


def slim(evs):
    out = []
    for e in evs[-40:]:
        e = dict(e)
        for k in ("tree", "gets", "proofs"):
            if k in e and len(json.dumps(e[k])) > 1500:
                e[k] = "(omitted)"
        if "res" in e and len(e["res"]) > 30:
            e["res"] = e["res"][:30]
        out.append(e)
    return out


def selftest(ctx, events):
    """Corrupt one observed field of a good trace; the judge must name the corresponding predicate."""
    ev = events
    done = {}

    def leaf(t):
        if t["t"] == "L":
            return t
        if t["t"] == "X":
            return leaf(t["n"])
        if t["t"] == "B":
            for c in t["c"]:
                r = leaf(c)
                if r:
                    return r
        return None

    for i, e in enumerate(ev):
        k = e["event"]
        if "root" not in done and k in ("put", "batch") and e["root"] != "00" * 32:
            b = dict(e)
            b["root"] = ("0" if e["root"][0] != "0" else "1") + e["root"][1:]
            done["root"] = (i, b, "RootIsFresh")
        if "tree" not in done and k == "dump" and leaf(e["tree"]):
            b = copy.deepcopy(e)
            leaf(b["tree"])["v"] += "00"
            done["tree"] = (i, b, "Canonical")
        if "merge" not in done and k == "dump" and e["tree"]["t"] == "X" and e["tree"]["n"]["t"] == "B" and len(e["tree"]["k"]) > 1:
            # the same content held by a non-canonical structure (extension split in two)
            b = copy.deepcopy(e)
            t = b["tree"]
            b["tree"] = {"t": "X", "k": t["k"][:1], "n": {"t": "X", "k": t["k"][1:], "n": t["n"]}}
            done["merge"] = (i, b, "Canonical")
        if "get" not in done and k == "dump" and any(g["found"] for g in e["gets"]):
            b = copy.deepcopy(e)
            g = [g for g in b["gets"] if g["found"]][0]
            g["found"], g["v"] = False, ""
            done["get"] = (i, b, "GetAgrees")
        if "find" not in done and k == "find" and len(e["res"]) >= 2:
            b = copy.deepcopy(e)
            b["res"][0], b["res"][1] = b["res"][1], b["res"][0]
            done["find"] = (i, b, "FindAgrees")
        if "seek" not in done and k == "seek" and len(e["res"]) >= 1:
            b = copy.deepcopy(e)
            b["res"] = b["res"][1:]
            done["seek"] = (i, b, "SeekAgrees")
        if "sound" not in done and k == "tamper" and e["res"]:
            b = copy.deepcopy(e)
            b["res"][-1]["ok"], b["res"][-1]["v"] = True, "6576696c"
            done["sound"] = (i, b, "ProofSound")
        if "complete" not in done and k == "dump" and e["proofs"]:
            b = copy.deepcopy(e)
            b["proofs"][0]["ok"] = False
            done["complete"] = (i, b, "ProofComplete")
        if len(done) == 9:
            break
    need = {"root", "tree", "get", "find", "seek", "sound", "complete"}
    if not need <= set(done):
        raise vlib.Inconclusive("self-test could not find places to corrupt the trace: missing %s" % sorted(need - set(done)))
    for name, (i, bad, expect) in sorted(done.items()):
        s = i
        while ev[s]["event"] != "init":
            s -= 1
        seg = ev[s:i] + [bad]
        path = os.path.join(ctx.work, "selftest-%s.ndjson" % name)
        vlib.write_ndjson(path, seg)
        st, tr = ctx.states, ctx.transitions
        fails = ctx.trace_judge("mpt", "MPTTrace.tla", "Trace_MPT.cfg", path, timeout=300)
        ctx.states, ctx.transitions = st, tr
        if not any(expect in f["what"] and f["line"] == len(seg) for f in fails):
            raise vlib.Inconclusive("binding self-test %s: corrupted trace was not rejected (%s expected)" % (name, expect))
        ctx.extra["binding_selftests"] = ctx.extra.get("binding_selftests", 0) + 1
