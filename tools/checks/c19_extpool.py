"""Extension of the C19 check: the extensible payload pool between the network and the consensus service
(pkg/network/extpool/pool.go, used by Server.handleExtensibleCmd).  Called from c19.py:

    ext = load('c19_extpool'); ext.run_ext(ctx)

Model: spec/extpool (ExtPool abstract judge, ExtPoolImpl code-shaped with three named deviations, ExtPoolSim generator,
ExtPoolTrace validator).  Real code: extpool.Pool over a real ledger, driven by harness/c19extpool."""
import json
import os
import random

import vlib

PART = "extpool"
UNIVERSES = ("U1", "U2", "U3")
BUGS = (("MC_U1bugwit.cfg", "BugNoWitness"), ("MC_U1bugseen.cfg", "BugSeenCache"), ("MC_U2bugwin.cfg", "BugWindow"))


def run_ext(ctx):
    q = ctx.quick()
    jvm_workers = 8 if q else None
    # 1. exhaustive: Impl => Abstract (quick: U1 and U2 up to height 2; thorough: U1, U2, U3 in full)
    for u in (("U1", "U2q") if q else UNIVERSES):
        ctx.tlc_mc("extpool", "MCExtPool.tla", "MC_%s.cfg" % u, timeout=1500, workers=jvm_workers, coverage=(not q and u != "U3"), must_cover=False)
    # model-level non-vacuity: each named deviation must be caught by the abstract predicates
    for cfg, name in BUGS:
        try:
            ctx.tlc_mc("extpool", "MCExtPool.tla", cfg, timeout=300, workers=4)
            raise vlib.Inconclusive("extpool: named deviation %s not detected by the abstract predicates (vacuous model)" % name)
        except vlib.ModelError:
            ctx.extra["extpool_model_selftests"] = ctx.extra.get("extpool_model_selftests", 0) + 1
    # 2. behaviours of the implementation-shaped model
    behaviours, seen = [], set()
    for i, u in enumerate(UNIVERSES):
        for h in ctx.tlc_sim("extpool", "ExtPoolSim.tla", "Sim_%s.cfg" % u, num=12 if q else 300, depth=22,
                             timeout=300 if q else 1200, seed=ctx.seed * 10 + i):
            k = json.dumps(h, sort_keys=True)
            if k not in seen:
                seen.add(k)
                behaviours.append(h)
    if not behaviours:
        raise vlib.Inconclusive("extpool: no behaviours generated")
    random.Random(ctx.seed).shuffle(behaviours)
    behaviours = behaviours[: (500 if q else 8000)]
    ind = os.path.join(ctx.work, "in-c19extpool")
    os.makedirs(ind, exist_ok=True)
    json.dump(behaviours, open(os.path.join(ind, "behaviours.json"), "w"))
    # 3. the real pool on a real ledger
    res = ctx.go_driver("c19extpool", "TestDriver", env={"VERIF_IN": ind, "VERIF_RANDOM": 500 if q else 8000}, timeout=3000)
    ctx.absorb(res)
    # 4. TLC judges the recorded trace against the abstract specification
    trace = os.path.join(res["_out"], "trace.ndjson")
    events = vlib.read_ndjson(trace)
    fails = ctx.trace_judge("extpool", "ExtPoolTrace.tla", "Trace_ExtPool.cfg", trace, timeout=3000)
    ctx.traces_validated += res.get("traces", 0)
    ctx.extra["extpool_trace_events"] = len(events)
    kinds = {}
    start, starts = 0, []
    table = {}
    tables = []
    for i, e in enumerate(events):
        if e["event"] == "init":
            start = i
            table = {p["id"]: p for p in e["payloads"]}
        starts.append(start)
        tables.append(table)
        k = e["event"]
        if k == "add":
            k += ":accepted" if e["acc"] else ":rejected(%s)" % (e["err"] or "nil")
        kinds[k] = kinds.get(k, 0) + 1
    ctx.extra["extpool_event_kinds"] = kinds
    ctx.extra.update(established(events))
    reported = set()
    for f in fails:
        li = f["line"] - 1
        s = starts[li]
        if s in reported:
            continue        # the first failing step of a history is the violation
        reported.add(s)
        ev = events[li]
        w = sorted(f["what"])[0]
        sig = {"part": PART, "kind": w, "op": ev["event"]}
        if ev["event"] == "add":
            p = tables[li].get(ev["p"], {})
            sig["witness"] = "ok" if p.get("witok") else "bad"
            sig["sender_allowed"] = p.get("sender") in events[s]["allowed"]
            sig["in_window"] = p.get("start", 0) <= ev["h"] < p.get("end", 0)
            sig["answer"] = "accepted" if ev["acc"] else "rejected"
        ctx.violation(sig, {"what": "extensible pool: abstract predicate %s false after %s on the real extpool.Pool" % (w, ev["event"]),
                            "all_failed": sorted(f["what"]), "history": events[s:li + 1]})
    # 5. binding self-test: corrupted copies of a good trace must be rejected
    if not fails:
        selftest(ctx, events)


def established(events):
    """What the code does where the statement is silent (information, never a verdict): how often an accepted payload
    displaced one that was still valid at that height, how often RemoveStale dropped a still-valid one, how often a
    payload that had left the pool was accepted again on re-delivery."""
    st = {"extpool_evicted_while_valid": 0, "extpool_evicted_stale": 0, "extpool_stale_dropped_valid": 0,
          "extpool_readmitted_after_drop": 0, "extpool_max_per_sender": 0}
    tab, allowed, known, ever = {}, set(), set(), set()
    for e in events:
        if e["event"] == "init":
            tab, allowed, known, ever = {p["id"]: p for p in e["payloads"]}, set(e["allowed"]), set(), set()
            continue
        if e["event"] == "get":
            continue
        now = set(e["known"])
        gone = known - now

        def valid(hid):
            p = tab[hid]
            return p["sender"] in allowed and p["start"] <= e["h"] < p["end"]
        if e["event"] == "add" and e["acc"]:
            hid = tab[e["p"]]["hid"]
            if hid in ever:
                st["extpool_readmitted_after_drop"] += 1
            for g in gone:
                st["extpool_evicted_while_valid" if valid(g) else "extpool_evicted_stale"] += 1
        elif e["event"] == "stale":
            st["extpool_stale_dropped_valid"] += sum(1 for g in gone if valid(g))
        per = {}
        for x in now:
            per[tab[x]["sender"]] = per.get(tab[x]["sender"], 0) + 1
        st["extpool_max_per_sender"] = max([st["extpool_max_per_sender"]] + list(per.values()))
        known = now
        ever |= now
    return st


def selftest(ctx, events):
    """Corrupt one recorded field and require the judge to object:
    dup      - the answer of a filtered duplicate is turned into 'accepted'              -> DupFiltered
    forged   - the witness of an accepted payload is recorded as not verifying            -> NoInvalidAccepted
    vanished - an accepted payload is missing from what Get shows right afterwards        -> ValidNewAccepted
    """
    ev = events[:6000]
    done = {}
    init = None
    known = set()
    for i, e in enumerate(ev):
        if e["event"] == "init":
            init, known = i, set()
            tab = {p["id"]: p for p in e["payloads"]}
            continue
        if e["event"] == "get":
            continue
        if e["event"] == "add":
            hid = tab[e["p"]]["hid"]
            if "dup" not in done and not e["acc"] and hid in known and e["err"] == "":
                done["dup"] = (init, i, dict(e, acc=True), None, "DupFiltered")
            if e["acc"]:
                if "forged" not in done:
                    bad = dict(ev[init])
                    bad["payloads"] = [dict(p, witok=False) if p["id"] == e["p"] else p for p in bad["payloads"]]
                    done["forged"] = (init, i, e, bad, "NoInvalidAccepted")
                if "vanished" not in done:
                    done["vanished"] = (init, i, dict(e, known=[x for x in e["known"] if x != hid],
                                                      served=[s for s in e["served"] if s[0] != hid],
                                                      listed=[x for x in e["listed"] if x != hid]), None, "ValidNewAccepted")
        known = set(e["known"])
    if len(done) < 3:
        raise vlib.Inconclusive("extpool: self-test could not find places to corrupt the trace (%s)" % sorted(done))
    for name, (s, i, bad, badinit, expect) in sorted(done.items()):
        seg = [badinit or ev[s]] + ev[s + 1:i] + [bad]   # cut right after the corrupted event
        path = os.path.join(ctx.work, "extpool-selftest-%s.ndjson" % name)
        vlib.write_ndjson(path, seg)
        st, tr = ctx.states, ctx.transitions
        fails = ctx.trace_judge("extpool", "ExtPoolTrace.tla", "Trace_ExtPool.cfg", path, timeout=300)
        ctx.states, ctx.transitions = st, tr
        if not any(expect in f["what"] for f in fails):
            raise vlib.Inconclusive("extpool: binding self-test %s: corrupted trace was not rejected (%s expected)" % (name, expect))
        ctx.extra["extpool_binding_selftests"] = ctx.extra.get("extpool_binding_selftests", 0) + 1
