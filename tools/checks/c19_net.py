"""Extension of C19 - the consensus service INSIDE the node's P2P server (pkg/network/server.go: handleExtensibleCmd -> extpool ->
Service.OnPayload, BroadcastExtensible, inv / getdata relay of extensibles, advertiseConsensusExtensibles, RequestTx / StopTxFlow /
handleTxCmd -> txHandlerLoop -> OnTransaction, block queue -> ledger -> relayBlocksLoop, tryStartServices / IsInSync), which the main
C19 rig (consensus services over a HARNESS network) does not contain.

Model: spec/consnet
  ConsNet.tla        abstract judge: Delivery / Relay / ProposalTxs / BlockOut / Agreement / Acceptable / ServiceStart predicates
  ConsNetImpl.tla    code-shaped model of extpool add + relay decision, handleInvCmd / handleGetDataCmd, RequestTx batching by
                     MaxHashesCount, txIn / callback list flow control, service start (named deviations refuted by TLC)
  ConsNetSim.tla     behaviour generator (who sends which payload when, which peer has which transactions, who is mute)
  ConsNetTrace.tla   trace judge
Real code: harness/c19net - REAL started network.Server(s) with the REAL consensus.Service wired in as cli/server mkConsensus does,
fake peers holding the other validators' keys over real TCP loopback, virtual dBFT time.

Call from the registered check of C19:   ext = load('c19_net'); ext.run_ext(ctx)
Violations carry "part": "consnet", "kind": Delivery | Relay | InvalidAccepted | ProposalTxs | BlockOut | Agreement | Acceptable |
ServiceStart | Stalled | panic and "pred" = the detailed predicate.  Predicates named "i:..." are informational (drift), "x:..." mean
the harness contradicts itself (inconclusive)."""
import json
import os
import random
import re

import vlib

PART = "consnet"
SUB = "consnet"
NV = 4
# predicates that say "something is missing at the quiescent point": confirmed on a replay with slow settling before they count
LATE = {"Delivery:missing", "Relay:missing", "Relay:getdata-unanswered", "ProposalTxs:no-response", "ProposalTxs:bad-not-refused",
        "ProposalTxs:peer-not-asked", "BlockOut:not-in-ledger", "BlockOut:not-announced", "BlockOut:getdata-unanswered",
        "ServiceStart:not-started", "Stalled", "ProposalTxs:pending-never-included", "x:LedgerCount"}


# ------------------------------------------------------------------------------------------------ scenario DSL
class Sc:
    """One single-server scenario: node `me` (validator index) against fake peers 1..k (peer i carries validator (me+i) % 4's
    traffic by default, but any peer may relay any validator's payload)."""

    def __init__(self, name, me=0, h0=0, pre=None, min_peers=3, npeers=3, ntx=0, srih=False, adv=None, peers=None):
        self.name, self.me, self.h0 = name, me, h0
        self.pre = h0 if pre is None else pre
        self.d = {"name": name, "kind": "single", "srih": srih, "pre": self.pre, "ntx": ntx,
                  "nodes": [{"id": me, "h0": h0, "min_peers": min_peers}], "peers": [], "steps": []}
        for i in range(1, npeers + 1):
            p = {"id": i, "n": me, "adv": h0 if adv is None else adv, "mute": False, "order": "asc", "dup": False, "blocks": False}
            if peers and i in peers:
                p.update(peers[i])
            self.d["peers"].append(p)
        self.nx = 0

    def step(self, op, **kw):
        kw["op"] = op
        self.d["steps"].append(kw)
        return self

    def connect(self, *ps):
        for p in ps:
            self.step("connect", p=p)
        return self

    def sync(self):
        if not self.d["steps"] or self.d["steps"][-1]["op"] != "sync":
            self.step("sync")
        return self

    def x(self, p, typ, frm, name=None, view=0, txs=(), kind="", dh=0, via="push", fake=0):
        if name is None:
            self.nx += 1
            name = "%s%d.%d" % (typ[:3] + typ[-3:], frm, self.nx)
        self.step("x", p=p, x=name, type=typ, view=view, txs=list(txs), kind=kind, dh=dh, via=via, fake=fake, **{"from": frm})
        return name

    def resend(self, p, name, via="push"):
        self.step("x", p=p, x=name, via=via)

    def primary(self, height, view=0):
        return (height - view) % NV

    def others(self):
        return [v for v in range(NV) if v != self.me]


def sc_backup_round(name, rnd, me=None, srih=False, h0=0, split="any", order="any", unsolicited=0, dup=False, mute=0, npeers=3, fetch=True):
    """The node is a backup: the (fake) primary proposes ntx transactions the node does not have; they are spread over the peers; then
    the other validators respond and commit; the node's block is fetched over the wire and fed to the reference ledger."""
    h = h0 + 1
    prim = h % NV
    if me is None:
        me = rnd.choice([v for v in range(NV) if v != prim])
    ntx = rnd.randrange(1, 6)
    peers = {}
    for i in range(1, npeers + 1):
        peers[i] = {"order": rnd.choice(["asc", "desc"]), "dup": dup and rnd.random() < 0.5, "mute": False}
    muted = rnd.sample(range(1, npeers + 1), mute) if mute else []
    for i in muted:
        peers[i]["mute"] = True
    s = Sc(name, me=me, h0=h0, ntx=ntx, srih=srih, npeers=npeers, min_peers=min(3, npeers), peers=peers)
    s.connect(*range(1, npeers + 1))
    s.sync()
    txs = ["t%d" % i for i in range(1, ntx + 1)]
    holders = [i for i in range(1, npeers + 1) if i not in muted]
    # who holds what: every transaction with at least one answering peer
    have = {i: [] for i in range(1, npeers + 1)}
    for t in txs:
        for i in rnd.sample(holders, rnd.randrange(1, len(holders) + 1)):
            have[i].append(t)
    for i in muted:
        have[i] = list(txs)      # the peer that never answers has them all
    for i, ts in have.items():
        if ts:
            s.step("give", p=i, t=ts)
    pushed = rnd.sample(txs, min(unsolicited, len(txs)))
    for t in pushed:     # unsolicited copies arriving before the proposal
        s.step("tx", p=rnd.choice(holders), t=[t], via=rnd.choice(["push", "push", "inv"]))
    if pushed and rnd.random() < 0.5:
        s.sync()
    backups = [v for v in range(NV) if v not in (me, prim)]
    pr = s.x(rnd.randrange(1, npeers + 1), "PrepareRequest", prim, txs=txs, via=rnd.choice(["push", "push", "inv"]))
    if dup:
        s.resend(rnd.randrange(1, npeers + 1), pr)
    s.sync()
    rs = s.x(rnd.randrange(1, npeers + 1), "PrepareResponse", backups[0])
    if rnd.random() < 0.5:
        s.x(rnd.randrange(1, npeers + 1), "PrepareResponse", backups[1])
    s.sync()
    signers = [prim] + backups
    rnd.shuffle(signers)
    for v in signers[: rnd.choice([2, 3])]:
        c = s.x(rnd.randrange(1, npeers + 1), "Commit", v, via=rnd.choice(["push", "push", "inv"]))
        if dup and rnd.random() < 0.4:
            s.resend(rnd.randrange(1, npeers + 1), c)
    s.sync()
    if fetch:
        s.step("fetchblk", p=rnd.randrange(1, npeers + 1), i=h, by=rnd.choice(["hash", "index"]))
        s.step("fetchx", p=rnd.randrange(1, npeers + 1), x="Commit/%d/0" % h)
        s.sync()
    return s.d


def scripted(rnd, q):
    out = []
    for k in range(2 if q else 6):
        out.append(sc_backup_round("backup-%d" % k, rnd, srih=(k % 2 == 1), h0=rnd.choice([0, 0, 2])))
    return out


# ------------------------------------------------------------------------------------------------ the check
def run_ext(ctx):
    q = ctx.quick()
    rnd = random.Random(ctx.seed * 13 + 19)
    scenarios = scripted(rnd, q)
    ind = os.path.join(ctx.work, "in-c19net")
    os.makedirs(ind, exist_ok=True)
    json.dump({"scenarios": scenarios, "slow": False}, open(os.path.join(ind, "input.json"), "w"))
    res = drive(ctx, "TestDriver", ind)
    if res is None:
        return
    ctx.absorb(res)
    trace = os.path.join(res["_out"], "trace.ndjson")
    judge(ctx, trace, scenarios)
    ctx.traces_validated += res.get("traces", 0)


def drive(ctx, test, ind, tag=""):
    try:
        return ctx.go_driver("c19net", test, env={"VERIF_IN": ind, "VERIF_PAR": 6}, timeout=3000)
    except vlib.Inconclusive:
        crash = node_crash(ctx, test)
        if crash is None:
            raise
        ctx.samples.append({"node_crash": crash["where"], "driver": test})
        ctx.violation({"part": PART, "kind": "panic", "where": crash["where"]},
                      {"what": "the node's process crashed while fake validators were talking to it (%s)" % test, "panic": crash["panic"],
                       "stack": crash["stack"][:30], "being_played": crash["playing"]})
        return None


def node_crash(ctx, test="TestDriver"):
    """Parse the driver's log: a panic whose goroutine has no harness frame is the node's own crash."""
    log = os.path.join(ctx.work, "go-c19net-%s.log" % test)
    if not os.path.exists(log):
        return None
    lines = open(log, errors="replace").read().splitlines()
    for i, ln in enumerate(lines):
        if ln.startswith("panic:") or ln.startswith("fatal error:"):
            blk, seen = [], False
            for x in lines[i + 1:]:
                if x.startswith("goroutine "):
                    if seen:
                        break
                    seen = True
                if seen:
                    if (not x.strip() and blk) or x.startswith("FAIL") or x.startswith("exit status") or x.startswith("ok "):
                        break
                    blk.append(x)
            if any("verifharness/" in x for x in blk if not x.startswith("created by")):
                return None
            fr = [x for x in blk[1:] if x and not x.startswith("\t") and not x.startswith("created by")]
            where = next((re.sub(r"\((0x[0-9a-f]+|\.\.\.|, |\{|\}|\?)*\)$", "", x.strip()) for x in fr if "nspcc-dev/neo-go" in x), fr[0] if fr else "?")
            where = where.replace("github.com/nspcc-dev/neo-go/", "")
            playing = []
            pf = os.path.join(ctx.work, "out-c19net-%s" % test, "progress.log")
            if os.path.exists(pf):
                playing = open(pf).read().splitlines()[-12:]
            return {"panic": ln, "where": where, "stack": blk, "playing": playing}
    return None


def segments(events):
    start, starts = 0, []
    for i, e in enumerate(events):
        if e["event"] == "init":
            start = i
        starts.append(start)
    return starts


def judge(ctx, trace, scenarios, confirm=True):
    events = vlib.read_ndjson(trace)
    if not events:
        raise vlib.Inconclusive("consnet: nothing recorded")
    fails = ctx.trace_judge_parts(SUB, "ConsNetTrace.tla", "Trace_ConsNet.cfg", events, max_events=30000, timeout=3000)
    ctx.extra["consnet_trace_events"] = ctx.extra.get("consnet_trace_events", 0) + len(events)
    starts = segments(events)
    info = ctx.extra.setdefault("consnet_informational", {})
    bad_harness, late, verdicts = [], {}, []
    for f in fails:
        li = f["line"] - 1
        s = starts[li]
        name = events[s].get("sc")
        ev = events[li]
        for w in f["what"]:
            if w.startswith("i:"):
                info[w] = info.get(w, 0) + 1
        x = [w for w in f["what"] if w.startswith("x:") and w not in LATE]
        if x:
            bad_harness.append((name, x, ev))
            continue
        judged = sorted(w for w in f["what"] if not w.startswith("i:"))
        if not judged:
            continue
        if confirm and not events[s].get("slow") and all(w in LATE for w in judged):
            late.setdefault(name, []).append((judged, f, s, li))
            continue
        verdicts.append((name, judged, f, s, li))
    if bad_harness:
        raise vlib.Inconclusive("consnet: the harness contradicts itself in %d scenario(s), first: %s" % (len(bad_harness), json.dumps(bad_harness[0], default=str)[:800]))
    if late:
        # something was missing at a quiescent point established by a few quick ping rounds: replay those scenarios with slow
        # settling (dozens of complete rounds and seconds of idleness) - only what is still missing then is a verdict
        ctx.extra["consnet_confirmed_slow"] = ctx.extra.get("consnet_confirmed_slow", 0) + len(late)
        byname = {s["name"]: s for s in scenarios}
        again = [byname[n] for n in late if n in byname]
        ind = os.path.join(ctx.work, "in-c19net-slow%d" % ctx.extra["consnet_confirmed_slow"])
        os.makedirs(ind, exist_ok=True)
        json.dump({"scenarios": again, "slow": True}, open(os.path.join(ind, "input.json"), "w"))
        res = drive(ctx, "TestDriver", ind)
        if res is not None:
            t2 = os.path.join(ctx.work, "trace-slow%d.ndjson" % ctx.extra["consnet_confirmed_slow"])
            os.replace(os.path.join(res["_out"], "trace.ndjson"), t2)
            judge(ctx, t2, again, confirm=False)
    reported = set()
    for name, judged, f, s, li in verdicts:
        if (name, judged[0]) in reported:
            continue
        reported.add((name, judged[0]))
        w = judged[0]
        kind, _, pred = w.partition(":")
        sig = {"part": PART, "kind": kind, "pred": pred or kind}
        ctx.violation(sig, {"what": "abstract predicate %s false on the real network.Server + consensus.Service (scenario %s)" % (w, name),
                            "all": judged, "judge": f.get("ctx", {}), "scenario": events[s], "history": compact(events[s:li + 1])})
    return not verdicts


def compact(evs, keep=160):
    if len(evs) <= keep:
        return evs
    return evs[: keep // 2] + [{"event": "...", "skipped": len(evs) - keep}] + evs[-keep // 2:]
