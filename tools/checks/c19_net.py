"""Extension of C19 - the consensus service INSIDE the node's P2P server (pkg/network/server.go: handleExtensibleCmd -> extpool ->
Service.OnPayload, BroadcastExtensible, inv / getdata relay of extensibles, advertiseConsensusExtensibles, RequestTx / StopTxFlow /
handleTxCmd -> txHandlerLoop -> OnTransaction, block queue -> ledger -> relayBlocksLoop, tryStartServices / IsInSync), which the main
C19 rig (consensus services over a HARNESS network) does not contain.

Model: spec/consnet
  ConsNet.tla        abstract judge: Delivery / Relay / ProposalTxs / BlockOut / Agreement / Acceptable / ServiceStart predicates
  ConsNetImpl.tla    code-shaped model of extpool add + relay decision, handleInvCmd / handleGetDataCmd, RequestTx batching by
                     MaxHashesCount, txIn / callback list flow control, service start; 5 named deviations refuted by TLC, and the
                     switch SplitLookup = the tree as it is (look-up and request are two critical sections): TLC shows the unanswered
                     proposal the stronger reading excludes - MODEL-level documentation, on the real code it is drift (see below)
  MCConsNet.tla      hand-picked universes;  ConsNetSim.tla  generator + the family of ALL universes (exhaustive MC_all*.cfg)
  ConsNetTrace.tla   trace judge
Real code: harness/c19net - REAL started network.Server(s) with the REAL consensus.Service wired in as cli/server mkConsensus does
(observation taps around the callbacks), fake peers holding the other validators' keys over real TCP loopback (really signed payloads,
real transactions), meshes of 4 real servers, virtual dBFT time.

Call from the registered check of C19:   ext = load('c19_net'); ext.run_ext(ctx)
Violations carry "part": "consnet", "kind": Delivery | Relay | InvalidAccepted | ProposalTxs | BlockOut | Agreement | Acceptable |
ServiceStart | Stalled | panic and "pred" = the detailed predicate.  Predicates named "i:..." are informational (drift), "x:..." mean
the harness contradicts itself (inconclusive).  By the lead's reading of the statement a missing answer to ONE proposal is a delay,
not a violation: judged is that every height is decided within 3 views when all non-silent validators are honest and serve the named
transactions (Stalled:undecided), and that nothing unverified is ever vouched for (ProposalTxs:accepted-*)."""
import json
import os
import random
import re

import vlib

PART = "consnet"
SUB = "consnet"
NV = 4
# predicates that say "something is missing at the quiescent point": confirmed on a replay with slow settling before they count
LATE = {"Delivery:missing", "Relay:missing", "Relay:getdata-unanswered", "Relay:not-advertised", "BlockOut:not-in-ledger", "BlockOut:not-announced",
        "BlockOut:getdata-unanswered", "ServiceStart:not-started", "Stalled", "Stalled:undecided", "ProposalTxs:pending-never-included", "x:LedgerCount"}


# ------------------------------------------------------------------------------------------------ scenario DSL
class Sc:
    """One single-server scenario: node `me` (validator index) against fake peers 1..k (peer i carries validator (me+i) % 4's
    traffic by default, but any peer may relay any validator's payload)."""

    def __init__(self, name, me=0, h0=0, pre=None, min_peers=3, npeers=3, ntx=0, srih=False, adv=None, peers=None):
        self.name, self.me, self.h0 = name, me, h0
        self.pre = h0 if pre is None else pre
        self.d = {"name": name, "kind": "single", "srih": srih, "pre": self.pre, "ntx": ntx,
                  "nodes": [{"id": me, "h0": h0, "min_peers": min_peers}], "peers": [], "steps": []}
        for i in range(1, npeers + 1):
            p = {"id": i, "n": me, "adv": h0 if adv is None else adv, "mute": False, "order": "asc", "dup": False, "blocks": False}
            if peers and i in peers:
                p.update(peers[i])
            self.d["peers"].append(p)
        self.nx = 0

    def step(self, op, **kw):
        kw["op"] = op
        self.d["steps"].append(kw)
        return self

    def connect(self, *ps):
        for p in ps:
            self.step("connect", p=p)
        return self

    def sync(self):
        if not self.d["steps"] or self.d["steps"][-1]["op"] != "sync":
            self.step("sync")
        return self

    def x(self, p, typ, frm, name=None, view=0, txs=(), kind="", dh=0, via="push", fake=0):
        if name is None:
            self.nx += 1
            name = "%s%d.%d" % (typ[:3] + typ[-3:], frm, self.nx)
        self.step("x", p=p, x=name, type=typ, view=view, txs=list(txs), kind=kind, dh=dh, via=via, fake=fake, **{"from": frm})
        return name

    def resend(self, p, name, via="push"):
        self.step("x", p=p, x=name, via=via)

    def primary(self, height, view=0):
        return (height - view) % NV

    def others(self):
        return [v for v in range(NV) if v != self.me]


def others_of(me):
    return [v for v in range(NV) if v != me]


def sc_backup_round(name, rnd, me=None, srih=False, h0=0, unsolicited=0, dup=False, mute=0, npeers=3, fetch=True, silent=False,
                    badtx=False, garbage=0, late_peer=False):
    """The node is a backup: the (fake) primary proposes ntx transactions the node does not have; they are spread over the peers
    (some of which never answer); the other validators respond and commit in any order, with duplicates, pushed or announced;
    garbage of every kind is thrown in on extra connections; then the height is played to the end (decide), the node's block is
    fetched over the wire and fed to the reference ledger."""
    h = h0 + 1
    prim = h % NV
    if me is None:
        me = rnd.choice([v for v in range(NV) if v != prim])
    ntx = rnd.randrange(1, 6)
    peers = {}
    for i in range(1, npeers + 1):
        peers[i] = {"order": rnd.choice(["asc", "desc"]), "dup": dup and rnd.random() < 0.5, "mute": False}
    muted = rnd.sample(range(1, npeers + 1), mute) if mute else []
    for i in muted:
        peers[i]["mute"] = True
    extra = garbage + (1 if late_peer else 0)
    s = Sc(name, me=me, h0=h0, ntx=ntx, srih=srih, npeers=npeers + extra, min_peers=min(3, npeers), peers=peers)
    s.connect(*range(1, npeers + 1))
    s.sync()
    gp = list(range(npeers + 1, npeers + garbage + 1))
    lp = npeers + garbage + 1
    txs = ["t%d" % i for i in range(1, ntx + 1)]
    holders = [i for i in range(1, npeers + 1) if i not in muted]
    have = {i: [] for i in range(1, npeers + 1)}
    for t in txs:
        for i in rnd.sample(holders, rnd.randrange(1, len(holders) + 1)):
            have[i].append(t)
    for i in muted:
        have[i] = list(txs)      # the peer that never answers has them all
    badname = rnd.choice(txs) if badtx else None
    for i, ts in have.items():
        good = [t for t in ts if t != badname]
        if good:
            s.step("give", p=i, t=good)
        if badname in ts:
            s.step("give", p=i, t=[badname], bad=True)      # the only copies of this one fail verification
    pushed = rnd.sample(txs, min(unsolicited, len(txs)))
    for t in pushed:     # copies nobody asked for, before the proposal
        s.step("tx", p=rnd.choice(holders), t=[t], via=rnd.choice(["push", "push", "inv"]), bad=(t == badname))
    if pushed and rnd.random() < 0.5:
        s.sync()
    for g in gp:
        s.connect(g)
    backups = [v for v in range(NV) if v not in (me, prim)]
    quiet = rnd.choice(backups) if silent else None      # one validator is silent: the node's own answers are needed
    talk = [v for v in backups if v != quiet]

    def junk():
        if gp and rnd.random() < 0.15:
            s.step("raw", p=rnd.choice(gp), kind=rnd.choice(["trunc", "longcat", "emptyinv", "badcmd"]))
        if gp and rnd.random() < 0.6:
            g = rnd.choice(gp)
            kind = rnd.choice(["badsig", "magic", "stranger", "forged", "future", "past", "cat", "edge"])
            s.x(g, rnd.choice(["Commit", "PrepareResponse", "garbage"]), rnd.choice(others_of(me)), kind=kind, via=rnd.choice(["push", "push", "inv"]))
    junk()
    pr = s.x(rnd.randrange(1, npeers + 1), "PrepareRequest", prim, txs=txs, via=rnd.choice(["push", "push", "inv"]))
    if dup:
        s.resend(rnd.randrange(1, npeers + 1), pr, via=rnd.choice(["push", "inv"]))
    junk()
    s.sync()
    if late_peer:
        s.connect(lp)       # a peer that connects now must be told about the pooled consensus payloads
        s.sync()
    sent = []
    # honest validators: they answer a proposal they can verify and commit once M preparations exist (the node's included)
    for v in ([] if badtx else talk):
        sent.append(s.x(rnd.randrange(1, npeers + 1), "PrepareResponse", v, via=rnd.choice(["push", "push", "inv"])))
    junk()
    s.sync()
    if sent and rnd.random() < 0.5:
        s.step("fetchx", p=rnd.randrange(1, npeers + 1), x=rnd.choice(sent))
    if not badtx:
        # the commits (sent only once M preparations exist - the fake validators are honest), the node's block or, if it does not get
        # there, timers and change views
        s.step("decide", n=me, i=h, t=txs, silent=[quiet] if quiet is not None else [], via=rnd.choice(["push", "inv", "mix"]), times=1 if dup else 0)
        if fetch:
            s.step("fetchblk", p=rnd.randrange(1, npeers + 1), i=h, by=rnd.choice(["hash", "index"]))
    s.sync()
    return s.d


def sc_two_heights(name, rnd, srih=False, h0=0):
    """Height h0+1 with the node as a backup, then height h0+2 with the node as PRIMARY: pending transactions reach its pool from
    peers, its timer fires, it proposes them, the fake backups answer with its own proposal's hash."""
    h = h0 + 1
    me = (h + 1) % NV          # primary of the second height
    prim = h % NV
    ntx = rnd.randrange(2, 6)
    s = Sc(name, me=me, h0=h0, ntx=ntx, srih=srih, npeers=3)
    s.connect(1, 2, 3).sync()
    txs = ["t%d" % i for i in range(1, ntx + 1)]
    first, second = txs[:1], txs[1:]
    s.step("give", p=2, t=first)
    s.x(1, "PrepareRequest", prim, txs=first)
    s.sync()
    s.step("decide", n=me, i=h, t=first, silent=[])
    s.step("fetchblk", p=3, i=h, by="hash")
    s.sync()
    for t in second:
        s.step("tx", p=rnd.randrange(1, 4), t=[t], via=rnd.choice(["push", "inv"]))
    s.sync()
    s.step("timeout", n=me)       # the primary's timer: proposal of the pending transactions
    s.sync()
    s.step("decide", n=me, i=h + 1, t=second, silent=[rnd.choice(others_of(me))] if rnd.random() < 0.5 else [])
    s.step("fetchblk", p=rnd.randrange(1, 4), i=h + 1, by=rnd.choice(["hash", "index"]))
    s.step("fetchx", p=2, x="PrepareRequest/%d/0" % (h + 1))
    s.sync()
    return s.d


def sc_maxhashes(name, rnd):
    """A proposal naming more missing transactions than one getdata may carry (MaxHashesCount = 500): every peer must be asked for
    all of them (several messages)."""
    s = Sc(name, me=0, ntx=2, npeers=2, min_peers=2)
    s.connect(1, 2).sync()
    s.step("give", p=2, t=["t1", "t2"])
    s.x(1, "PrepareRequest", 1, txs=["t1", "t2"], fake=rnd.choice([499, 600, 1100]))
    s.sync()
    return s.d


def sc_behind(name, rnd, serve):
    """The node is 3 blocks behind all its peers.  serve=False: nobody gives it blocks - it must not start consensus and must not
    answer a proposal; serve=True: peers serve the blocks - consensus starts when the node has caught up, then a height is decided."""
    peers = {i: {"blocks": serve, "adv": 3} for i in (1, 2, 3)}
    me = rnd.choice([0, 2, 3]) if not serve else rnd.choice([1, 2, 3])
    s = Sc(name, me=me, h0=0, pre=3, ntx=1, npeers=3, adv=3, peers=peers)
    s.connect(1, 2, 3).sync()
    if not serve:
        s.x(1, "PrepareRequest", 1, txs=["t1"])
        s.x(2, "PrepareResponse", 2 if me != 2 else 3)
        s.sync()
        s.step("timeout", n=me)
        s.sync()
    else:
        s.step("await", n=me, i=3)
        s.sync()
        s.step("decide", n=me, i=4, t=["t1"], silent=[])
        s.step("fetchblk", p=2, i=4, by="hash")
        s.sync()
    return s.d


def sc_fresh_views(name, rnd, h0=0, srih=False, big=False):
    """The node's answer is needed in every view it is a backup in (one validator silent), and the primary of every view proposes
    transactions of its own that only ONE answering peer holds (another, mute, peer has them too): nothing reaches the node except
    in answer to its own getdata.  The node is the primary of view 3 only, the primary of view 0 is the silent one: views 1 and 2 are
    decided only if the node fetches, verifies and answers."""
    h = h0 + 1
    me = (h - 3) % NV
    quiet = h % NV
    npeers = rnd.choice([3, 4])
    mute = rnd.randrange(1, npeers + 1)
    holder = rnd.choice([i for i in range(1, npeers + 1) if i != mute])
    peers = {i: {"mute": i == mute, "order": rnd.choice(["asc", "desc"]), "dup": rnd.random() < 0.3} for i in range(1, npeers + 1)}
    k = rnd.randrange(1, 4) if not big else rnd.randrange(505, 530)      # big: more than one getdata can name (MaxHashesCount = 500)
    s = Sc(name, me=me, h0=h0, ntx=2 * k, srih=srih, npeers=npeers, min_peers=3, peers=peers)
    s.connect(*range(1, npeers + 1)).sync()
    v1 = ["t%d" % i for i in range(1, k + 1)]
    v2 = ["t%d" % i for i in range(k + 1, 2 * k + 1)]
    for p in (holder, mute):
        s.step("give", p=p, t=v1 + v2)
    s.step("decide", n=me, i=h, t=[], silent=[quiet], views=[None, v1, v2], via=rnd.choice(["push", "inv", "mix"]))
    s.step("fetchblk", p=holder, i=h, by=rnd.choice(["hash", "index"]))
    s.sync()
    return s.d


def sc_race(name, rnd, srih=False):
    """The proposal names a transaction the node does not have; it arrives (pushed by a peer nobody asked) and is pooled AFTER the
    service has looked it up and BEFORE the server has registered the request (interleaving forced through the RequestTx callback).
    One validator is silent, so the node's answer is needed: the consequence (view, timers) is measured."""
    s = Sc(name, me=0, ntx=2, srih=srih)
    s.connect(1, 2, 3).sync()
    s.step("give", p=2, t=["t1", "t2"])
    s.step("give", p=3, t=["t1", "t2"])
    s.step("gate", n=0, p=3, t=["t1"])
    s.x(1, "PrepareRequest", 1, txs=["t1", "t2"])
    s.sync()
    s.step("decide", n=0, i=1, t=["t1", "t2"], silent=[3])
    s.step("fetchblk", p=2, i=1, by="hash")
    s.sync()
    return s.d


def scripted(rnd, q):
    out = [sc_race("race-lookup-request", rnd), sc_maxhashes("maxhashes-0", rnd), sc_behind("behind-starved", rnd, False),
           sc_behind("behind-catchup", rnd, True), sc_two_heights("two-heights-0", rnd, srih=False, h0=0)]
    for k in range(4 if q else 16):
        out.append(sc_fresh_views("fresh-views-%d" % k, rnd, h0=rnd.choice([0, 1, 2, 3]), srih=(k % 2 == 1)))
    for k in range(1 if q else 3):
        out.append(sc_fresh_views("fresh-views-big-%d" % k, rnd, h0=rnd.choice([0, 1]), big=True))
    for k in range(1, 2 if q else 6):
        out.append(sc_two_heights("two-heights-%d" % k, rnd, srih=(k % 2 == 1), h0=rnd.choice([0, 1, 2, 5])))
        out.append(sc_maxhashes("maxhashes-%d" % k, rnd))
    for k in range(24 if q else 240):
        out.append(sc_backup_round("round-%d" % k, rnd, srih=(k % 3 == 1), h0=rnd.choice([0, 0, 1, 2, 3]), unsolicited=rnd.choice([0, 0, 1, 2, 5]),
                                   dup=rnd.random() < 0.5, mute=rnd.choice([0, 0, 1, 1, 2]), npeers=rnd.choice([3, 3, 4]), silent=rnd.random() < 0.45,
                                   badtx=rnd.random() < 0.2, garbage=rnd.choice([0, 1, 2]), late_peer=rnd.random() < 0.3))
    return out


BADKINDS = ["badsig", "magic", "stranger", "forged"]


def realise(hist, name, rnd):
    """A behaviour of ConsNetSim as a scenario: the node is validator 0 (a backup of height 1, primary = validator 1); model payload
    r = the PrepareRequest naming the model's transactions, y = a PrepareResponse of validator 2, z = a Commit of validator 3 whose
    witness does not verify (in one of four ways), c = a correctly signed payload of another category.  The model's readers took the
    messages in the order of the history: the fake peers send them in that order, with a quiescent point wherever the model's node
    was idle in between.  The model's Start (node synchronised) is the moment the LAST connection completes (MinPeers = number of
    connections)."""
    ids = {p: i + 1 for i, p in enumerate(sorted(hist["peers"]))}
    steps = hist["steps"]
    named = sorted(hist["named"])
    bad = set(hist["bad"])
    tname = {t: "t%d" % (i + 1) for i, t in enumerate(named)}
    si = next(i for i, st in enumerate(steps) if st["op"] == "start")
    early = {st["p"] for st in steps[:si] if st["op"] == "h"}
    lates = [p for p in sorted(hist["peers"]) if p not in early]
    k = len(ids)
    starter = ids[rnd.choice(lates)] if lates else k + 1
    total = k if lates else k + 1
    peers = {}
    for p, i in ids.items():
        peers[i] = {"mute": p in hist["mute"], "order": rnd.choice(["asc", "desc"]), "dup": rnd.random() < 0.3}
    s = Sc(name, me=0, h0=0, ntx=len(named), srih=rnd.random() < 0.3, npeers=total, min_peers=total, peers=peers)
    for i in range(1, total + 1):
        if i != starter:
            s.connect(i)
    s.sync()
    for p, ts in sorted(hist["holds"].items()):
        good = [tname[t] for t in ts if t not in bad]
        if good:
            s.step("give", p=ids[p], t=good)
        worse = [tname[t] for t in ts if t in bad]
        if worse:
            s.step("give", p=ids[p], t=worse, bad=True)
    spec = {"r": dict(typ="PrepareRequest", frm=1, txs=[tname[t] for t in named], kind=""), "y": dict(typ="PrepareResponse", frm=2, kind=""),
            "z": dict(typ="Commit", frm=3, kind=rnd.choice(BADKINDS)), "c": dict(typ="Commit", frm=2, kind="cat")}
    defined, announced = set(), set()
    for j, st in enumerate(steps):
        if st["op"] == "start":
            s.sync()
            s.connect(starter)
            s.sync()
            continue
        m, p = st["m"], ids[st["p"]]
        if st["idle"]:
            s.sync()
        if m["k"] in ("x", "i"):
            x = m["x"]
            inv = m["k"] == "i"
            if not inv and (p, x) in announced:
                announced.discard((p, x))      # (the copy the peer serves when the node asks for what it announced)
                continue
            if inv:
                announced.add((p, x))
            if x in defined:
                s.resend(p, "m-" + x, via="inv" if inv else "push")
            else:
                # a payload is crafted for the height the node has when it is first sent
                defined.add(x)
                sp = spec[x]
                s.x(p, sp["typ"], sp["frm"], name="m-" + x, txs=sp.get("txs", ()), kind=sp["kind"], via="inv" if inv else "push")
        elif m["k"] == "t":
            s.step("tx", p=p, t=[tname[m["t"]]], bad=not m["ok"], via=rnd.choice(["push", "push", "inv"]))
        elif m["k"] == "g" and m["x"] in defined:
            s.step("fetchx", p=p, x="m-" + m["x"])
    s.sync()
    if not bad:
        s.step("decide", n=0, i=1, t=[tname[t] for t in named], silent=[])
        s.step("fetchblk", p=rnd.choice([i for i in range(1, k + 1)]), i=1, by=rnd.choice(["hash", "index"]))
        s.sync()
    s.d["expect"] = "model: pc=%s closed=%s" % (hist["pc"], ",".join(hist["closed"]))
    s.d["model"] = {"pc": hist["pc"], "closed": sorted(ids[p] for p in hist["closed"])}
    return s.d


# ------------------------------------------------------------------------------------------------ the check
MC_OK = ("u1", "u2", "u3", "u4")
MC_DEV = ("dev_twice", "dev_senderonly", "dev_truncate", "dev_dropunsol", "dev_startbehind")
SIMS = ("a", "b", "c")


def expect_refuted(ctx, module, cfg, key):
    try:
        ctx.tlc_mc(SUB, module, cfg, timeout=900, workers=4)
    except vlib.ModelError:
        ctx.extra[key] = ctx.extra.get(key, 0) + 1
        return
    raise vlib.Inconclusive("consnet: named deviation %s is not refuted by TLC (vacuous model)" % cfg)


def run_ext(ctx):
    q = ctx.quick()
    rnd = random.Random(ctx.seed * 13 + 19)
    # 1. exhaustive: Impl => Abstract in hand-picked universes; over EVERY universe of the generator's families (quick: the family
    #    with a garbage sender; thorough: all three)
    for u in MC_OK:
        ctx.tlc_mc(SUB, "MCConsNet.tla", "MC_%s.cfg" % u, timeout=1200, workers=4, coverage=not q, must_cover=False)
    for fam in (("c",) if q else SIMS):
        ctx.tlc_mc(SUB, "ConsNetSim.tla", "MC_all%s.cfg" % fam, timeout=3000, workers=8 if q else None)
    for d in MC_DEV:
        expect_refuted(ctx, "MCConsNet.tla", "MC_%s.cfg" % d, "consnet_model_selftests")
    # the tree as it is: look-up and request are two critical sections - TLC shows the stall the stronger reading excludes
    # (model-level documentation; on the real code it is reproduced by scenario race-lookup-request and reported as drift)
    expect_refuted(ctx, "MCConsNet.tla", "MC_pinned_split.cfg", "consnet_pinned_behaviours_shown")

    # 2. behaviours of the Impl model -> scripts of fake validators
    scenarios, seen = [], set()
    for i, fam in enumerate(SIMS):
        hs = ctx.tlc_sim(SUB, "ConsNetSim.tla", "Sim_%s.cfg" % fam, num=60 if q else 1200, depth=60, timeout=900, seed=ctx.seed * 10 + i)
        fresh = []
        for h in hs:
            k = json.dumps(h, sort_keys=True)
            if k in seen:
                continue
            seen.add(k)
            # behaviours in which the node learns of the proposal only while it is not synchronised say little: keep a few
            si = next(j for j, st in enumerate(h["steps"]) if st["op"] == "start")
            late = not any(st["op"] == "h" and st["m"].get("x") == "r" and st["m"]["k"] == "x" for st in h["steps"][si:])
            if late and rnd.random() < 0.8:
                continue
            fresh.append(h)
        rnd.shuffle(fresh)
        for j, h in enumerate(fresh[: (16 if q else 260)]):
            scenarios.append(realise(h, "tlc-%s-%d" % (fam, j), rnd))
    if not scenarios:
        raise vlib.Inconclusive("consnet: no ConsNetSim behaviours generated")
    ctx.extra["consnet_tlc_scripts"] = len(scenarios)
    # 3. scripted worlds and seeded random adversaries
    scenarios += scripted(rnd, q)
    scenarios += mesh_scenarios(rnd, q)
    ind = os.path.join(ctx.work, "in-c19net")
    os.makedirs(ind, exist_ok=True)
    json.dump({"scenarios": scenarios, "slow": False}, open(os.path.join(ind, "input.json"), "w"))
    # 4. real code
    res = drive(ctx, "TestDriver", ind)
    if res is None:
        return
    ctx.absorb(res)
    trace = os.path.join(ctx.work, "trace-fast.ndjson")
    os.replace(os.path.join(res["_out"], "trace.ndjson"), trace)
    # 5. TLC judges the recorded runs against the abstract level
    clean = judge(ctx, trace, scenarios)
    ctx.traces_validated += res.get("traces", 0)
    ctx.assumptions.append(
        "consensus in the server: ONE real network.Server + consensus.Service (validator k of 4) against fake peers that hold the other three "
        "validators' keys (plus meshes of 4 real servers over loopback TCP); inbound connections only for the single-server worlds; BroadcastFactor 100 "
        "(every handshaked peer is told; the default gossip fan-out is not judged); fewer payloads per sender than the pool's capacity; dBFT time is "
        "virtual (VerifNewTimer), TimePerBlock 20 s only scales the server's own time-outs; quiescence = complete ping round trips on every "
        "connection + unchanged event / loop / ledger counters; what is MISSING at such a point counts only after a replay with slow settling "
        "(40 rounds and 2.5 s of idleness); a missing answer to ONE proposal is informational - judged is that the height gets decided within "
        "3 views when every non-silent validator is honest and the named transactions are served")
    impl_drift(ctx, trace, scenarios)
    # 6. binding self-tests
    if clean:
        selftest(ctx, trace)


def drive(ctx, test, ind, tag=""):
    try:
        return ctx.go_driver("c19net", test, env={"VERIF_IN": ind, "VERIF_PAR": 6}, timeout=3000)
    except vlib.Inconclusive:
        crash = node_crash(ctx, test)
        if crash is None:
            raise
        ctx.samples.append({"node_crash": crash["where"], "driver": test})
        ctx.violation({"part": PART, "kind": "panic", "where": crash["where"]},
                      {"what": "the node's process crashed while fake validators were talking to it (%s)" % test, "panic": crash["panic"],
                       "stack": crash["stack"][:30], "being_played": crash["playing"]})
        return None


def node_crash(ctx, test="TestDriver"):
    """Parse the driver's log: a panic whose goroutine has no harness frame is the node's own crash."""
    log = os.path.join(ctx.work, "go-c19net-%s.log" % test)
    if not os.path.exists(log):
        return None
    lines = open(log, errors="replace").read().splitlines()
    for i, ln in enumerate(lines):
        if ln.startswith("panic:") or ln.startswith("fatal error:"):
            blk, seen = [], False
            for x in lines[i + 1:]:
                if x.startswith("goroutine "):
                    if seen:
                        break
                    seen = True
                if seen:
                    if (not x.strip() and blk) or x.startswith("FAIL") or x.startswith("exit status") or x.startswith("ok "):
                        break
                    blk.append(x)
            if any("verifharness/" in x for x in blk if not x.startswith("created by")):
                return None
            fr = [x for x in blk[1:] if x and not x.startswith("\t") and not x.startswith("created by")]
            where = next((re.sub(r"\((0x[0-9a-f]+|\.\.\.|, |\{|\}|\?)*\)$", "", x.strip()) for x in fr if "nspcc-dev/neo-go" in x), fr[0] if fr else "?")
            where = where.replace("github.com/nspcc-dev/neo-go/", "")
            playing = []
            pf = os.path.join(ctx.work, "out-c19net-%s" % test, "progress.log")
            if os.path.exists(pf):
                playing = open(pf).read().splitlines()[-12:]
            return {"panic": ln, "where": where, "stack": blk, "playing": playing}
    return None


def segments(events):
    start, starts = 0, []
    for i, e in enumerate(events):
        if e["event"] == "init":
            start = i
        starts.append(start)
    return starts


DRIFT = ("i:ProposalTxs:no-response", "i:ProposalTxs:refused-good", "i:ProposalTxs:bad-not-refused", "i:ProposalTxs:peer-not-asked",
         "i:ProposalTxs:peer-asked-other", "i:ProposalTxs:asked-for-held", "i:ProposalTxs:missing-not-asked", "i:DecidedLater", "i:Relay:sender-only")


def judge(ctx, trace, scenarios, confirm=True):
    events = vlib.read_ndjson(trace)
    if not events:
        raise vlib.Inconclusive("consnet: nothing recorded")
    fails = ctx.trace_judge_parts(SUB, "ConsNetTrace.tla", "Trace_ConsNet.cfg", events, max_events=30000, timeout=3000)
    ctx.extra["consnet_trace_events"] = ctx.extra.get("consnet_trace_events", 0) + len(events)
    starts = segments(events)
    if confirm:
        ctx.extra["consnet_established"] = established(events)
    info = ctx.extra.setdefault("consnet_informational", {})
    bad_harness, late, verdicts = [], {}, []
    drifted, noresp = set(), set()
    for f in fails:
        li = f["line"] - 1
        s = starts[li]
        name = events[s].get("sc")
        ev = events[li]
        for w in f["what"]:
            if w.startswith("i:"):
                info[w] = info.get(w, 0) + 1
                if w == "i:ProposalTxs:no-response" and confirm:
                    noresp.add(name)
                if w in DRIFT and (w, name.split("-")[0]) not in drifted and len(ctx.spec_drift) < 18:
                    # what the code does where the statement (as read by the lead) is silent: recorded with its measured consequence
                    drifted.add((w, name.split("-")[0]))
                    end = next((j for j in range(li, len(events)) if events[j]["event"] == "end"), len(events) - 1)
                    dec = [e for e in events[s:end] if e["event"] == "decide"]
                    ctx.spec_drift.append({"part": PART, "informational": w, "scenario": name, "at": {k: v for k, v in f.get("ctx", {}).items() if k in ("ev", "proposal", "named", "good", "bad", "want", "notAsked", "askedOther")},
                                           "consequence": [{k: d.get(k) for k in ("h", "decided", "view", "via", "timeouts", "silent")} for d in dec]})
        x = [w for w in f["what"] if w.startswith("x:") and w not in LATE]
        if x:
            bad_harness.append((name, x, ev))
            continue
        judged = sorted(w for w in f["what"] if not w.startswith("i:"))
        if not judged:
            continue
        if confirm and not events[s].get("slow") and all(w in LATE for w in judged):
            late.setdefault(name, []).append((judged, f, s, li))
            lp = ctx.extra.setdefault("consnet_late_preds", {})
            for w in judged:
                lp[w] = lp.get(w, 0) + 1
            continue
        if all(w.startswith("x:") for w in judged):
            bad_harness.append((name, judged, ev))
            continue
        verdicts.append((name, [w for w in judged if not w.startswith("x:")], f, s, li))
    if confirm:
        ctx.extra["consnet_scenarios_with_unanswered_proposal"] = len(noresp)
    if bad_harness:
        raise vlib.Inconclusive("consnet: the harness contradicts itself in %d scenario(s), first: %s" % (len(bad_harness), json.dumps(bad_harness[0], default=str)[:800]))
    ok_slow = True
    if late:
        # something was missing at a quiescent point established by a few quick ping rounds: replay those scenarios with slow
        # settling (dozens of complete rounds and seconds of idleness) - only what is still missing then is a verdict
        n = ctx.extra["consnet_confirmed_slow"] = ctx.extra.get("consnet_confirmed_slow", 0) + 1
        ctx.extra["consnet_late_scenarios"] = ctx.extra.get("consnet_late_scenarios", 0) + len(late)
        byname = {s["name"]: s for s in scenarios}
        again = [byname[x] for x in late if x in byname][:8]      # (a tree on which many scenarios miss something: a sample is enough)
        ind = os.path.join(ctx.work, "in-c19net-slow%d" % n)
        os.makedirs(ind, exist_ok=True)
        json.dump({"scenarios": again, "slow": True}, open(os.path.join(ind, "input.json"), "w"))
        res = drive(ctx, "TestDriver", ind)
        if res is not None:
            t2 = os.path.join(ctx.work, "trace-slow%d.ndjson" % n)
            os.replace(os.path.join(res["_out"], "trace.ndjson"), t2)
            ok_slow = judge(ctx, t2, again, confirm=False)
        else:
            ok_slow = False
    reported = set()
    for name, judged, f, s, li in verdicts:
        if (name, judged[0]) in reported:
            continue
        reported.add((name, judged[0]))
        w = judged[0]
        kind, _, pred = w.partition(":")
        sig = {"part": PART, "kind": kind, "pred": pred or kind}
        ctx.violation(sig, {"what": "abstract predicate %s false on the real network.Server + consensus.Service (scenario %s)" % (w, name),
                            "all": judged, "judge": f.get("ctx", {}), "scenario": events[s], "history": compact(events[s:li + 1])})
    return not verdicts and ok_slow


def impl_drift(ctx, trace, scenarios):
    """ConsNetImpl's prediction (the generator runs it with look-up and request ATOMIC) against what the real node did in the realised
    behaviour: did it answer the proposal before the height was played to the end, which connections did it close.  Disagreement while
    the abstract level is satisfied is drift (information)."""
    events = vlib.read_ndjson(trace)
    model = {s["name"]: s["model"] for s in scenarios if "model" in s}
    n = {"compared": 0, "answer": 0, "closed": 0}
    cur, resp, closed, over = None, False, set(), False

    def flush():
        if cur in model:
            m = model[cur]
            n["compared"] += 1
            d = {}
            if (m["pc"] == "resp") != resp:
                n["answer"] += 1
                d["answer"] = {"model": m["pc"], "real": "PrepareResponse sent" if resp else "no PrepareResponse"}
            if sorted(closed) != m["closed"]:
                n["closed"] += 1
                d["closed"] = {"model": m["closed"], "real": sorted(closed)}
            if d and len([x for x in ctx.spec_drift if x.get("model") == "ConsNetImpl"]) < 4 and len(ctx.spec_drift) < 20:
                ctx.spec_drift.append({"part": PART, "model": "ConsNetImpl", "scenario": cur, "disagreement": d})
    for e in events:
        ev = e["event"]
        if ev == "init":
            flush()
            cur, resp, closed, over = e["sc"], False, set(), False
        elif ev == "decide" or (ev == "xdef" and str(e.get("name", "")).startswith("decide-")):
            over = True
        elif ev == "own" and e.get("type") == "PrepareResponse" and e.get("view") == 0 and not over:
            resp = True
        elif ev == "close" and e.get("by") == "node" and not over:
            closed.add(e["p"])
    flush()
    ctx.extra["consnet_impl_drift"] = n


def established(events):
    """What the code does where the statement is silent (information, never a verdict): what happens to the SENDER of each kind of
    garbage (connection closed by the node or kept), whether payloads of another category are relayed, how many proposals went without
    the node's answer and how the heights were decided."""
    st = {"sender_closed": {}, "sender_kept": {}, "decided": {}}
    starts = segments(events)
    kinds, senders, closed, noresp = {}, {}, set(), set()
    for i, e in enumerate(events):
        ev = e["event"]
        if ev == "init":
            for (n, p), ks in senders.items():
                for k in ks:
                    d = st["sender_closed" if (n, p) in closed else "sender_kept"]
                    d[k] = d.get(k, 0) + 1
            kinds, senders, closed = {}, {}, set()
        elif ev == "xdef":
            kinds[e["x"]] = e.get("kind") or "valid"
        elif ev == "s" and e.get("m") == "extensible":
            k = kinds.get(e["x"], "valid")
            if k != "valid":
                senders.setdefault((e["n"], e["p"]), set()).add(k)
        elif ev == "s" and e.get("m") == "raw":
            senders.setdefault((e["n"], e["p"]), set()).add("raw:" + e.get("kind", ""))
        elif ev == "close" and e.get("by") == "node":
            closed.add((e["n"], e["p"]))
        elif ev == "decide":
            k = "view %d, %s%s" % (e["view"], e["via"], "" if e["decided"] else " (UNDECIDED)")
            st["decided"][k] = st["decided"].get(k, 0) + 1
    for (n, p), ks in senders.items():
        for k in ks:
            d = st["sender_closed" if (n, p) in closed else "sender_kept"]
            d[k] = d.get(k, 0) + 1
    return st


def compact(evs, keep=160):
    if len(evs) <= keep:
        return evs
    return evs[: keep // 2] + [{"event": "...", "skipped": len(evs) - keep}] + evs[-keep // 2:]


def sc_mesh(name, rnd, silent=None, stop=None, heights=3, srih=False):
    """4 validators as 4 REAL servers (each with its real consensus service and its own ledger) connected to each other over loopback
    TCP; `silent`: that validator never runs (3 servers); `stop`: that server shuts down after the first block.  Transactions enter at
    random servers; the synchronous phase fires the earliest timer and lets everything settle; all ledgers are compared, every block
    is fetched over the wire and offered to the reference ledger."""
    vals = [v for v in range(NV) if v != silent]
    ntx = rnd.randrange(2, 6)
    d = {"name": name, "kind": "mesh", "srih": srih, "pre": 0, "ntx": ntx, "peers": [], "steps": [],
         "nodes": [{"id": v, "h0": 0, "min_peers": len(vals) - 1} for v in vals]}
    for k, v in enumerate(vals):
        d["peers"].append({"id": k + 1, "n": v, "adv": 0, "mute": False, "order": "asc", "dup": False, "blocks": False})
    st = d["steps"]
    st.append({"op": "started"})
    for k in range(len(vals)):
        st.append({"op": "connect", "p": k + 1})
    st.append({"op": "sync"})
    txs = ["t%d" % i for i in range(1, ntx + 1)]
    for t in txs:
        st.append({"op": "tx", "p": rnd.randrange(1, len(vals) + 1), "t": [t], "via": rnd.choice(["push", "inv"])})
    st.append({"op": "sync"})
    bound = 12
    if stop is not None:
        st.append({"op": "rounds", "rounds": bound, "i": bound, "dh": 1})
        st.append({"op": "stop", "n": stop})
        st.append({"op": "sync"})
    st.append({"op": "rounds", "rounds": bound * heights, "i": bound, "dh": heights})
    watch = next(k + 1 for k, v in enumerate(vals) if v != stop)
    st.append({"op": "included", "n": vals[watch - 1], "t": txs})
    st.append({"op": "feedall", "p": watch})
    st.append({"op": "sync"})
    return d


def mesh_scenarios(rnd, q):
    out = [sc_mesh("mesh-all", rnd, heights=3), sc_mesh("mesh-silent", rnd, silent=rnd.randrange(NV), heights=3, srih=True)]
    if not q:
        out.append(sc_mesh("mesh-crash", rnd, stop=rnd.randrange(NV), heights=4))
        for k in range(12):
            out.append(sc_mesh("mesh-%d" % k, rnd, silent=rnd.choice([None, None, 0, 1, 2, 3]), stop=None, heights=rnd.choice([3, 5, 9]), srih=k % 2 == 1))
    return out


def selftest(ctx, trace):
    """Binding self-tests: corrupted copies of good recorded scenarios must be rejected with the right predicate.
      twice      a hand-over to the service recorded twice                        -> Delivery:twice
      lost       the hand-over of a payload that had to be delivered removed      -> Delivery:missing
      forged     a delivered payload's witness recorded as not verifying         -> InvalidAccepted:delivered
      norelay    one connection never told about a delivered payload              -> Relay:missing
      agreement  the ledger's block differs from the one the service queued       -> Agreement
      feed       the reference ledger refuses the served block                    -> Acceptable
      undecided  the height was not decided                                       -> Stalled:undecided
      noblockinv one connection never told about the new block                    -> BlockOut:not-announced
      wrongblock the block served differs from the one asked for                  -> BlockOut:wrong-block
      behind     every peer was ahead when the service started                    -> ServiceStart:started-behind
      unverified the node answered a proposal one transaction of which it only ever got in bad copies -> ProposalTxs:accepted-unverified
    """
    ev = vlib.read_ndjson(trace)
    starts = segments(ev)
    ends = {}
    for i, e in enumerate(ev):
        if e["event"] == "end":
            ends[starts[i]] = i
    done = {}

    def seg(s):
        return [dict(e) for e in ev[s:ends[s] + 1]]
    for s, en in sorted(ends.items()):
        if ev[s].get("kind") != "single":
            continue
        sg = ev[s:en + 1]
        xd = {e["x"]: e for e in sg if e["event"] == "xdef"}
        dl = [j for j, e in enumerate(sg) if e["event"] == "deliver" and xd.get(e["x"], {}).get("cls") == "ok"]
        if dl and "twice" not in done:
            c = seg(s)
            c.insert(dl[0] + 1, dict(c[dl[0]]))
            done["twice"] = (c, "Delivery:twice")
        # a payload sent once, delivered, relayed: candidates for lost / forged / norelay
        for j in dl:
            x, hx = sg[j]["x"], sg[j]["hx"]
            sends = [k for k, e in enumerate(sg) if e["event"] == "s" and e.get("m") == "extensible" and e.get("hx") == hx]
            if len(sends) != 1 or sends[0] > j or xd[x].get("kind") != "" or xd[x]["type"] not in ("PrepareResponse", "Commit", "PrepareRequest"):
                continue
            nxt = next((k for k in range(j, len(sg)) if sg[k]["event"] == "sync"), None)
            if nxt is None or sg[nxt]["h"] >= xd[x]["end"]:
                continue
            if "lost" not in done:
                c = seg(s)
                del c[j]
                done["lost"] = (c, "Delivery:missing")
            if "forged" not in done:
                c = seg(s)
                for e in c:
                    if e["event"] == "xdef" and e["x"] == x:
                        e["cls"] = "bad"
                done["forged"] = (c, "InvalidAccepted:delivered")
            told = [k for k, e in enumerate(sg) if e["event"] == "r" and e.get("m") == "inv" and e.get("typ") == "ext" and hx in e["hs"]]
            sender = sg[sends[0]]["p"]
            other = [k for k in told if sg[k]["p"] != sender]
            if other and "norelay" not in done:
                victim = sg[other[0]]["p"]
                conn_before = any(e["event"] == "conn" and e["p"] == victim for e in sg[:sends[0]]) and any(e["event"] == "epoch" for e in sg[:sends[0]])
                if conn_before:
                    c = [dict(e) for k, e in enumerate(sg) if not (k in told and e["p"] == victim)]
                    done["norelay"] = (c, "Relay:missing")
        qs = [j for j, e in enumerate(sg) if e["event"] == "queued"]
        ac = [j for j, e in enumerate(sg) if e["event"] == "acc"]
        if qs and ac and "agreement" not in done:
            c = seg(s)
            c[ac[0]]["b"] = "00" * 7
            done["agreement"] = (c, "Agreement")
        fd = [j for j, e in enumerate(sg) if e["event"] == "feed" and e["ok"]]
        if fd and "feed" not in done:
            c = seg(s)
            c[fd[0]]["ok"] = False
            done["feed"] = (c, "Acceptable")
        dc = [j for j, e in enumerate(sg) if e["event"] == "decide" and e["decided"]]
        if dc and "undecided" not in done:
            c = seg(s)
            c[dc[0]]["decided"] = False
            done["undecided"] = (c, "Stalled:undecided")
        bi = [j for j, e in enumerate(sg) if e["event"] == "r" and e.get("m") == "inv" and e.get("typ") == "block"]
        if bi and ac and "noblockinv" not in done:
            victim = sg[bi[0]]["p"]
            first_conn = next(j for j, e in enumerate(sg) if e["event"] == "conn" and e["p"] == victim)
            if any(e["event"] == "epoch" for e in sg[first_conn:ac[0]]) and not any(e["event"] == "close" and e["p"] == victim for e in sg):
                c = [dict(e) for k, e in enumerate(sg) if not (k in bi and e["p"] == victim)]
                done["noblockinv"] = (c, "BlockOut:not-announced")
        rb = [j for j, e in enumerate(sg) if e["event"] == "r" and e.get("m") == "block"]
        if rb and "wrongblock" not in done:
            c = seg(s)
            c[rb[0]]["b"] = "11" * 7
            done["wrongblock"] = (c, "BlockOut:wrong-block")
        st = [j for j, e in enumerate(sg) if e["event"] == "svcstart"]
        if st and ev[s]["nodes"][0]["minp"] > 0 and "behind" not in done and any(e["event"] == "conn" for e in sg[:st[0]]):
            c = seg(s)
            for e in c[:st[0]]:
                if e["event"] == "conn":
                    e["adv"] = c[st[0]]["h"] + 5
            done["behind"] = (c, "ServiceStart:started-behind")
        # the node's PrepareResponse to a proposal naming a transaction that reached it only in this epoch
        for j, e in enumerate(sg):
            if "unverified" in done or e["event"] != "own" or e["type"] != "PrepareResponse":
                continue
            prs = [d for d in sg[:j] if d["event"] == "deliver" and xd.get(d["x"], {}).get("type") == "PrepareRequest" and xd[d["x"]]["h"] == e["h"] and xd[d["x"]]["view"] == e["view"]]
            if len(prs) != 1 or not xd[prs[0]["x"]]["txs"]:
                continue
            pooled = set()
            for d in sg[:j]:
                if d["event"] == "sync":
                    pooled |= set(d["pool"])
            cand = [t for t in xd[prs[0]["x"]]["txs"] if t not in pooled]
            if cand:
                c = seg(s)
                for d in c:
                    if d["event"] == "s" and d.get("m") == "tx" and d["t"] == cand[0]:
                        d["ok"] = False
                done["unverified"] = (c[:j + 1] + [{"event": "end"}], "ProposalTxs:accepted-unverified")
    want = ("twice", "lost", "forged", "norelay", "agreement", "feed", "undecided", "noblockinv", "wrongblock", "behind", "unverified")
    missing = [w for w in want if w not in done]
    if len(done) < 8 or any(w in missing for w in ("twice", "forged", "agreement", "feed", "undecided")):
        raise vlib.Inconclusive("consnet self-test: no place to corrupt the trace for %s" % missing)
    segs, expect = [], []
    for name, (c, pred) in sorted(done.items()):
        a = len(segs)
        segs += c
        expect.append((name, pred, a + 1, len(segs)))
    path = os.path.join(ctx.work, "selftest-consnet.ndjson")
    vlib.write_ndjson(path, segs)
    st, tr = ctx.states, ctx.transitions
    fails = ctx.trace_judge(SUB, "ConsNetTrace.tla", "Trace_ConsNet.cfg", path, timeout=900)
    ctx.states, ctx.transitions = st, tr
    for name, pred, a, b in expect:
        if not any(a <= f["line"] <= b and pred in f["what"] for f in fails):
            raise vlib.Inconclusive("consnet binding self-test %s: corrupted trace was not rejected (%s expected; got %s)" % (
                name, pred, [(f["line"], f["what"]) for f in fails if a <= f["line"] <= b][:6]))
        ctx.extra["consnet_binding_selftests"] = ctx.extra.get("consnet_binding_selftests", 0) + 1
    ctx.extra["consnet_binding_selftests_skipped"] = missing
