"""C14 - Compiled contracts behave like the Go source (PARTIAL claim: specification-based differential checking on a
grammar-generated program space; second clause on generated programs and the repository's own contracts).

Model: spec/gosem/GoSubset.tla (abstract syntax of the claimed subset of the dialect + the exclusion register),
GoSem.tla (executable big-step semantics = what the Go specification says; total: ok | panic | out-of-scope),
GoLaws.tla (algebraic laws of Go as a second statement of the semantics; seven named deviations must be refuted),
GoEnum.tla (EXHAUSTIVE small space: expressions of depth <= 2, statement skeletons of depth <= 2),
GoGen.tla (SAMPLED large space: programs built by derivation steps chosen by TLC, type directed),
AbiMatches.tla (second clause: manifest / debug information / decoded instruction stream / source / calls; trace validation).
Real code: pkg/compiler + pkg/vm against the standard Go toolchain on the SAME source text (harness/c14compile).
Verdict oracle: the Go toolchain.  GoSem vs toolchain disagreement = drift `spec_vs_go` (a defect of the specification)."""
import concurrent.futures
import copy
import glob
import hashlib
import json
import os
import random
import re
import shutil

import vlib

RULE = ("cases = (program, function, argument vector) triples: programs are abstract syntax trees that TLC built (all expressions of "
        "depth <= 2 over two variables and the operator set in the thorough tier / every 8th in the quick tier, all statement "
        "skeletons of depth <= 2, programs derived step by step by tlc -simulate), rendered to Go source text, compiled by the "
        "neo-go compiler and run in the real VM through the manifest entry AND compiled by the standard Go toolchain and run "
        "natively; a case counts when the executable specification GoSem claims it (does not answer out-of-scope) and both sides "
        "answered; the comparison VM vs toolchain of the whole result value / panic is the verdict, GoSem vs toolchain is recorded "
        "as drift; distinct = distinct (source text, function, arguments); additionally one record of manifest / debug / "
        "instruction-stream facts per compiled program (generated, dialect probes, repository contracts) judged by AbiMatches.tla")

SPEC = "gosem"

# named deviation of GoSem -> the law of GoLaws.tla that must be reported violated
DEVIATIONS = {"floordiv": "divmod", "noshort": "short", "rangefrom1": "range", "postskip": "continue", "subswap": "opasg",
              "ftdrop": "fall", "deferearly": "defer"}

# Register of dialect differences that docs/compiler.md does not document (exclusion register U1..U12 of GoSubset.tla):
# each is EXCLUDED from the generated program space and kept here as a minimal probe.  A probe on which the compiled code
# still differs from the Go toolchain is raised with the stable signature {part: dialect-probe, construct: <name>, kind}.
DIALECT_PROBES = [
    {"name": "map-index-missing-key", "func": "F", "args": [[2]],
     "src": "package p\n\nfunc F(k int) int {\n\tm := map[int]int{1: 10}\n\treturn m[k]\n}\n"},
    {"name": "nil-map-read", "func": "F", "args": [[1]],
     "src": "package p\n\nfunc F(k int) int {\n\tvar m map[int]int\n\treturn m[k]\n}\n"},
    {"name": "struct-assignment-aliases", "func": "F", "args": [[1]],
     "src": "package p\n\ntype S struct {\n\tA int\n}\n\nfunc F(a int) int {\n\ts := S{a}\n\tu := s\n\tu.A = 7\n\treturn s.A\n}\n"},
    {"name": "struct-element-read-aliases", "func": "F", "args": [[1]],
     "src": "package p\n\ntype S struct {\n\tA int\n}\n\nfunc F(a int) int {\n\tl := []S{{a}}\n\tx := l[0]\n\tx.A = 50\n\treturn l[0].A\n}\n"},
    {"name": "struct-range-value-aliases", "func": "F", "args": [[1]],
     "src": "package p\n\ntype S struct {\n\tA int\n}\n\nfunc F(a int) int {\n\tl := []S{{a}}\n\tfor _, x := range l {\n\t\tx.A = 0\n\t}\n\treturn l[0].A\n}\n"},
    {"name": "struct-value-receiver-aliases", "func": "F", "args": [[1]],
     "src": "package p\n\ntype S struct {\n\tA int\n}\n\nfunc (s S) Set(v int) {\n\ts.A = v\n}\n\nfunc F(a int) int {\n\ts := S{a}\n\ts.Set(5)\n\treturn s.A\n}\n"},
    {"name": "global-initialisation-order", "func": "F", "args": [[]],
     "src": "package p\n\nvar late = early + 1\nvar early = 10\n\nfunc F() int {\n\treturn late\n}\n"},
    {"name": "defer-arguments-evaluated-late", "func": "F", "args": [[1]],
     "src": "package p\n\nvar g int\n\nfunc setg(v int) {\n\tg = v\n}\n\nfunc d(a int) {\n\tx := a\n\tdefer setg(x)\n\tx = 100\n}\n\nfunc F(a int) int {\n\td(a)\n\treturn g\n}\n"},
    {"name": "defer-in-loop", "func": "F", "args": [[3]],
     "src": "package p\n\nvar g int\n\nfunc tick() {\n\tg++\n}\n\nfunc d(n int) {\n\tfor i := 0; i < n; i++ {\n\t\tdefer tick()\n\t}\n}\n\nfunc F(n int) int {\n\td(n)\n\treturn g\n}\n"},
    {"name": "defer-without-recover-swallows-panic", "func": "F", "args": [[]],
     "src": "package p\n\nvar g int\n\nfunc inner() {\n\tdefer func() {\n\t\tg = 1\n\t}()\n\tpanic(\"x\")\n}\n\nfunc F() int {\n\tinner()\n\treturn 5\n}\n"},
    {"name": "recover-with-named-result", "func": "F", "args": [[0]],
     "src": "package p\n\nfunc r(a int) (x int) {\n\tdefer func() {\n\t\trecover()\n\t}()\n\tx = 5\n\tif a == 0 {\n\t\tpanic(\"z\")\n\t}\n\tx = 6\n\treturn x\n}\n\nfunc F(a int) int {\n\treturn r(a)\n}\n"},
    {"name": "recover-of-runtime-error", "func": "F", "args": [[0]],
     "src": "package p\n\nfunc d(a int) int {\n\tdefer func() {\n\t\trecover()\n\t}()\n\tq := 10 / a\n\treturn q\n}\n\nfunc F(a int) int {\n\treturn d(a) + 1\n}\n"},
    {"name": "recovered-panic-inside-range-leaks-stack", "func": "F", "args": [[]],
     "src": "package p\n\nfunc w(xs []int) int {\n\tdefer func() {\n\t\trecover()\n\t}()\n\tfor range xs {\n\t\tpanic(\"x\")\n\t}\n\treturn 1\n}\n\nfunc F() int {\n\treturn w([]int{1}) + 5\n}\n"},
    {"name": "recovered-panic-inside-switch-leaks-stack", "func": "F", "args": [[1]],
     "src": "package p\n\nfunc w(a int) int {\n\tdefer func() {\n\t\trecover()\n\t}()\n\tswitch a {\n\tcase 1:\n\t\tpanic(\"x\")\n\t}\n\treturn 1\n}\n\nfunc F(a int) int {\n\treturn w(a) + 5\n}\n"},
    {"name": "return-values-evaluated-right-to-left", "func": "F", "args": [[]],
     "src": "package p\n\ntype S struct {\n\tA int\n\tB int\n}\n\nvar g int\n\nfunc a() int {\n\tg = g*10 + 1\n\treturn 1\n}\n\nfunc b() int {\n\tg = g*10 + 2\n\treturn 2\n}\n\nfunc two() (int, int) {\n\treturn a(), b()\n}\n\nfunc F() int {\n\tx, y := two()\n\treturn g*100 + x*10 + y\n}\n"},
    {"name": "slice-literal-evaluated-right-to-left", "func": "F", "args": [[]],
     "src": "package p\n\ntype S struct {\n\tA int\n\tB int\n}\n\nvar g int\n\nfunc a() int {\n\tg = g*10 + 1\n\treturn 1\n}\n\nfunc b() int {\n\tg = g*10 + 2\n\treturn 2\n}\n\nfunc F() int {\n\ts := []int{a(), b()}\n\treturn g*100 + s[0]*10 + s[1]\n}\n"},
    {"name": "struct-literal-evaluated-right-to-left", "func": "F", "args": [[]],
     "src": "package p\n\ntype S struct {\n\tA int\n\tB int\n}\n\nvar g int\n\nfunc a() int {\n\tg = g*10 + 1\n\treturn 1\n}\n\nfunc b() int {\n\tg = g*10 + 2\n\treturn 2\n}\n\nfunc F() int {\n\ts := S{a(), b()}\n\treturn g*100 + s.A*10 + s.B\n}\n"},
    {"name": "map-literal-value-evaluated-before-key", "func": "F", "args": [[]],
     "src": "package p\n\ntype S struct {\n\tA int\n\tB int\n}\n\nvar g int\n\nfunc a() int {\n\tg = g*10 + 1\n\treturn 1\n}\n\nfunc b() int {\n\tg = g*10 + 2\n\treturn 2\n}\n\nfunc F() int {\n\tm := map[int]int{a(): b()}\n\treturn g*100 + len(m)\n}\n"},
    {"name": "element-assignment-evaluates-value-before-index", "func": "F", "args": [[]],
     "src": "package p\n\ntype S struct {\n\tA int\n\tB int\n}\n\nvar g int\n\nfunc a() int {\n\tg = g*10 + 1\n\treturn 1\n}\n\nfunc b() int {\n\tg = g*10 + 2\n\treturn 2\n}\n\nfunc F() int {\n\ts := []int{7, 8, 9}\n\ts[a()] = b()\n\treturn g*100 + s[1]\n}\n"},
    {"name": "append-modifies-operand", "func": "F", "args": [[3]],
     "src": "package p\n\nfunc F(x int) int {\n\ts := []int{1, 2}\n\tt := append(s, x)\n\tt[0] = 9\n\treturn s[0]*10 + len(s)\n}\n"},
    {"name": "byte-subslice-copies", "func": "F", "args": [[]],
     "src": "package p\n\nfunc F() int {\n\tb := []byte{1, 2, 3}\n\tc := b[1:]\n\tc[0] = 9\n\treturn int(b[1])\n}\n"},
    {"name": "string-ordering", "func": "F", "args": [["ab", "ba"]],
     "src": "package p\n\nfunc F(a string, b string) bool {\n\treturn a < b\n}\n"},
    {"name": "function-value-of-named-function", "func": "F", "args": [[1]],
     "src": "package p\n\nfunc f(n int) int {\n\treturn n + 1\n}\n\nfunc F(a int) int {\n\tg := f\n\treturn g(a)\n}\n"},
    {"name": "switch-early-default-fallthrough-target", "func": "F", "args": [[0]],
     "src": "package p\n\nfunc F(a int) int {\n\ts := 0\n\tswitch a {\n\tcase 0:\n\t\ts += 1\n\t\tfallthrough\n\tdefault:\n\t\ts += 10\n\tcase 2:\n\t\ts += 100\n\t}\n\treturn s\n}\n"},
    {"name": "switch-early-default-case-order", "func": "F", "args": [[2]],
     "src": "package p\n\nfunc F(a int) int {\n\tswitch {\n\tdefault:\n\t\treturn 0\n\tcase a > 0:\n\t\treturn 1\n\tcase a > 1:\n\t\treturn 2\n\t}\n}\n"},
    {"name": "switch-early-default-with-fallthrough", "func": "F", "args": [[5]],
     "src": "package p\n\nfunc F(a int) int {\n\ts := 0\n\tswitch a {\n\tcase 5:\n\t\ts += 1\n\tdefault:\n\t\ts += 10\n\t\tfallthrough\n\tcase 7:\n\t\ts += 100\n\t}\n\treturn s\n}\n"},
    # repaired by a86edd2 (a global used only in one of these positions was taken for unused, its initialisation dropped)
    {"name": "global-used-only-as-map-literal-key", "func": "F", "args": [[]],
     "src": "package p\n\nvar k = 5\n\nfunc F() int {\n\tm := map[int]int{k: 7}\n\treturn m[5]\n}\n"},
    {"name": "global-used-only-as-defer-argument", "func": "F", "args": [[]],
     "src": "package p\n\nvar g = 9\n\nvar out int\n\nfunc set(x int) {\n\tout = x\n}\n\nfunc f() {\n\tdefer set(g)\n}\n\nfunc F() int {\n\tf()\n\treturn out\n}\n"},
    {"name": "global-used-only-under-an-index", "func": "F", "args": [[]],
     "src": "package p\n\ntype T struct {\n\tX int\n}\n\nvar gs = []T{{X: 4}}\n\nfunc F() int {\n\treturn gs[0].X\n}\n"},
    {"name": "goto-ignored", "func": "F", "args": [[1]],
     "src": "package p\n\nfunc F(a int) int {\n\tif a > 0 {\n\t\tgoto end\n\t}\n\ta = 5\nend:\n\treturn a\n}\n"},
    {"name": "closure-compiles-silently", "func": "F", "args": [[1]],
     "src": "package p\n\nfunc F(a int) int {\n\tx := a\n\tf := func() int {\n\t\treturn x + 1\n\t}\n\treturn f()\n}\n"},
    {"name": "debug-sequence-points-shared-by-name", "func": "F", "args": [[]], "abi": True,
     "src": "package p\n\ntype T struct {\n\tA int\n}\n\nfunc (t *T) Get() int {\n\treturn t.A\n}\n\nfunc Get() int {\n\tx := 2\n\treturn x\n}\n\nfunc F() int {\n\tt := &T{1}\n\treturn Get() + t.Get()\n}\n"},
]


def set_consts(path, **kv):
    s = open(path).read()
    for k, v in kv.items():
        s, n = re.subn(r"(?m)^(\s*%s\s*=\s*)\S+\s*$" % k, r"\g<1>%s" % v, s)
        if n != 1:
            raise vlib.Inconclusive("cannot set constant %s in %s" % (k, path))
    open(path, "w").write(s)


def parse_marked(out, marker):
    cases = []
    for line in out.splitlines():
        i = line.find(marker)
        if i < 0:
            continue
        js = vlib.extract_tla_string(line[i + len(marker):])
        if js is not None:
            cases.append(json.loads(js))
    return cases


def corpus_dirs(ctx):
    """Copies of the repository's own contracts that compile stand-alone (own go.mod), inside the scratch directory:
    the compiler runs `go list` in the directory, nothing of the repository may be touched."""
    out = []
    dst = os.path.join(ctx.work, "corpus")
    os.makedirs(dst, exist_ok=True)
    srcs = sorted(glob.glob(os.path.join(vlib.REPO, "examples", "*"))) + sorted(glob.glob(os.path.join(vlib.REPO, "internal", "contracts", "*")))
    for d in srcs:
        if not os.path.isdir(d) or not os.path.exists(os.path.join(d, "go.mod")) or os.path.basename(d) == "zkp":
            continue
        t = os.path.join(dst, os.path.basename(d))
        if not os.path.exists(t):
            shutil.copytree(d, t)
        out.append(t)
    return out


def model_stage(ctx, d, workers):
    q = ctx.quick()
    set_consts(os.path.join(d, "MC_GoLaws.cfg"), RngN=4 if q else 7)
    ctx.tlc_mc(SPEC, "GoLaws.tla", "MC_GoLaws.cfg", timeout=900, workers=workers)

    def deviation(bug):
        cfg = "MC_GoLawsBug_%s.cfg" % bug
        shutil.copy(os.path.join(d, "MC_GoLawsBug.cfg"), os.path.join(d, cfg))
        set_consts(os.path.join(d, cfg), Bug='"%s"' % bug)
        r = ctx.tlc(d, "GoLaws.tla", cfg, 600, workers=2, tag="dev-" + bug)
        laws = set(re.findall(r'"@@LAW@@", "(\w+)"', r["out"]))
        return bug, r, laws

    with concurrent.futures.ThreadPoolExecutor(max_workers=4) as ex:
        for bug, r, laws in ex.map(deviation, sorted(DEVIATIONS)):
            if r["timed_out"]:
                raise vlib.Inconclusive("TLC timed out on the named deviation %s" % bug)
            if "Invariant AllLaws is violated" not in r["out"] or DEVIATIONS[bug] not in laws:
                raise vlib.Inconclusive("named deviation %s of the evaluator is not refuted by the law '%s' (vacuous oracle): %s"
                                        % (bug, DEVIATIONS[bug], vlib.tail(r["out"], 12)))
            ctx.extra["model_selftests"] = ctx.extra.get("model_selftests", 0) + 1


def generate(ctx, d, workers):
    q = ctx.quick()
    # exhaustive small space
    cfg = "Enum_quick.cfg" if q else "Enum_thorough.cfg"
    set_consts(os.path.join(d, cfg), Seed=ctx.seed)
    cases = ctx.tlc_dump(SPEC, "GoEnum.tla", cfg, timeout=1200 if q else 6000, workers=workers)
    cases.sort(key=lambda c: c["id"])
    if len(set(c["id"] for c in cases)) != len(cases):
        raise vlib.Inconclusive("enumeration printed duplicate case ids")
    ctx.extra["programs_enumerated"] = len(cases)
    ctx.extra["expression_functions_enumerated"] = sum(len(c["prog"]["funcs"]) for c in cases if c["fam"] == "expr")
    ctx.extra["statement_skeletons_enumerated"] = sum(1 for c in cases if c["fam"] == "skel")

    # sampled large space: several simulations side by side, seeds derived from VERIF_SEED
    depth = 260
    nproc, num = (4, 250) if q else (8, 1600)
    set_consts(os.path.join(d, "Sim_gen.cfg"), Depth=depth)

    def sim(k):
        seed = ctx.seed * 1000 + k
        r = ctx.tlc(d, "GoGen.tla", "Sim_gen.cfg", 900 if q else 5000, workers=1,
                    extra=["-simulate", "num=%d" % num, "-depth", str(depth + 5), "-seed", str(seed)], tag="sim-gen-%d" % k)
        got = parse_marked(r["out"], "@@HIST@@")
        if not got:
            raise vlib.Inconclusive("generation by simulation failed: %s\n%s" % (r["error"], vlib.tail(r["out"], 20)))
        return k, got

    seen = set()
    gen = []
    with concurrent.futures.ThreadPoolExecutor(max_workers=nproc) as ex:
        for k, got in sorted(ex.map(sim, range(nproc))):
            for i, c in enumerate(got):
                h = hashlib.sha1(json.dumps(c["prog"], sort_keys=True).encode()).hexdigest()
                if h in seen:
                    continue
                seen.add(h)
                c["id"] = "g%d_%d" % (k, i)
                gen.append(c)
    ctx.extra["programs_generated"] = len(gen)
    ctx.extra["derivation_steps_per_program"] = depth
    # the simulations explored states too (derivation steps)
    m = [x for x in ctx.models if x.get("cfg") == "Sim_gen.cfg"]
    return cases + gen


def verdicts(c):
    return [r["res"][0] for r in c["runs"]]


def run(ctx):
    q = ctx.quick()
    d = ctx.spec_scratch(SPEC)
    workers = min(ctx.ncpu, 8 if q else 16)

    # 1. model stage: the evaluator against the algebraic laws; every named deviation refuted
    model_stage(ctx, d, workers)

    # 2. generation (TLC): exhaustive small space + sampled large space, each with GoSem's verdicts
    cases = generate(ctx, d, workers)
    tot = {}
    for c in cases:
        for v in verdicts(c):
            tot[v] = tot.get(v, 0) + 1
    ctx.extra["spec_verdicts"] = tot
    if tot.get("ok", 0) < 1000 or tot.get("panic", 0) < 50:
        raise vlib.Inconclusive("generation is vacuous: specification verdicts %s" % tot)

    ind = os.path.join(ctx.work, "in-c14")
    os.makedirs(ind)
    with open(os.path.join(ind, "cases.ndjson"), "w") as f:
        for c in cases:
            f.write(json.dumps(c) + "\n")
    json.dump(DIALECT_PROBES, open(os.path.join(ind, "probes.json"), "w"))
    json.dump(corpus_dirs(ctx), open(os.path.join(ind, "corpus.json"), "w"))

    # 3. binding: both compilers, both machines
    res = ctx.go_driver("c14compile", "TestDriver", env={"VERIF_IN": ind, "C14_MINIMISE": 2 if q else 8}, timeout=1500 if q else 5000)
    ctx.absorb(res)
    st = res.get("stats") or {}
    hard = [v for v in res.get("violations") or [] if (v.get("signature") or {}).get("part") != "dialect-probe"]
    if hard:
        # the compiler under test breaks programs of the claimed subset: the verdict stands on these violations
        ctx.extra["refusals_by_reason"] = st.get("refusals_by_reason")
        return
    if st.get("gen_type_errors", 0) > len(cases) // 50:
        raise vlib.Inconclusive("too many generated programs are rejected by the Go type checker: %d" % st["gen_type_errors"])
    if st.get("programs_compiled", 0) < len(cases) * 0.9:
        raise vlib.Inconclusive("the compiler under test refused %d of %d generated programs: %s"
                                % (len(cases) - st.get("programs_compiled", 0), len(cases), st.get("refusals_by_reason")))
    if st.get("reference_no_answer", 0) > 20:
        raise vlib.Inconclusive("the Go toolchain side gave no answer for %d cases" % st["reference_no_answer"])

    # 4. second clause: facts of every compiled program judged by AbiMatches
    abi = os.path.join(res["_out"], "abi.ndjson")
    events = vlib.read_ndjson(abi)
    if len(events) < 50:
        raise vlib.Inconclusive("only %d programs left facts for the second clause" % len(events))
    fails = ctx.trace_judge(SPEC, "AbiMatches.tla", "Trace_abi.cfg", abi, timeout=1800)
    ctx.traces_validated += len(events)
    ctx.extra["abi_records"] = {k: sum(1 for e in events if e["kind"] == k) for k in ("gen", "probe", "corpus")}
    probe_names = {"probe_" + p["name"].replace("-", "_"): p["name"] for p in DIALECT_PROBES}
    for f in fails:
        e = events[f["line"] - 1]
        for pred in f["what"]:
            if pred.startswith("harness:"):
                raise vlib.Inconclusive("the recorded facts are malformed (%s) at line %d" % (pred, f["line"]))
            if e["kind"] == "probe":
                sig = {"part": "dialect-probe", "construct": probe_names.get(e["prog"], e["prog"]), "kind": "abi:" + pred}
            elif e["kind"] == "corpus":
                sig = {"part": "abi", "pred": pred, "prog": e["prog"]}
            else:
                sig = {"part": "abi", "pred": pred, "prog": "generated"}
            ctx.violation(sig, {"what": "manifest / debug information does not describe the bytecode: " + pred, "program": e["prog"],
                                "manifest": e["manifest"], "debug": [{k: v for k, v in dm.items() if k != "seq"} for dm in e["debug"]][:12],
                                "initslots": e["initslots"][:40]})

    # 5. self-tests of the binding (on programs and records that were judged good in this run; when the compiler under test
    #    breaks generated programs wholesale there is no good material and the verdict stands on the violations)
    broken = st.get("failing_programs", 0)
    if broken * 20 <= len(cases):
        failed_ids = set((v.get("replay") or {}).get("id") for v in res.get("violations") or [])
        selftest_diff(ctx, [c for c in cases if c["id"] not in failed_ids], strict=broken == 0)
    bad_lines = set(f["line"] for f in fails)
    good_abi = [e for i, e in enumerate(events) if e["kind"] == "gen" and i + 1 not in bad_lines]
    if len(good_abi) >= 40:
        selftest_abi(ctx, good_abi)
    if not ctx.samples:
        ctx.samples.append({"cases": len(cases)})


def selftest_diff(ctx, cases, strict=True):
    """The compiler under test gets skeleton programs whose initial marker was changed (s := 2 instead of 1) while the Go
    toolchain gets the originals: the comparison must flag every case whose reference result is not a panic, and none of the
    untouched control programs."""
    rnd = random.Random(ctx.seed * 13 + 5)
    # (the deferred variants are left out: a recovered panic makes the result independent of the marker)
    sk = [c for c in cases if c["fam"] == "skel" and c["id"].startswith("k")]
    rnd.shuffle(sk)
    bad = [dict(copy.deepcopy(c), alter=True) for c in sk[:40]]
    good = [copy.deepcopy(c) for c in sk[40:60]]
    ind = os.path.join(ctx.work, "in-c14-selftest")
    os.makedirs(ind)
    with open(os.path.join(ind, "cases.ndjson"), "w") as f:
        for c in bad + good:
            f.write(json.dumps(c) + "\n")
    res = ctx.go_driver("c14compile", "TestDriver", env={"VERIF_IN": ind, "C14_SELFTEST": 1}, timeout=900)
    st = res.get("stats") or {}
    flagged = set(st.get("flagged") or [])
    nonpanic = set(st.get("nonpanic") or [])
    badids = set(c["id"] for c in bad)
    must = set(k for k in nonpanic if k.rsplit(":", 1)[0] in badids)
    missed = sorted(must - flagged)
    false_pos = sorted(k for k in flagged if k.rsplit(":", 1)[0] not in badids)
    if not strict:
        false_pos = []      # some generated programs fail in this run: a control program may be one of the broken ones
    if missed or false_pos or len(must) < 60:
        raise vlib.Inconclusive("binding self-test failed: %d altered cases not flagged (%s), %d untouched cases flagged (%s), %d altered cases in all"
                                % (len(missed), missed[:5], len(false_pos), false_pos[:5], len(must)))
    ctx.extra["binding_selftests"] = len(must)


def selftest_abi(ctx, good):
    """One field of a good record corrupted: AbiMatches must reject every corrupted record and accept the untouched ones."""
    rnd = random.Random(ctx.seed * 17 + 3)
    rnd.shuffle(good)
    pool = [e for e in good if len(e["manifest"]) >= 2 and e["initslots"]][:24]
    if len(pool) < 12:
        raise vlib.Inconclusive("not enough good ABI records for the self-test")
    kinds = ["offset+1", "np+1", "drop-init", "debug-start", "seq-outside", "rename", "rtype", "underflow"]
    out, expect = [], []
    for i, e in enumerate(pool):
        e = copy.deepcopy(e)
        k = kinds[i % len(kinds)]
        ms = [m for m in e["manifest"] if not m["name"].startswith("_")]
        m = ms[0]
        if k == "offset+1":
            m["offset"] += 1
        elif k == "np+1":
            m["np"] += 1
            m["ptypes"].append("Integer")
        elif k == "drop-init":
            if not any(x["name"] == "_initialize" for x in e["manifest"]):
                k = "offset+1"
                m["offset"] += 1
            else:
                e["manifest"] = [x for x in e["manifest"] if x["name"] != "_initialize"]
        elif k == "debug-start":
            dm = [x for x in e["debug"] if x["name"] == m["name"]][0]
            dm["start"] += 1
        elif k == "seq-outside":
            dm = [x for x in e["debug"] if x["name"] == m["name"]][0]
            dm["seq"].append(e["codelen"] + 3)
        elif k == "rename":
            m["name"] = m["name"] + "x"
        elif k == "rtype":
            m["rtype"] = "Boolean" if m["rtype"] != "Boolean" else "Integer"
        elif k == "underflow":
            e["calls"] = (e["calls"] or []) + [{"name": m["name"], "np": m["np"], "nres": 1, "halt": False, "underflow": True, "depth": 0}]
        out.append(e)
        expect.append(k)
    ctrl = [copy.deepcopy(e) for e in good[24:36]]
    path = os.path.join(ctx.work, "abi-selftest.ndjson")
    vlib.write_ndjson(path, out + ctrl)
    fails = ctx.trace_judge(SPEC, "AbiMatches.tla", "Trace_abi.cfg", path, timeout=900)
    lines = set(f["line"] for f in fails)
    missed = [expect[i] for i in range(len(out)) if i + 1 not in lines]
    false_pos = [l for l in lines if l > len(out)]
    if missed or false_pos:
        raise vlib.Inconclusive("ABI self-test failed: corrupted records accepted %s, untouched records rejected %s" % (missed, false_pos))
    ctx.extra["abi_selftests"] = len(out)
