"""Extension of C04 (with the clauses of C06 and C01 about the same objects) - the node's EVENT STREAM: what core.Blockchain
delivers to subscribers (blocks, headers of added blocks, transactions, notifications, executions) and what the node's memory
pool delivers (added / removed), as a function of the accepted blocks.

Model: spec/events   Events.tla          abstract judge: the stream of a block (OnPersist execution, its notifications; per
                                         transaction: execution, notifications iff HALT, transaction; PostPersist execution,
                                         its notifications; header; block), chain order, roles of a subscriber during a step
                                         (steady / idle / join / leave), stored == delivered, announced after commit, mempool
                                         event laws
                     EventsImpl.tla      dispatcher-shaped model (storeBlock -> bc.events, one action per select branch, fan-out
                                         item by item, unsubscription loop discarding its own queue); deviations TLC must refute:
                                         notifications of faulted executions, block event first, event before commit with a late
                                         failure, unsubscription draining the shared queue
                     PoolEventsImpl.tla  events of mempool.Pool (Add with conflict replacement / eviction, RemoveStale);
                                         deviations: eviction silent, RemoveStale silent, duplicate Add announces again
                     EventsSim.tla       schedule generator (subscribe / unsubscribe / add / headers only / rejected offers / pool /
                                         gated episodes)
                     EventsTrace.tla     judges the recorded traces of real nodes with the predicates of Events.tla
Real code: harness/c04events - real core.Blockchains fed with histgen histories (faults after notifications, try/catch around a
failing callee, NEP-17 transfers, deployments, oracle traffic), real subscriptions; a serial observer (five unbuffered channels,
one reader) sees the dispatcher's total order; a gate (unbuffered execution subscriber) parks the dispatcher inside a block's
fan-out while Subscribe / Unsubscribe / a second AddBlock run.

Call from the registered check of C04:   ext = load('c04_events'); ext.run_ext(ctx)
Violations carry "part": "events" and "kind": Order | ExactlyOnce | FaultedNotificationDelivered | RejectedBlockEvent |
StoredDisagrees | MempoolEvents | SubscriptionWindow.  Predicates named "i:..." are informational (drift)."""
import json
import os
import random
from concurrent.futures import ThreadPoolExecutor

import vlib

PART = "events"
SUB = "events"
PRIORITY = ["FaultedNotificationDelivered", "RejectedBlockEvent", "StoredDisagrees", "SubscriptionWindow", "ExactlyOnce", "Order",
            "MempoolEvents"]
# named deviation -> invariant that must refute it
DEVIATIONS = [
    ("MCEvents.tla", "MC_bug_faultnotes.cfg", "StreamPrefix"),
    ("MCEvents.tla", "MC_bug_blockfirst.cfg", "StreamPrefix"),
    ("MCEvents.tla", "MC_bug_earlyevent.cfg", "StreamPrefix"),
    ("MCEvents.tla", "MC_bug_unsubdrain.cfg", "QuiescentComplete"),
    ("MCPool.tla", "MC_Pool_bug_evict.cfg", "PoolMatches"),
    ("MCPool.tla", "MC_Pool_bug_stale.cfg", "PoolMatches"),
    ("MCPool.tla", "MC_Pool_bug_dup.cfg", "Alternation"),
]
CHUNK = 2500   # trace lines per TLC validation run
# coverage the driver must report (vacuity guard)
REACH = ("events_faulted_executions_with_notifications", "events_rejected_late", "events_rejected_resealed", "events_rejected_badsig",
         "events_rejected_badmerkle", "events_rejected_dup", "events_rejected_future", "events_pool_evictions", "events_pool_refusals",
         "events_pooled_transactions_of_accepted_blocks", "events_episodes_second_block_and_leaver", "events_episode_joiners_served")


def model_stage(ctx):
    q = ctx.quick()
    ctx.spec_scratch(SUB)
    good = [("MCEvents.tla", "MC_Aq.cfg"), ("MCEvents.tla", "MC_Bq.cfg"), ("MCPool.tla", "MC_Pool.cfg")]
    if not q:
        good += [("MCEvents.tla", "MC_A.cfg"), ("MCEvents.tla", "MC_B.cfg"), ("MCEvents.tla", "MC_C.cfg")]

    def run_good(mc):
        ctx.tlc_mc(SUB, mc[0], mc[1], timeout=1200, workers=2 if q else 4)

    def run_dev(d):
        try:
            ctx.tlc_mc(SUB, d[0], d[1], timeout=600, workers=1)
        except vlib.ModelError as e:
            out = (e.res or {}).get("out", "")
            if "Invariant %s is violated" % d[2] not in out:
                raise vlib.Inconclusive("deviation %s: TLC stopped for another reason than invariant %s: %s" % (d[1], d[2], e))
            return True
        raise vlib.Inconclusive("deviation %s not detected by the model invariants (vacuous model)" % d[1])

    with ThreadPoolExecutor(max_workers=4) as ex:
        fg = [ex.submit(run_good, m) for m in good]
        fd = [ex.submit(run_dev, d) for d in DEVIATIONS]
        for f in fg:
            f.result()
        st, tr = ctx.states, ctx.transitions
        n = sum(1 for f in fd if f.result())
    ctx.states, ctx.transitions = st, tr
    ctx.extra["events_model_selftests"] = n


def generation_stage(ctx):
    q = ctx.quick()
    rnd = random.Random(ctx.seed)
    worlds = []
    per_world = 10 if q else 20
    for i, (cfg, srih) in enumerate((("Sim_plain.cfg", False), ("Sim_srih.cfg", True))):
        hs = ctx.tlc_sim(SUB, "EventsSim.tla", cfg, num=60 if q else 700, depth=22, timeout=300 if q else 1200, seed=ctx.seed * 10 + i)
        seen, uniq = set(), []
        for h in hs:
            k = json.dumps(h, sort_keys=True)
            if k not in seen:
                seen.add(k)
                uniq.append(h)
        rnd.shuffle(uniq)
        # schedules that end in a terminal rejection are rare in uniform simulation: keep all of them first
        term = [h for h in uniq if any(o.get("kind") in ("late", "resealed") for o in h)]
        rest = [h for h in uniq if h not in term]
        want = 40 if q else 1000
        pick = term[: want // 3] + rest
        pick = pick[:want]
        rnd.shuffle(pick)
        for j in range(0, len(pick), per_world):
            worlds.append({"srih": srih, "nblocks": 12, "runs": pick[j:j + per_world]})
    if not worlds:
        raise vlib.Inconclusive("no schedules generated by EventsSim")
    ctx.extra["events_tlc_schedules"] = sum(len(w["runs"]) for w in worlds)
    return worlds


def primary(names):
    for p in PRIORITY:
        if p in names:
            return p
    return sorted(names)[0]


def split_trace(ctx, path):
    """Cut the recorded trace into files of about CHUNK lines at `init` lines (streaming: a thorough trace has ~10^5 lines)."""
    chunks, cur, n, total = [], None, 0, 0
    with open(path) as f:
        for line in f:
            if not line.strip():
                continue
            if '"event":"init"' in line and (cur is None or n >= CHUNK):
                if cur:
                    cur.close()
                p = os.path.join(ctx.work, "trace-chunk-%d.ndjson" % len(chunks))
                chunks.append(p)
                cur, n = open(p, "w"), 0
            if cur is None:
                raise vlib.Inconclusive("trace does not start with an init line")
            cur.write(line)
            n += 1
            total += 1
    if cur:
        cur.close()
    return chunks, total


def run_ext(ctx):
    q = ctx.quick()
    # 1. exhaustive: Impl => Abstract; the named deviations are refuted
    model_stage(ctx)
    # 2. schedules
    worlds = generation_stage(ctx)
    ind = os.path.join(ctx.work, "in-c04events")
    os.makedirs(ind, exist_ok=True)
    json.dump(worlds, open(os.path.join(ind, "schedules.json"), "w"))
    # 3. real code
    env = {"VERIF_IN": ind, "VERIF_RANDOM_WORLDS": 4 if q else 40, "VERIF_RANDOM_RUNS": 8 if q else 12,
           "VERIF_RANDOM_BLOCKS": 30 if q else 40, "VERIF_RANDOM_LEN": 60 if q else 90}
    res = ctx.go_driver("c04events", "TestDriver", env=env, timeout=3000)
    ctx.absorb(res)
    if res.get("stats", {}).get("events_runs_failed"):
        raise vlib.Inconclusive("%s runs could not be executed: %s" % (res["stats"]["events_runs_failed"], (res.get("drift") or [None])[0]))
    # the situations the judged predicates are about must have occurred (a run that never saw them proves nothing)
    st = res.get("stats", {})
    for need in REACH:
        if not st.get(need):
            raise vlib.Inconclusive("the driver never reached: %s (stats %s)" % (need, {k: v for k, v in st.items() if k != "events_histgen"}))
    # 4. TLC judges the recorded traces against the abstract specification
    trace = os.path.join(res["_out"], "trace.ndjson")
    chunks, total = split_trace(ctx, trace)
    ctx.extra["events_trace_lines"] = total
    ctx.traces_validated += res.get("traces", 0)
    info = {}
    judged_fail = False
    for cp in chunks:
        fails = ctx.trace_judge(SUB, "EventsTrace.tla", "Trace_Events.cfg", cp, timeout=3000)
        if not fails:
            continue
        events = vlib.read_ndjson(cp)
        start, starts = 0, []
        for i, e in enumerate(events):
            if e["event"] == "init":
                start = i
            starts.append(start)
        for f in fails:
            li = f["line"] - 1
            ev = events[li]
            c = f.get("ctx") or {}
            for w in f["what"]:
                if w.startswith("i:"):
                    info[w] = info.get(w, 0) + 1
                    if len(ctx.spec_drift) < 20:
                        ctx.spec_drift.append({"part": PART, "informational": w, "run": ev.get("run"), "event": ev["event"]})
            sigs = []
            subs = c.get("subs") or []
            if isinstance(subs, dict):
                subs = list(subs.values())
            for s in subs:
                names = [w for w in s["what"] if not w.startswith("i:")]
                if names:
                    k = primary(names)
                    sig = {"part": PART, "kind": k, "stream": "chain", "sub": s["id"][0]}
                    if k == "RejectedBlockEvent":
                        sig["op"] = op_of(ev)
                    if k == "SubscriptionWindow":
                        sig["role"] = s["role"]
                    sigs.append(sig)
            for w in c.get("commit") or []:
                sigs.append({"part": PART, "kind": w, "stream": "chain", "rule": "announced-after-commit"})
            for w in c.get("mp") or []:
                sigs.append({"part": PART, "kind": w, "stream": "mempool", "op": op_of(ev)})
            if not subs and not c.get("commit") and not c.get("mp"):   # init line
                for w in f["what"]:
                    if not w.startswith("i:"):
                        sigs.append({"part": PART, "kind": w, "stream": "init", "op": op_of(ev)})
            for sig in sigs:
                judged_fail = True
                ctx.violation(sig, {"what": "abstract predicate %s false on the real event stream (%s)" % (sig["kind"], op_of(ev)),
                                    "run": ev.get("run"), "fail": c, "step": slim(ev),
                                    "run_so_far": [slim(x, False) for x in events[starts[li]:li]]})
    ctx.extra["events_informational"] = info
    ctx.assumptions.append(
        "event stream: judged are the documented order (docs/notifications.md), exactly-once delivery per accepted block in chain "
        "order, notifications only of HALTed executions, nothing for refused offers / header-only additions, delivered == stored, "
        "announcement after the chain is updated (height sampled by a serial observer at receipt), and the mempool event laws at "
        "quiescent points; NOT judged: the order in which subscribers of one kind are served, whether a subscription taking effect "
        "during a fan-out starts at a block boundary (informational), what a subscriber loses of its OWN queue while its Unsubscribe "
        "call runs (documented); buffered subscriber channels hold 8192 items and are read only at quiescent points (a subscriber "
        "that does not read blocks the dispatcher and AddBlock by design); quiescence = a sentinel subscription (the dispatcher "
        "serves it only after the previous fan-out), never a sleep; which of subscription / unsubscription / next event the "
        "dispatcher's select takes first in an episode is Go's choice - every outcome is judged through the recorded roles; "
        "AppExecResult JSON differs between subscribers (\"notifications\":null) and storage ([]) for executions without "
        "notifications: encoding artefact, compared field by field instead")
    # 5. binding self-test: corrupted good traces must be rejected with the expected kinds
    if not judged_fail:
        selftest(ctx, vlib.read_ndjson(chunks[0]))


def op_of(ev):
    return ev["event"] + (":" + ev["kind"] if ev["event"] in ("rej", "pool") else "")


def slim(ev, full=True):
    """A trace line without the bulk (for replay files)."""
    out = {k: v for k, v in ev.items() if k not in ("got", "blocks", "subs")}
    if full:
        out["got"] = ev.get("got")
        out["blocks"] = ev.get("blocks")
    else:
        out["got_counts"] = {k: len(v) for k, v in (ev.get("got") or {}).items() if v}
    return out


def selftest(ctx, events):
    """Each corruption is applied to a copy of one run (cut right after the corrupted step); all copies go into one file."""
    runs = []
    starts = [i for i, e in enumerate(events) if e["event"] == "init"]
    for a, b in zip(starts, starts[1:] + [len(events)]):
        runs.append(events[a:b])
    done = {}

    def cp(e):
        return json.loads(json.dumps(e))

    for r in [r for r in runs if r[0].get("serial")][:60]:
        for i, e in enumerate(r):
            got = e.get("got") or {}
            if e["event"] == "add":
                b = e["blocks"][0]
                s0 = got["S0"]
                faulted = [x for x in b["execs"] if not x["halt"] and x["n"]]
                if "faultnote" not in done and faulted:
                    bad = cp(e)
                    x = faulted[0]
                    pos = [k for k, it in enumerate(s0) if it["k"] == "E" and it["c"] == x["x"]["c"] and it["d"] == x["x"]["d"]][0]
                    note = dict(x["n"][0], hh=s0[pos]["hh"])
                    bad["got"]["S0"].insert(pos + 1, note)
                    done["faultnote"] = (r, i, bad, "FaultedNotificationDelivered")
                if "order" not in done and len(s0) >= 4 and s0[-1]["k"] == "B" and s0[-2]["k"] == "H":
                    bad = cp(e)
                    g = bad["got"]["S0"]
                    g[-1], g[-2] = g[-2], g[-1]          # block announced before its header
                    done["order"] = (r, i, bad, "Order")
                act = [s for s in e["active"] if got.get(s)]
                if "lost" not in done and act:
                    bad = cp(e)
                    bad["got"][act[0]].pop()
                    done["lost"] = (r, i, bad, "ExactlyOnce")
                if "dup" not in done and act:
                    bad = cp(e)
                    bad["got"][act[0]].append(bad["got"][act[0]][-1])
                    done["dup"] = (r, i, bad, "ExactlyOnce")
                if "digest" not in done:
                    bad = cp(e)
                    k = [k for k, it in enumerate(bad["got"]["S0"]) if it["k"] == "E"][-1]
                    bad["got"]["S0"][k]["d"] = "000000000000"
                    done["digest"] = (r, i, bad, "StoredDisagrees")
                idle = [s for s in ("E1", "N1", "T1", "H1", "B1", "E2", "N2", "T2", "H2", "B2") if s not in e["active"]]
                if "idle" not in done and idle:
                    s = idle[0]
                    items = [it for it in s0 if it["k"] == s[0]]
                    if items:
                        bad = cp(e)
                        bad["got"][s] = [dict(items[0], hh=-1)]
                        done["idle"] = (r, i, bad, "SubscriptionWindow")
                if "early" not in done:
                    bad = cp(e)
                    bad["got"]["S0"][-1]["hh"] = b["h"] - 1   # the block announced before the height was updated
                    done["early"] = (r, i, bad, "Order")
                if "mplost" not in done and any(x["t"] == "removed" for x in e["mp"]["M1"]):
                    bad = cp(e)
                    k = [k for k, x in enumerate(bad["mp"]["M1"]) if x["t"] == "removed"][0]
                    bad["mp"]["M1"].pop(k)
                    if bad["m2on"]:
                        bad["mp"]["M2"].pop(k)
                    done["mplost"] = (r, i, bad, "MempoolEvents")
            elif e["event"] == "rej":
                prev = next((x for x in reversed(r[:i]) if x["event"] == "add"), None)
                if "rejevent" not in done and prev:
                    bad = cp(e)
                    bad["got"]["S0"] = [dict(prev["got"]["S0"][-1])]
                    done["rejevent"] = (r, i, bad, "RejectedBlockEvent")
            elif e["event"] == "pool" and not e["ok"]:
                if "failemit" not in done:
                    bad = cp(e)
                    bad["mp"]["M1"] = [{"t": "added", "tx": e["tx"]}]
                    if bad["m2on"]:
                        bad["mp"]["M2"] = [{"t": "added", "tx": e["tx"]}]
                    done["failemit"] = (r, i, bad, "MempoolEvents")
            elif e["event"] == "epi":
                leave = [s for s, ro in e["roles"].items() if ro == "join" and len(got.get(s) or []) >= 3]
                if "hole" not in done and leave:
                    bad = cp(e)
                    bad["got"][leave[0]].pop(1)        # a joining subscriber with a hole in its stream
                    done["hole"] = (r, i, bad, "SubscriptionWindow")
    need = {"faultnote", "order", "lost", "dup", "digest", "idle", "early", "rejevent", "mplost", "failemit"}
    if not need <= set(done):
        raise vlib.Inconclusive("event-stream self-test could not find places to corrupt the trace (found %s)" % sorted(done))
    segs, expect_at = [], {}
    for name, (r, i, bad, expect) in done.items():
        segs += r[:i] + [bad]
        expect_at[len(segs)] = (name, expect)
    path = os.path.join(ctx.work, "selftest-events.ndjson")
    vlib.write_ndjson(path, segs)
    st, tr = ctx.states, ctx.transitions
    fails = ctx.trace_judge(SUB, "EventsTrace.tla", "Trace_Events.cfg", path, timeout=600)
    ctx.states, ctx.transitions = st, tr
    for line, (name, expect) in expect_at.items():
        hit = [f for f in fails if f["line"] == line]
        if not any(expect in f["what"] for f in hit):
            raise vlib.Inconclusive("event-stream binding self-test %s: corrupted trace was not rejected (%s expected, got %s)" % (
                name, expect, [f["what"] for f in hit]))
        ctx.extra["events_binding_selftests"] = ctx.extra.get("events_binding_selftests", 0) + 1
    stray = [f for f in fails if f["line"] not in expect_at and any(not w.startswith("i:") for w in f["what"])]
    if stray:
        raise vlib.Inconclusive("event-stream self-test: uncorrupted steps were rejected: %s" % stray[:2])
