"""State-synchronisation half of C20 (called from c20.py).  Model: spec/statesync/StateSync.tla; schedules: StateSyncSim;
judge: StateSyncTrace on a real sink node (harness/c20sync) fed by a real source chain."""
import json
import os
import random

import vlib


def run_statesync(ctx):
    q = ctx.quick()
    ctx.tlc_mc("statesync", "MCStateSync.tla", "MC_StateSync.cfg", timeout=600)
    try:
        ctx.tlc_mc("statesync", "MCStateSync.tla", "MC_StateSyncBug.cfg", timeout=300)
        raise vlib.Inconclusive("named deviation BugPoolKeptOnRestart not detected by the StateSync model")
    except vlib.ModelError:
        ctx.extra["statesync_model_selftests"] = 1
    scheds, seen = [], set()
    for h in ctx.tlc_sim("statesync", "StateSyncSim.tla", "Sim_StateSync.cfg", num=60 if q else 600, depth=22, timeout=600,
                         seed=ctx.seed + 7):
        k = json.dumps(h)
        if k not in seen:
            seen.add(k)
            scheds.append(h)
    random.Random(ctx.seed).shuffle(scheds)
    scheds = scheds[: (36 if q else 600)]
    if not scheds:
        raise vlib.Inconclusive("no state-sync schedules")
    ind = os.path.join(ctx.work, "in-c20s")
    os.makedirs(ind, exist_ok=True)
    json.dump(scheds, open(os.path.join(ind, "schedules.json"), "w"))
    res = ctx.go_driver("c20sync", "TestDriver", env={"VERIF_IN": ind}, timeout=3400)
    ctx.absorb(res)
    trace = os.path.join(res["_out"], "trace.ndjson")
    events = vlib.read_ndjson(trace)
    kinds = {}
    for e in events:
        k = e["event"] + (":" + e.get("op", "") if e["event"] == "step" else "")
        kinds[k] = kinds.get(k, 0) + 1
    ctx.extra["statesync_event_kinds"] = kinds
    fails = ctx.trace_judge("statesync", "StateSyncTrace.tla", "Trace_StateSync.cfg", trace, timeout=1200)
    ctx.traces_validated += res.get("traces", 0)
    for f in fails:
        ev = events[f["line"] - 1]
        for w in sorted(f["what"]):
            sig = {"kind": w, "part": "statesync", "op": ev.get("op", ev.get("event"))}
            if ev.get("ground"):
                sig["ground"] = ev["ground"]
            ctx.violation(sig,
                          {"what": "%s false at %s" % (w, ev.get("event")), "event": {k: v for k, v in ev.items() if k != "diff"},
                           "diff": ev.get("diff"), "line": f["line"]})
    if not fails:
        # binding self-test: a corrupted completion record must be rejected
        ev = []
        done = False
        for e in events:
            e = dict(e)
            if e["event"] == "synced" and not done:
                e["storage_ok"] = False
                done = True
            ev.append(e)
            if done and e["event"] == "lockstep":
                e["same"] = False
                break
        if done:
            path = os.path.join(ctx.work, "selftest-ss.ndjson")
            vlib.write_ndjson(path, ev)
            st, tr = ctx.states, ctx.transitions
            f2 = ctx.trace_judge("statesync", "StateSyncTrace.tla", "Trace_StateSync.cfg", path, timeout=300)
            ctx.states, ctx.transitions = st, tr
            got = set(w for f in f2 for w in f["what"])
            if "SyncedEqualsSource" not in got:
                raise vlib.Inconclusive("state-sync binding self-test: corrupted completion not rejected (%s)" % got)
            ctx.extra["statesync_binding_selftests"] = 1
    ctx.assumptions.append("state sync: MPT-based mode only (the contract-storage mode needs the NeoFS state fetcher configuration); restarts are clean stops; "
                           "a trie node nobody asked for may be ignored silently (= rejected)")
