"""C11 - trie node storage stays exact under reference counting and garbage collection.
Model: spec/mptref (MPTRef abstract judge, MPTRefImpl code-shaped model of Flush / the shared refcount cache /
GC, MPTRefSim generator, MPTRefTrace validator of dumped DataMPT tables).
Real code: stateroot.Module and core.Blockchain driven by harness/c11ref."""
import json
import os
import random

import vlib

RULE = ("cases = steps (block commit / computed-but-dropped block / GC / flush / re-initialisation) executed on a real "
        "stateroot.Module in ModeLatest and ModeGC and blocks of a real core.Blockchain (KeepOnlyLatestState / "
        "RemoveUntraceableBlocks), each followed by a dump of the raw DataMPT table and read probes of every known "
        "height; distinct = distinct (mode, operation, resulting root, table size, table delta sizes) tuples; every "
        "step is non-trivial in that TLC recomputes reachability and occurrence counts from the dumped table and "
        "evaluates all abstract predicates of MPTRef on it")

PRIORITY = ["ApplyFailed", "LatestNodeMissing", "Undecodable", "CountMismatch", "GarbageKept", "UnreferencedActive",
            "InactiveSinceWrong", "GCRemovedNeeded", "RetainedNodeMissing", "RetainedReadWrong", "RetainedFindWrong",
            "DroppedReadWrongData", "DroppedFindWrongData", "HeightSkipped"]


def first_name(what):
    for p in PRIORITY:
        if p in what:
            return p
    return sorted(what)[0]


def histories(events):
    """start index of the history every event belongs to"""
    starts, s = [], 0
    for i, e in enumerate(events):
        if e["event"] == "init":
            s = i
        starts.append(s)
    return starts


def judge(ctx, trace, timeout):
    events = vlib.read_ndjson(trace)
    fails = ctx.trace_judge("mptref", "MPTRefTrace.tla", "Trace_MPTRef.cfg", trace, timeout=timeout)
    return events, fails


def run(ctx):
    q = ctx.quick()
    ind = os.path.join(ctx.work, "in-c11")
    os.makedirs(ind)
    behaviours = []
    json.dump(behaviours, open(os.path.join(ind, "behaviours.json"), "w"))
    res = ctx.go_driver("c11ref", "TestDriver", env={"VERIF_IN": ind, "VERIF_RANDOM": 300 if q else 6000,
                                                     "VERIF_CHAINS": 6 if q else 60}, timeout=3000)
    ctx.absorb(res)
    trace = os.path.join(res["_out"], "trace.ndjson")
    events, fails = judge(ctx, trace, 3000)
    ctx.traces_validated += res.get("traces", 0)
    ctx.extra["trace_events"] = len(events)
    starts = histories(events)
    reported = set()
    for f in fails:
        li = f["line"] - 1
        s = starts[li]
        if s in reported:
            continue
        reported.add(s)
        ev, init = events[li], events[s]
        name = first_name(f["what"])
        sig = {"kind": name, "op": ev["event"], "mode": init["mode"], "layer": init["layer"],
               "history": ev.get("class", "committed-only")}
        ctx.violation(sig, {"what": "abstract predicate(s) %s false on the real DataMPT table after %s" % (
            sorted(f["what"]), ev["event"]), "ctx": f.get("ctx"), "src": init.get("src"),
            "history": [strip(e) for e in events[s:li + 1]]})
    if not ctx.samples:
        ctx.samples.append({"note": "no sample"})


def strip(e):
    e = dict(e)
    e.pop("reads", None)
    return e
