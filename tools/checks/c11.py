"""C11 - trie node storage stays exact under reference counting and garbage collection.
Model: spec/mptref (MPTRef abstract judge, MPTRefImpl code-shaped model of Flush / the shared refcount cache /
write cache over the backend / GC, MPTRefSim generator, MPTRefTrace validator of dumped DataMPT tables).
Real code: stateroot.Module (PutBatch path), mpt.Trie (single Put/Delete path) and core.Blockchain driven by harness/c11ref.
`tools/vcheck C11 --replay replays/C11-<seed>-<n>.json` re-executes the history of a module / trie level finding.
VERIF_C11_NOMC=1 skips the exhaustive model runs (development aid for mutation runs)."""
import copy
import json
import os
import random

import vlib

RULE = ("cases = steps (block commit / computed-but-dropped block / GC / flush / re-initialisation) executed on a real "
        "stateroot.Module in ModeLatest and ModeGC (TLC behaviours of MPTRefImpl and seeded random histories over six key "
        "universes), the same histories through single Put/Delete calls on mpt.Trie, and blocks / flushes / GC runs / a "
        "dropped block of a real core.Blockchain (KeepOnlyLatestState / RemoveUntraceableBlocks / StateRootInHeader), "
        "each followed by a dump of the raw DataMPT table and read probes of every known height; distinct = distinct (mode, "
        "operation, resulting root, table size, table delta sizes) tuples; every step is non-trivial in that TLC recomputes "
        "reachability and occurrence counts from the dumped table and evaluates all abstract predicates of MPTRef on it")

PRIORITY = ["ApplyFailed", "LatestNodeMissing", "Undecodable", "CountMismatch", "GarbageKept", "UnreferencedActive",
            "InactiveSinceWrong", "GCRemovedNeeded", "RetainedNodeMissing", "RetainedReadWrong", "RetainedFindWrong",
            "DroppedReadWrongData", "DroppedFindWrongData", "HeightSkipped"]

# exhaustive configurations: (cfg, quick?, timeout)
MC_OK = [("MC_Latest.cfg", True), ("MC_LatestDrop.cfg", True), ("MC_GC41.cfg", True),
         ("MC_GC.cfg", False), ("MC_GCDrop.cfg", False), ("MC_Latest5.cfg", False)]
# named deviations every one of which the invariants must catch (model non-vacuity)
MC_DEV = ["MC_LatestDropShares.cfg", "MC_GCDropShares.cfg", "MC_GCBugGC.cfg", "MC_LatestBugStale.cfg"]
SIMS = ["Sim_Latest.cfg", "Sim_GC.cfg", "Sim_LatestDrop.cfg", "Sim_GCDrop.cfg", "Sim_GC3.cfg"]


def first_name(what):
    for p in PRIORITY:
        if p in what:
            return p
    return sorted(what)[0]


def histories(events):
    """start index of the history every event belongs to"""
    starts, s = [], 0
    for i, e in enumerate(events):
        if e["event"] == "init":
            s = i
        starts.append(s)
    return starts


def to_history(h):
    """TLC behaviour (MPTRefSim.hist) -> driver history"""
    init = h[0]
    keys = sorted(init["keys"])
    vals = sorted(init["vals"])
    steps = []
    for s in h[1:]:
        st = {"op": s["op"], "commit": False, "collapse": -1, "persist": False, "g": 0, "ch": [], "pred": s["pred"]}
        if s["op"] == "block":
            st["commit"] = s["commit"]
            st["collapse"] = {"none": -1, "deep": 10, "full": 0}[s["collapse"]]
            st["ch"] = sorted(({"k": keys.index(c["k"]) + 1, "v": (vals.index(c["v"]) + 1) if c["v"] else 0} for c in s["ch"]),
                              key=lambda c: c["k"])
        elif s["op"] == "gc":
            st["g"] = s["g"]
        steps.append(st)
    return {"mode": init["mode"], "keys": keys, "vals": vals, "steps": steps}


def judge_parallel(ctx, events, parts, timeout):
    """Judge a long trace as `parts` independent TLC runs (histories are independent: cut at init events).
    Returns the failure records with global line numbers."""
    import concurrent.futures
    import shutil
    starts = [i for i, e in enumerate(events) if e["event"] == "init"]
    if parts <= 1 or len(starts) < parts * 2:
        path = os.path.join(ctx.work, "whole.ndjson")
        vlib.write_ndjson(path, events)
        return ctx.trace_judge("mptref", "MPTRefTrace.tla", "Trace_MPTRef.cfg", path, timeout=timeout)
    per = (len(events) + parts - 1) // parts
    cuts, nxt = [0], per
    for s in starts:
        if s >= nxt:
            cuts.append(s)
            nxt = s + per
    cuts.append(len(events))
    src = ctx.spec_scratch("mptref")

    def one(k):
        a, b = cuts[k], cuts[k + 1]
        d = os.path.join(ctx.work, "trpart-%d" % k)
        shutil.copytree(src, d)
        vlib.write_ndjson(os.path.join(d, "trace.ndjson"), events[a:b])
        r = ctx.tlc(d, "MPTRefTrace.tla", "Trace_MPTRef.cfg", timeout, workers=1, tag="tracepart%d" % k)
        shutil.rmtree(d, ignore_errors=True)
        if r["timed_out"] or r["error"] or r["rc"] != 0:
            raise vlib.Inconclusive("trace part %d was not consumed entirely: %s\n%s" % (k, r.get("error"), vlib.tail(r["out"], 20)))
        out = []
        for line in r["out"].splitlines():
            i = line.find("@@FAIL@@")
            if i >= 0:
                js = vlib.extract_tla_string(line[i + 8:])
                if js is not None:
                    f = json.loads(js)
                    f["line"] += a
                    out.append(f)
        return out, r.get("states", 0), r.get("transitions", 0)

    fails = []
    with concurrent.futures.ThreadPoolExecutor(max_workers=parts) as ex:
        for out, st, tr in ex.map(one, range(len(cuts) - 1)):
            fails += out
            ctx.states += st
            ctx.transitions += tr
    fails.sort(key=lambda f: f["line"])
    return fails


def events_to_history(evs):
    """driver history (module / trie layer) reconstructed from the recorded events of one history"""
    init = evs[0]
    keys, vals = init["keys"], init["vals"]
    steps = []
    for e in evs[1:]:
        if e["event"] == "block":
            steps.append({"op": "block", "commit": e["committed"] or e.get("failed", False), "collapse": e.get("collapse", -1),
                          "persist": bool(e.get("persist")), "g": 0,
                          "ch": [{"k": keys.index(k) + 1, "v": (vals.index(v) + 1) if v else 0} for k, v in e["ch"]]})
        elif e["event"] == "gc":
            steps.append({"op": "gc", "g": e["g"], "commit": False, "collapse": -1, "persist": False, "ch": []})
        elif e["event"] in ("persist", "reinit"):
            steps.append({"op": e["event"], "g": 0, "commit": False, "collapse": -1, "persist": False, "ch": []})
    h = {"mode": init["mode"], "keys": keys, "vals": vals, "steps": steps}
    if init["layer"] == "trie":
        h["api"] = "trie"
    return h


def report(ctx, events, fails):
    starts = histories(events)
    reported, bad = set(), set()
    for f in fails:
        li = f["line"] - 1
        s = starts[li]
        bad.add(s)
        if s in reported:
            continue
        reported.add(s)
        ev, init = events[li], events[s]
        name = first_name(f["what"])
        sig = {"kind": name, "op": ev["event"], "mode": init["mode"], "layer": init["layer"],
               "history": ev.get("class", "committed-only")}
        detail = {"what": "abstract predicate(s) %s false on the real DataMPT table after %s" % (sorted(f["what"]), ev["event"]),
                  "ctx": f.get("ctx"), "src": init.get("src"), "events": [strip(e) for e in events[s:li + 1]]}
        if init["layer"] != "chain":
            detail["history"] = events_to_history(events[s:li + 1])     # tools/vcheck C11 --replay <this file> re-executes it
        else:
            detail["chain"] = init.get("cfg")
        ctx.violation(sig, detail)
    return starts, bad


def replay(ctx):
    """re-execute the history of a replay file (module / trie layer) on the real code and judge it again"""
    d = json.load(open(ctx.replay))
    h = d.get("detail", {}).get("history") or d.get("detail", {}).get("replay", {}).get("history") or d.get("history")
    if not h:
        raise vlib.Inconclusive("replay file has no module-level history (chain-level findings are re-run by seed)")
    ind = os.path.join(ctx.work, "in-c11")
    os.makedirs(ind)
    json.dump([h], open(os.path.join(ind, "behaviours.json"), "w"))
    res = ctx.go_driver("c11ref", "TestDriver", env={"VERIF_IN": ind, "VERIF_RANDOM": 0, "VERIF_TRIE": 0, "VERIF_CHAINS": 0, "VERIF_ARCHIVAL": 0}, timeout=600)
    ctx.absorb(res)
    trace = os.path.join(res["_out"], "trace.ndjson")
    events = vlib.read_ndjson(trace)
    fails = ctx.trace_judge("mptref", "MPTRefTrace.tla", "Trace_MPTRef.cfg", trace, timeout=600)
    report(ctx, events, fails)
    ctx.traces_validated += res.get("traces", 0)
    ctx.samples.append({"replayed": h})


ASSUMPTIONS = [
    "a node is identified in the logs by the first 8 bytes of its 32-byte hash (the stored key)",
    "the table is read through the top write cache of the store (merged view of all layers), after every step",
    "MPTRefImpl assumes that addRef/removeRef leave delta = occurrence difference in the cache; the table validation "
    "(occurrences recomputed from the dumped table by TLC) is what establishes it on the real code",
    "chain layer: the GC height is the `index` field of the module's 'starting MPT garbage collection' log entry; "
    "heights >= the highest such index are the retained ones",
    "module layer: re-initialisation (Module.Init) is skipped while the trie is empty (a ledger is never empty)",
    "constants of the exhaustive runs: K4 = {11,12,21,22}, K3 = {11,1121,21} (nibble paths), V2 = {aa,bb}, V1 = {aa}; "
    "MC_Latest: K4xV2, 3 blocks; MC_LatestDrop: +1 dropped block; MC_GC41: K4xV1 ModeGC 3 blocks; MC_GC / MC_GCDrop: K3xV2 "
    "ModeGC 3 blocks (+1 dropped); MC_Latest5: K4xV2 5 blocks; batches of at most 2 keys",
]


def run(ctx):
    ctx.assumptions += ASSUMPTIONS
    if ctx.replay:
        return replay(ctx)
    q = ctx.quick()
    # 1. exhaustive: Impl => Abstract
    nomc = bool(os.environ.get("VERIF_C11_NOMC"))    # development aid (mutation runs): skip the exhaustive model runs
    for cfg, in_quick in MC_OK:
        if (q and not in_quick) or nomc:
            continue
        # vacuity guard (thorough): every action of the GC configuration must have been taken
        cov = (not q) and cfg == "MC_GC41.cfg"
        ctx.tlc_mc("mptref", "MCMPTRef.tla", cfg, timeout=900 if q else 2400, workers=min(ctx.ncpu, 8 if q else 12),
                   coverage=cov, must_cover=cov)
    # model non-vacuity: the named deviations must be caught by the same invariants
    for cfg in MC_DEV:
        if nomc:
            break
        try:
            ctx.tlc_mc("mptref", "MCMPTRef.tla", cfg, timeout=900, workers=min(ctx.ncpu, 8))
            raise vlib.Inconclusive("deviation %s not detected by the model invariants (vacuous model)" % cfg)
        except vlib.ModelError as e:
            out = (e.res or {}).get("out", "")
            if "is violated" not in out:
                raise
            ctx.extra["model_selftests"] = ctx.extra.get("model_selftests", 0) + 1
    # 2. behaviours of the implementation-shaped model
    behaviours, seen = [], set()
    num = 25 if q else 500
    for i, cfg in enumerate(SIMS):
        for h in ctx.tlc_sim("mptref", "MPTRefSim.tla", cfg, num=num, depth=12, timeout=300 if q else 1500, seed=ctx.seed * 10 + i):
            k = json.dumps(h, sort_keys=True)
            if k not in seen:
                seen.add(k)
                behaviours.append(to_history(h))
    rnd = random.Random(ctx.seed)
    rnd.shuffle(behaviours)
    behaviours = behaviours[: (700 if q else 6000)]
    ind = os.path.join(ctx.work, "in-c11")
    os.makedirs(ind)
    json.dump(behaviours, open(os.path.join(ind, "behaviours.json"), "w"))
    # 3. real code
    res = ctx.go_driver("c11ref", "TestDriver", env={"VERIF_IN": ind, "VERIF_RANDOM": 600 if q else 6000, "VERIF_ARCHIVAL": 0,
                                                     "VERIF_CHAINS": 6 if q else 36}, timeout=3000)
    ctx.absorb(res)
    # 4. TLC judges the dumped tables against the abstract specification
    trace = os.path.join(res["_out"], "trace.ndjson")
    events = vlib.read_ndjson(trace)
    fails = judge_parallel(ctx, events, 1 if q else 8, 3000)
    ctx.traces_validated += res.get("traces", 0)
    ctx.extra["trace_events"] = len(events)
    starts, bad_histories = report(ctx, events, fails)
    # 5. binding self-test: corrupted copies of good recorded histories must be rejected
    # (a run that already exhibits a violation has its verdict; the self-test needs accepted histories)
    if not ctx.violations and not ctx.known_hits:
        selftest(ctx, events, starts, bad_histories)
    else:
        selftest(ctx, events, starts, bad_histories, strict=False)
    if not ctx.samples:
        raise vlib.Inconclusive("no sample recorded")


def strip(e):
    e = dict(e)
    e.pop("reads", None)
    return e


def selftest(ctx, events, starts, bad, strict=True):
    try:
        selftest_(ctx, events, starts, bad)
    except vlib.Inconclusive:
        if strict:
            raise
        ctx.extra["binding_selftests_incomplete"] = True


def selftest_(ctx, events, starts, bad):
    """Each corruption changes one recorded field of a history the specification accepted."""
    segs = []       # (name, expected failure, events)

    def seg(name, expect, s, i, badev):
        segs.append((name, expect, events[s:i] + [badev]))

    want = {"count+1", "drop-put", "since", "keep-deleted", "gc-removes-needed", "retained-read", "dropped-read"}
    done = set()
    tables = {}     # re-assembled table per history while scanning
    for i, e in enumerate(events):
        s = starts[i]
        if e["event"] == "init":
            tables = {}
            gmax = 0
            mode, layer = e["mode"], e["layer"]
            continue
        if e["event"] == "gc":
            gmax = max(gmax, e["g"])
        if s in bad or layer != "module" or e.get("class") != "committed-only":
            continue
        before = dict(tables)
        for p in e["put"]:
            tables[p["id"]] = p
        for d in e["del"]:
            tables.pop(d, None)
        if len(done) == len(want):
            break
        c = copy.deepcopy(e)
        if "count+1" not in done and e["event"] == "block" and any(p["active"] for p in e["put"]):
            j = [k for k, p in enumerate(e["put"]) if p["active"]][0]
            c["put"][j]["count"] += 1
            seg("count+1", "CountMismatch", s, i, c)
            done.add("count+1")
            continue
        if "drop-put" not in done and e["event"] == "block" and e["committed"] and len(e["put"]) > 1 and \
                any(p["active"] and p["id"] not in before for p in e["put"]):
            j = [k for k, p in enumerate(e["put"]) if p["active"] and p["id"] not in before][0]
            del c["put"][j]
            seg("drop-put", "LatestNodeMissing", s, i, c)
            done.add("drop-put")
            continue
        if "since" not in done and mode != "latest" and any(not p["active"] for p in e["put"]):
            j = [k for k, p in enumerate(e["put"]) if not p["active"]][0]
            c["put"][j]["since"] += 1
            seg("since", "InactiveSinceWrong", s, i, c)
            done.add("since")
            continue
        if "keep-deleted" not in done and mode == "latest" and e["del"]:
            c["del"] = c["del"][1:]
            seg("keep-deleted", "GarbageKept", s, i, c)
            done.add("keep-deleted")
            continue
        if "gc-removes-needed" not in done and e["event"] == "gc":
            cand = [n for n, p in tables.items() if not p["active"] and p["since"] > gmax]
            if cand and e["g"] >= 1:
                c["del"] = sorted(set(c["del"]) | {cand[0]})
                seg("gc-removes-needed", "GCRemovedNeeded", s, i, c)
                done.add("gc-removes-needed")
                continue
        if "retained-read" not in done:
            hit = False
            for r in c["reads"]:
                if r["h"] == e["height"]:
                    for g in r["get"]:
                        if g[1] != "!":
                            g[1] = "ee" + g[1]
                            hit = True
                            break
            if hit:
                seg("retained-read", "RetainedReadWrong", s, i, c)
                done.add("retained-read")
                continue
        if "dropped-read" not in done and mode == "latest":
            hit = False
            for r in c["reads"]:
                if r["h"] < e["height"]:
                    for g in r["get"]:
                        if g[1] == "!":
                            g[1] = "ee"
                            hit = True
                            break
                if hit:
                    break
            if hit:
                seg("dropped-read", "DroppedReadWrongData", s, i, c)
                done.add("dropped-read")
                continue
    missing = want - done
    if missing:
        raise vlib.Inconclusive("binding self-test could not find a place for corruption(s) %s" % sorted(missing))
    path = os.path.join(ctx.work, "selftest.ndjson")
    allev, owner = [], []
    for k, (name, expect, evs) in enumerate(segs):
        allev += evs
        owner += [k] * len(evs)
    vlib.write_ndjson(path, allev)
    st, tr = ctx.states, ctx.transitions
    fails = ctx.trace_judge("mptref", "MPTRefTrace.tla", "Trace_MPTRef.cfg", path, timeout=600)
    ctx.states, ctx.transitions = st, tr
    got = {}
    last_line = {}
    for k, (name, expect, evs) in enumerate(segs):
        last_line[k] = sum(len(x[2]) for x in segs[:k + 1])
    for f in fails:
        k = owner[f["line"] - 1]
        if f["line"] == last_line[k]:
            got.setdefault(k, set()).update(f["what"])
        else:
            raise vlib.Inconclusive("binding self-test: an uncorrupted step was rejected (%s)" % f)
    for k, (name, expect, evs) in enumerate(segs):
        if expect not in got.get(k, set()):
            raise vlib.Inconclusive("binding self-test %s: corrupted table was not rejected (%s expected, got %s)" % (
                name, expect, sorted(got.get(k, set()))))
        ctx.extra["binding_selftests"] = ctx.extra.get("binding_selftests", 0) + 1
