"""Extension of C03 - STATE ROOT VALIDATION: pkg/services/stateroot (votes, incomplete roots, M-of-N witness, validated
root broadcast) on top of pkg/core/stateroot (AddStateRoot / VerifyStateRoot / validated height / key cache of designated
StateValidators).
Model: spec/statesvc - StateSvc (abstract judge), StateSvcImpl (one action per critical section of the real code, named
deviations as switches), MCStateSvc (universes), StateSvcSim (behaviour generator), StateSvcTrace (trace validator).
Real code: harness/c03statesvc - N (4; 7 in the thorough tier) REAL stateroot services on N real core.Blockchains following
one histgen history with StateValidator designations; the harness is the network (records every relayed extensible payload,
delivers under the schedule: reorder / duplicate / drop / corrupt / forged / foreign payloads), the block notifications and
the clock gate of the service (through the Ledger interface it is built on), restarts.

Call from the registered check of C03:   ext = load('c03_stateservice'); ext.run_ext(ctx)

Classification (lead's ruling).  A VIOLATION is printed only for what the statement of C03 itself demands, predicates "J:...":
    J:StoredIsLocal      a root stored for height h (validated or local, as GetStateRoot returns it) is the root of the local
                         trie of h
    J:EmitIsLocal        a validated root an honest validator assembles and broadcasts is its local root of that height
    J:VoteIsLocal        an honest validator signs its local root of the height it names, nothing else
    J:RefusedKeepsRoots  a root that is refused (error) or is not the root of its height changes no stored root record
Everything else the specification says about this machinery is BEYOND the statement: witness rules of roots that equal the
local one (set in force, M of N, signatures), validated height monotonicity, restarts, relaying, designation changes,
acceptance of good roots.  Falsified "beyond:..." predicates are recorded as named observations (ctx.spec_drift + counters
"beyond:<name>" in the evidence), never as violations.  Some are EXPECTED on the tree (documented behaviour of the code):
see EXPECTED_BEYOND.  Violations carry "part": "statesvc"."""
import concurrent.futures
import json
import os
import random

import vlib

PART = "statesvc"
SUB = "statesvc"
INTENDED_QUICK = ("store", "voteq", "changeq", "small", "early")
INTENDED_THOROUGH = ("store", "vote", "vote2", "change", "small", "early")
DEVIATIONS = ("heightback", "keyquirk", "nomismatch", "nowitness", "votetwice", "wrongmsg", "fewer", "oldset", "stalesv",
              "keepforever")
# observations beyond the statement that the code under test shows by design (established on the unchanged tree):
#   AcceptedGood        a correct validated root is refused (after a restart the module has no validator keys until the next
#                       block is stored; heights before the oldest key-cache entry; roots ahead of the local height)
#   VoteDesignated      a node votes for the designating block itself with its key / index of the NEW set
#   MismatchNotRelayed  a well-signed root that differs from the local one is logged and handed on (handler returns nil)
# (beyond:EmitStaleSet - a node broadcasting its local root with a complete witness of a set designated EARLIER than the one in
#  force, because the incomplete root was created by a vote that arrived before the designating block - was found by this
#  extension and repaired in /repo ec75270; the scripted world early-vote is its regression: not expected any more)
EXPECTED_BEYOND = {"beyond:AcceptedGood", "beyond:VoteDesignated", "beyond:MismatchNotRelayed"}
EXPECTED_BEYOND_IN = {}


def violation(ctx, sig, detail):
    """ctx.violation, except that a stand-alone run of the extension honours the known findings listed for C03."""
    if ctx.pid != "C03":
        for kf in ctx.known.get("findings", []):
            if kf.get("property") == "C03" and vlib.sig_match(kf.get("signature", {}), sig):
                if kf not in ctx.known_hits:
                    ctx.known_hits.append(kf)
                    print("KNOWN-FINDING: property=C03 %s" % kf.get("what", json.dumps(kf.get("signature"))), flush=True)
                return
    ctx.violation(sig, detail)


def model_checks(ctx, q):
    """Impl => Abstract exhaustively over small universes; every named deviation must be refuted."""
    names = [("MC_%s.cfg" % n, False) for n in (INTENDED_QUICK if q else INTENDED_THOROUGH)]
    names += [("MC_dev_%s.cfg" % n, True) for n in DEVIATIONS]
    ctx.spec_scratch(SUB)   # make the scratch copy before the threads start

    def one(item):
        cfg, dev = item
        try:
            r = ctx.tlc_mc(SUB, "MCStateSvc.tla", cfg, timeout=900 if q else 3600, workers=2 if q else 4)
            return cfg, dev, None, r
        except vlib.ModelError as e:
            return cfg, dev, e, None

    with concurrent.futures.ThreadPoolExecutor(max_workers=6 if q else 4) as ex:
        results = list(ex.map(one, names))
    for cfg, dev, err, r in results:
        if dev and err is None:
            raise vlib.Inconclusive("deviation %s is not refuted by the StateSvc invariants (vacuous model)" % cfg)
        if not dev and err is not None:
            raise err
        if dev:
            ctx.extra["statesvc_model_selftests"] = ctx.extra.get("statesvc_model_selftests", 0) + 1
            # states explored until the counterexample count as model checking work too
            res = getattr(err, "res", None) or {}
            ctx.states += res.get("states") or 0
            ctx.transitions += res.get("transitions") or 0


def behaviours(ctx, q):
    out, seen = [], set()
    plan = [("Sim_4a.cfg", 70, 40 if q else 500), ("Sim_4b.cfg", 70, 40 if q else 500)]
    if not q:
        plan.append(("Sim_7.cfg", 110, 150))
    for i, (cfg, depth, num) in enumerate(plan):
        for h in ctx.tlc_sim(SUB, "StateSvcSim.tla", cfg, num=num, depth=depth, timeout=600 if q else 2400, seed=ctx.seed * 10 + i):
            k = json.dumps(h, sort_keys=True)
            if k not in seen:
                seen.add(k)
                out.append(h)
    random.Random(ctx.seed).shuffle(out)
    out = out[: (160 if q else 2500)]
    if not out:
        raise vlib.Inconclusive("no StateSvcImpl behaviours generated")
    return out


def run_ext(ctx):
    q = ctx.quick()
    model_checks(ctx, q)
    behs = behaviours(ctx, q)
    ind = os.path.join(ctx.work, "in-c03statesvc")
    os.makedirs(ind, exist_ok=True)
    json.dump(behs, open(os.path.join(ind, "behaviours.json"), "w"))
    res = ctx.go_driver("c03statesvc", "TestDriver", timeout=3000,
                        env={"VERIF_IN": ind, "VERIF_RANDOM": 14 if q else 120, "VERIF_RANDOM7": 0 if q else 40, "VERIF_PAR": 8})
    ctx.absorb(res)
    if res.get("crashed"):
        return
    trace = os.path.join(res["_out"], "trace.ndjson")
    events = vlib.read_ndjson(trace)
    if q:
        fails = ctx.trace_judge(SUB, "StateSvcTrace.tla", "Trace_StateSvc.cfg", trace, timeout=1800)
    else:
        fails = ctx.trace_judge_parts(SUB, "StateSvcTrace.tla", "Trace_StateSvc.cfg", events, max_events=40000, timeout=3000)
    ctx.traces_validated += res.get("traces", 0)
    ctx.extra["statesvc_trace_events"] = len(events)
    start, starts = 0, []
    for i, e in enumerate(events):
        if e["event"] == "init":
            start = i
        starts.append(start)
    beyond, examples, unexpected = {}, {}, {}
    reported = set()
    judged_fail = False
    for f in fails:
        li = f["line"] - 1
        ev, s = events[li], starts[li]
        world = events[s].get("world", "")
        for w in f["what"]:
            if w.startswith("J:"):
                continue
            beyond[w] = beyond.get(w, 0) + 1
            exp = w in EXPECTED_BEYOND or any(world.startswith(p) for p in EXPECTED_BEYOND_IN.get(w, ()))
            if not exp:
                unexpected[w] = unexpected.get(w, 0) + 1
            if w not in examples or (not exp and examples[w][2]):
                examples[w] = (world, small(ev), exp)
        judged = sorted(w for w in f["what"] if w.startswith("J:"))
        if not judged:
            continue
        judged_fail = True
        w = judged[0]
        op = ev["event"] + (":" + ev["p"].get("kind", "") if "p" in ev else "")
        key = (s, w)
        if key in reported:
            continue
        reported.add(key)
        sig = {"kind": w[2:], "part": PART, "op": op, "src": ev.get("src", world.split("/")[0])}
        violation(ctx, sig, {"what": "abstract predicate %s false after %s of node %s in world %s (real stateroot module / service)"
                                     % (w[2:], op, ev.get("n"), world),
                             "event": small(ev), "history": [small(e) for e in events[s:li + 1]][-40:]})
    # what the scripted worlds observed about PROGRESS (a complete set of good votes at the sender assembles the root,
    # also after a refused root): liveness, beyond the statement
    for d in res.get("drift") or []:
        if "observed" in d and "(expected)" not in d["observed"]:
            w = "beyond:Progress"
            beyond[w] = beyond.get(w, 0) + 1
            unexpected[w] = unexpected.get(w, 0) + 1
            examples.setdefault(w, (d.get("world", ""), {"observed": d["observed"]}, False))
    # observations beyond the statement of C03: named, counted, never verdicts
    for w in sorted(beyond):
        world, ev, exp = examples[w]
        print("[c03_stateservice] %s: %d (%s)" % (w, beyond[w], "expected on this tree" if w not in unexpected else
                                                  "%d NOT among the documented behaviours" % unexpected[w]), flush=True)
        ctx.spec_drift.append({"part": PART, "beyond": w, "count": beyond[w], "unexpected": unexpected.get(w, 0),
                               "world": world, "event": ev})
        ctx.extra[w] = ctx.extra.get(w, 0) + beyond[w]
    ctx.extra["statesvc_beyond_unexpected"] = unexpected
    ctx.extra["statesvc_impl_mismatches"] = {k: v for k, v in (res.get("stats") or {}).items() if "mismatch" in k or k.endswith("compared")
                                             or k.endswith("undeliverable") or k.endswith("op_skipped")}
    ctx.assumptions.append(
        "state root validation: every node follows the same block history (forks / state mismatches between nodes are the "
        "registered C03 check's subject); the service is driven through the Ledger interface it is built on (block notifications "
        "handed over by the harness after the chain stored the block, loop iteration ends observed through the service's logger, "
        "vote re-send timers neutralised outside the timer world); what network.Server's extensible pool checks (envelope witness, "
        "sender whitelist, validity range) is C19's subject: payloads reach Service.OnPayload directly; signatures are unforgeable "
        "(the adversary replays honest signatures and signs anything with keys no node holds); restarts are clean stops")
    aborted = (res.get("stats") or {}).get("statesvc_aborted", 0)
    if aborted and not judged_fail:
        raise vlib.Inconclusive("%d worlds could not be played to the end: %s" % (aborted, [d for d in (res.get("drift") or []) if "aborted" in d][:2]))
    if not judged_fail:
        selftest(ctx, events)


def small(e):
    e = dict(e)
    if isinstance(e.get("st"), dict) and len(e["st"].get("val", [])) > 6:
        e["st"] = dict(e["st"], val=e["st"]["val"][:6] + ["..."])
    return e


def selftest(ctx, events):
    """Binding self-test: single-field corruptions of the good recorded trace must be rejected with the right predicate."""
    ev = events[:20000]
    L = {}
    done = {}
    lastvh = {}
    for i, e in enumerate(ev):
        k = e["event"]
        if k == "init":
            L, lastvh = {}, {}
        elif k == "newblock":
            L[e["h"]] = e["root"]
        st = e.get("st") or {}
        val = [v for v in st.get("val", []) if v.get("nwit", 0) >= 1]
        if "stored" not in done and val:
            bad = json.loads(json.dumps(e))
            bad["st"]["val"][0]["root"] = "00" + bad["st"]["val"][0]["root"][2:]
            if bad["st"]["val"][0]["root"] != e["st"]["val"][0]["root"]:
                done["stored"] = (i, bad, "J:StoredIsLocal")
        if "witness" not in done and val and len(val[0]["wit"]["matched"]) >= 2:
            bad = json.loads(json.dumps(e))
            for v in bad["st"]["val"]:
                if v.get("nwit", 0) >= 1:
                    v["wit"]["matched"] = v["wit"]["matched"][:-1]
                    break
            done["witness"] = (i, bad, "beyond:StoredWitness")
        if "height" not in done and st and lastvh.get(e.get("n"), 0) > 0:
            done["height"] = (i, dict(e, st=dict(st, vh=0)), "beyond:Monotone")
        if st:
            lastvh[e.get("n")] = st.get("vh", 0)
        if k == "emit" and e["p"]["kind"] == "root" and "emitroot" not in done and e["p"]["root"] == L.get(e["p"]["h"]):
            done["emitroot"] = (i, dict(e, p=dict(e["p"], root="ff" + e["p"]["root"][2:])), "J:EmitIsLocal")
        if k == "emit" and e["p"]["kind"] == "vote" and "vote" not in done and e["p"]["cr"] == L.get(e["p"]["h"]):
            done["vote"] = (i, dict(e, p=dict(e["p"], cr="ff" + e["p"]["cr"][2:])), "J:VoteIsLocal")
        if k == "deliver" and e["p"]["kind"] == "root" and e["err"] and "refused" not in done and e["p"]["h"] in L and e["p"]["nwit"] == 1:
            rec = dict(e["p"], root=L[e["p"]["h"]])
            if not any(v["h"] == rec["h"] for v in st.get("val", [])):
                done["refused"] = (i, dict(e, st=dict(st, val=st["val"] + [rec])), "J:RefusedKeepsRoots")
    need = {"stored", "witness", "height", "emitroot", "vote", "refused"}
    # (a changed tree may leave no place for one or two of them - e.g. nothing is refused, no root is ever assembled)
    ctx.extra["statesvc_binding_selftests_missing"] = sorted(need - set(done))
    if len(done) < 4 or not ({"stored", "emitroot", "vote", "refused"} & set(done)):
        raise vlib.Inconclusive("state service self-test could not find places to corrupt the trace (missing %s)" % sorted(need - set(done)))
    segs, expect_at = [], {}
    for name, (i, bad, expect) in sorted(done.items()):
        s = i
        while ev[s]["event"] != "init":
            s -= 1
        segs += ev[s:i] + [bad]
        expect_at[len(segs)] = (name, expect)
    path = os.path.join(ctx.work, "selftest-statesvc.ndjson")
    vlib.write_ndjson(path, segs)
    st, tr = ctx.states, ctx.transitions
    fails = ctx.trace_judge(SUB, "StateSvcTrace.tla", "Trace_StateSvc.cfg", path, timeout=900)
    ctx.states, ctx.transitions = st, tr
    for line, (name, expect) in expect_at.items():
        if not any(f["line"] == line and expect in f["what"] for f in fails):
            raise vlib.Inconclusive("state service binding self-test %s: corrupted trace was not rejected (%s expected)" % (name, expect))
        ctx.extra["statesvc_binding_selftests"] = ctx.extra.get("statesvc_binding_selftests", 0) + 1
