"""C13 - VM instructions compute what the NeoVM specification says (spec as oracle).

Model: spec/common/BigInt.tla (unbounded integers, pure TLA+, normative), spec/vmsem/VMVal.tla + VMSem.tla
(executable specification of the side-effect-free NeoVM instruction set), VMCases*.tla (input space),
VMEnum.tla (enumeration: TLC evaluates the specification on every case), VMSim.tla (tlc -simulate: longer
sequences), BigIntLaws.tla (exhaustive algebraic self-check of the oracle's arithmetic + named deviation).
Real code: pkg/vm driven by harness/c13sem (every case executed twice in fresh VMs)."""
import copy
import json
import os
import random
import re

import vlib

RULE = ("cases = (script, initial stack) pairs on which TLC evaluated the executable specification VMSem (opcode x "
        "boundary-operand tuples per instruction family, control-flow / exception templates, exhaustive short sequences, "
        "simulated longer sequences) and which the real VM then executed twice in fresh VMs; a case counts when its specified "
        "outcome is HALT or FAULT (cases the specification does not claim are dropped and counted as unclaimed); "
        "distinct = distinct (family, program, initial stack); every case is non-trivial in that HALT/FAULT, the whole final "
        "stack (types, values, aliasing of reference items) and run-to-run equality of stack, state and gas are compared")

SPEC = "vmsem"


def set_consts(path, **kv):
    s = open(path).read()
    for k, v in kv.items():
        s, n = re.subn(r"(?m)^(\s*%s\s*=\s*)\S+\s*$" % k, r"\g<1>%s" % v, s)
        if n != 1:
            raise vlib.Inconclusive("cannot set constant %s in %s" % (k, path))
    open(path, "w").write(s)


def run(ctx):
    q = ctx.quick()
    d = ctx.spec_scratch(SPEC)
    workers = min(ctx.ncpu, 8 if q else 16)

    # 1. model stage: the oracle's arithmetic checked exhaustively against algebraic laws on the boundary set,
    #    and the named deviation (floored instead of truncated division) must be caught by the same laws
    set_consts(os.path.join(d, "MC_BigIntLaws.cfg"), Seed=ctx.seed)
    set_consts(os.path.join(d, "MC_BigIntLawsBug.cfg"), Seed=ctx.seed)
    ctx.tlc_mc(SPEC, "BigIntLaws.tla", "MC_BigIntLaws.cfg", timeout=900, workers=workers)
    try:
        ctx.tlc_mc(SPEC, "BigIntLaws.tla", "MC_BigIntLawsBug.cfg", timeout=900, workers=workers)
        raise vlib.Inconclusive("named deviation BugFloorDiv not detected by the arithmetic laws (vacuous model)")
    except vlib.ModelError:
        ctx.extra["model_selftests"] = ctx.extra.get("model_selftests", 0) + 1

    # 2. enumeration: TLC evaluates the executable specification on every case
    cfg = "Enum_quick.cfg" if q else "Enum_thorough.cfg"
    set_consts(os.path.join(d, cfg), Seed=ctx.seed)
    cases = ctx.tlc_dump(SPEC, "VMEnum.tla", cfg, timeout=1500 if q else 7000, workers=workers)
    cases.sort(key=lambda c: c["id"])       # TLC's workers print in any order
    ids = set()
    for c in cases:
        ids.add(c["id"])
    if len(ids) != len(cases):
        raise vlib.Inconclusive("enumeration printed duplicate case ids")

    # 3. simulation: longer straight-line sequences
    set_consts(os.path.join(d, "Sim_vm.cfg"), Seed=ctx.seed, Depth=10 if q else 14)
    sims = []
    seen = set()
    for h in ctx.tlc_sim(SPEC, "VMSim.tla", "Sim_vm.cfg", num=2 if q else 24, depth=12 if q else 16,
                         timeout=240 if q else 1500, seed=ctx.seed):
        k = json.dumps([h["prog"], h["init"]], sort_keys=True)
        if k not in seen:
            seen.add(k)
            sims.append(h)
    sims.sort(key=lambda h: json.dumps([h["prog"], h["init"]], sort_keys=True))
    nid = max(ids) if ids else 0
    for h in sims:
        nid += 1
        h["id"] = nid
    cases += sims
    ctx.extra["cases_enumerated"] = len(cases) - len(sims)
    ctx.extra["cases_simulated"] = len(sims)

    # non-vacuity of the enumeration itself: every family exhibits claimed outcomes, both HALT and FAULT occur
    fams = {}
    for c in cases:
        fams.setdefault(c["fam"], {}).setdefault(c["st"], 0)
        fams[c["fam"]][c["st"]] += 1
    ctx.extra["families"] = fams
    tot = {}
    for f in fams.values():
        for k, v in f.items():
            tot[k] = tot.get(k, 0) + v
    if tot.get("HALT", 0) < 100 or tot.get("FAULT", 0) < 100:
        raise vlib.Inconclusive("enumeration is vacuous: outcomes %s" % tot)
    claimed = [c for c in cases if c["st"] in ("HALT", "FAULT")]
    ctx.extra["unclaimed_by_spec"] = len(cases) - len(claimed)

    ind = os.path.join(ctx.work, "in-c13")
    os.makedirs(ind)
    with open(os.path.join(ind, "cases.ndjson"), "w") as f:
        for c in claimed:
            f.write(json.dumps(c) + "\n")

    # 4. real code
    res = ctx.go_driver("c13sem", "TestDriver", env={"VERIF_IN": ind}, timeout=3000)
    ctx.absorb(res)
    ctx.traces_validated += int(res.get("evaluations") or 0)

    # 5. binding self-test: corrupted expected outcomes must all be flagged by the comparison
    #    (drawn from the cases on which specification and code agreed)
    bad_ids = set((v.get("replay") or {}).get("id") for v in res.get("violations") or [])
    if len(res.get("violations") or []) < 50:       # the driver keeps at most 50: beyond that agreement is unknown
        selftest(ctx, [c for c in claimed if c["id"] not in bad_ids])


def corrupt(c, rnd):
    """One corruption of the specified outcome of a good case; returns (name, case) or None."""
    c = copy.deepcopy(c)
    kinds = ["flip"]
    if c["st"] == "HALT":
        st = c["stack"]
        if any(v["t"] == "Integer" for v in st):
            kinds.append("int+1")
        if any(v["t"] == "Boolean" for v in st):
            kinds.append("bool")
        if any(v["t"] == "ByteString" and v.get("s") and not v.get("opq") for v in st):
            kinds.append("byte")
        if len(st) >= 1:
            kinds += ["drop", "type"]
        refs = [v["r"] for v in st if "r" in v]
        if len(refs) >= 2 and len(set(refs)) < len(refs):
            kinds.append("unalias")
        if len(st) >= 2 and json.dumps(st[-1], sort_keys=True) != json.dumps(st[-2], sort_keys=True):
            kinds.append("swap")
    k = rnd.choice(kinds)
    if k == "flip":
        if c["st"] == "HALT":
            c["st"], c["stack"], c["heap"] = "FAULT", [], []
        else:
            c["st"], c["stack"], c["heap"] = "HALT", [], []
            # a faulting real run can never match a HALT expectation, whatever the stack
    elif k == "int+1":
        v = rnd.choice([v for v in c["stack"] if v["t"] == "Integer"])
        n = v["n"]
        if not n["mag"]:
            n["mag"] = [1]
        else:
            n["mag"][0] ^= 1
            while n["mag"] and n["mag"][-1] == 0:
                n["mag"].pop()
            if not n["mag"]:
                n["neg"] = False
    elif k == "bool":
        v = rnd.choice([v for v in c["stack"] if v["t"] == "Boolean"])
        v["b"] = not v["b"]
    elif k == "byte":
        v = rnd.choice([v for v in c["stack"] if v["t"] == "ByteString" and v.get("s") and not v.get("opq")])
        v["s"][rnd.randrange(len(v["s"]))] ^= 0x80
    elif k == "drop":
        c["stack"].pop(rnd.randrange(len(c["stack"])))
    elif k == "type":
        i = rnd.randrange(len(c["stack"]))
        c["stack"][i] = {"t": "Null"} if c["stack"][i]["t"] != "Null" else {"t": "Boolean", "b": False}
    elif k == "swap":
        c["stack"][-1], c["stack"][-2] = c["stack"][-2], c["stack"][-1]
    elif k == "unalias":
        # second occurrence of a shared reference now names a fresh copy of the object
        seen = set()
        for v in c["stack"]:
            if "r" in v:
                if v["r"] in seen:
                    c["heap"].append(copy.deepcopy(c["heap"][v["r"] - 1]))
                    v["r"] = len(c["heap"])
                    break
                seen.add(v["r"])
    return k, c


def selftest(ctx, claimed):
    rnd = random.Random(ctx.seed * 7 + 1)
    pool = [c for c in claimed if not c.get("quirk")]
    rnd.shuffle(pool)
    # make sure every corruption kind is exercised: take cases until each kind was drawn, at most 400
    bad, kinds = [], {}
    for c in pool[:400]:
        k, cc = corrupt(c, rnd)
        bad.append(cc)
        kinds[k] = kinds.get(k, 0) + 1
    good = [copy.deepcopy(c) for c in pool[400:500]]
    ind = os.path.join(ctx.work, "in-c13-selftest")
    os.makedirs(ind)
    with open(os.path.join(ind, "cases.ndjson"), "w") as f:
        for c in bad + good:
            f.write(json.dumps(c) + "\n")
    res = ctx.go_driver("c13sem", "TestDriver", env={"VERIF_IN": ind, "VERIF_SELFTEST": 1}, timeout=1200)
    flagged = set((res.get("stats") or {}).get("flagged") or [])
    missed = [c["id"] for c in bad if c["id"] not in flagged]
    false_pos = [c["id"] for c in good if c["id"] in flagged]
    if missed or false_pos or len(kinds) < 4:
        raise vlib.Inconclusive("binding self-test failed: %d corrupted outcomes not rejected (ids %s), %d intact ones rejected, kinds %s"
                                % (len(missed), missed[:5], len(false_pos), kinds))
    ctx.extra["binding_selftests"] = len(bad)
    ctx.extra["binding_selftest_kinds"] = kinds
