"""C01 - replicated state transition is deterministic and restart-transparent.
Model: spec/node/Node.tla (MC_Node), schedules: NodeSim, judge: NodeTrace on real replicas (harness/c01node)."""
import json
import os

import vlib

RULE = ("cases = steps (add block / flush / clean stop / restart / mempool noise) executed on real core.Blockchain replicas "
        "(memory, BoltDB, LevelDB; KeepOnlyLatestState, RemoveUntraceableBlocks+GC, VerifyTransactions off, SaveStorageBatch; "
        "StateRootInHeader on/off per world) following TLC schedules of Node.tla, blocks from the seeded history generator; "
        "distinct = distinct (world, position, op, replica); every add/flush/restart step compares a 13-component digest with "
        "the never-restarted reference node's digest at that height (evaluated by TLC in NodeTrace)")


def run_node(ctx, pid):
    q = ctx.quick()
    ctx.tlc_mc("node", "MCNode.tla", "MC_Node.cfg" if q else "MC_Node_t.cfg", timeout=3000, coverage=False, must_cover=False)
    try:
        ctx.tlc_mc("node", "MCNode.tla", "MC_NodeBug.cfg", timeout=300)
        raise vlib.Inconclusive("named deviation BugStaleFlag not detected by the Node model")
    except vlib.ModelError:
        ctx.extra["model_selftests"] = 1
    scheds = []
    seen = set()
    for h in ctx.tlc_sim("node", "NodeSim.tla", "Sim_Node.cfg" if q else "Sim_Node_t.cfg", num=10 if q else 300, depth=320 if q else 480, timeout=900):
        k = json.dumps(h)
        if k not in seen:
            seen.add(k)
            scheds.append(h)
    import random
    random.Random(ctx.seed).shuffle(scheds)
    scheds = scheds[: (10 if q else 300)]
    if not scheds:
        raise vlib.Inconclusive("no schedules generated")
    ind = os.path.join(ctx.work, "in-c01")
    os.makedirs(ind, exist_ok=True)
    json.dump(scheds, open(os.path.join(ind, "schedules.json"), "w"))
    res = ctx.go_driver("c01node", "TestDriver", env={"VERIF_IN": ind, "VERIF_LONG_WORLDS": (2 if q else 6) if pid == "C01" else 0}, timeout=3000)
    ctx.absorb(res)
    return res


def judge(ctx, res, wanted=None):
    trace = os.path.join(res["_out"], "trace.ndjson")
    events = vlib.read_ndjson(trace)
    fails = ctx.trace_judge_parts("node", "NodeTrace.tla", "Trace_Node.cfg", events, max_events=30000, timeout=3000, workers=4)
    ctx.traces_validated += res.get("traces", 0)
    ctx.extra["trace_events"] = len(events)
    for f in fails:
        ev = events[f["line"] - 1]
        ref = (f.get("ctx") or {}).get("ref") or {}
        dg = ev.get("digest") or {}
        comps = sorted(k for k in dg if isinstance(ref, dict) and ref.get(k) != dg.get(k)) if ref else []
        if ev.get("event") == "flush" and "FlushTransparent" in f["what"]:
            prev = ev.get("prev") or {}
            comps = sorted(k for k in dg if prev.get(k) != dg.get(k))
        for w in sorted(f["what"]):
            sig = {"kind": w, "cfg": ev.get("cfg"), "components": comps}
            if ev.get("ground"):
                sig["ground"] = ev["ground"]
            ctx.violation(sig, {"what": "%s false at %s of replica %s height %s; differing components %s" % (
                w, ev.get("event"), ev.get("cfg"), ev.get("h"), comps), "event": ev, "line": f["line"]})
    return events, fails


def selftest(ctx, events):
    # corrupt one digest component of one add event -> Reference must be reported
    ev = []
    done = False
    for e in events[:3000]:
        e = dict(e)
        if not done and e["event"] == "add" and e.get("h", 0) >= 2:
            d = dict(e["digest"])
            d["storage"] = "corrupted"
            e["digest"] = d
            done = True
            ev.append(e)
            break
        ev.append(e)
    if not done:
        raise vlib.Inconclusive("self-test: no add event to corrupt")
    path = os.path.join(ctx.work, "selftest.ndjson")
    vlib.write_ndjson(path, ev)
    st, tr = ctx.states, ctx.transitions
    fails = ctx.trace_judge("node", "NodeTrace.tla", "Trace_Node.cfg", path, timeout=300)
    ctx.states, ctx.transitions = st, tr
    if not any("Reference" in f["what"] for f in fails):
        raise vlib.Inconclusive("binding self-test: corrupted digest not rejected")
    ctx.extra["binding_selftests"] = 1


def run(ctx):
    res = run_node(ctx, "C01")
    events, fails = judge(ctx, res)
    if not fails:
        selftest(ctx, events)
    ctx.assumptions.append("StateRootInHeader changes the block format, so it varies per world (all replicas of a world share it), not between replicas fed identical bytes")
    ctx.assumptions.append("digest covers the CURRENT height only (what every retention mode keeps); historic reads are C03's subject")
    # extension: token transfer log (spec/transferlog, harness/c01transfers)
    ext = _load_ext("c01_transfers")
    if ext:
        ext.run_ext(ctx)
    # extension: oracle services on real ledgers (spec/oraclesvc, harness/c01oraclesvc)
    ext = _load_ext("c01_oraclesvc")
    if ext:
        ext.run_ext(ctx)


def _load_ext(name):
    import importlib.util
    p = os.path.join(os.path.dirname(os.path.abspath(__file__)), name + ".py")
    if not os.path.exists(p):
        return None
    sp = importlib.util.spec_from_file_location("check_" + name, p)
    m = importlib.util.module_from_spec(sp)
    sp.loader.exec_module(m)
    return m
