"""C20 - a node syncing from peers converges to the same chain and state.

Part 1 (this file): the block queue (pkg/network/bqueue/queue.go).
  spec/bqueue/BlockQueueAbs.tla     abstract judge (what the first sentence of the statement says)
  spec/bqueue/BlockQueue.tla        program-counter model of queue.go, checked exhaustively: BlockQueue => BlockQueueAbs
  spec/bqueue/BlockQueueSim.tla     behaviour generator (simulation + shortest witnesses of named situations)
  spec/bqueue/BlockQueueTrace.tla   judge of traces recorded from the real bqueue.Queue
  harness/c20queue                  gated replay on the real queue with real goroutines
Part 2 (state synchronisation) is built separately: if tools/checks/c20_statesync.py exists it is imported and
its run_statesync(ctx) is called after part 1.
"""
import concurrent.futures
import importlib.util
import json
import os
import random

import vlib

RULE = ("cases = scenarios executed on the real bqueue.Queue through gated Queuer.Height/AddItem calls (one release "
        "per step of the program-counter model): TLC simulation behaviours of BlockQueue over 7 configurations, "
        "TLC shortest witnesses of named situations (stale insertion, replaced slot, failed AddItem, len drift, "
        "requester starvation, external advance, send on closed channel) and seeded random schedules over larger "
        "universes (Cap 2-5, 2-3 producers, up to 20 Put calls); every scenario is drained to a quiescent state decided "
        "from goroutine states and completed until every given block is on the ledger; distinct = distinct "
        "(kind, sequence of offers with observed heights, AddItem calls with results, quiescent states); "
        "non-trivial = at least two offers and one successful AddItem; each recorded event is judged by TLC "
        "(BlockQueueTrace against BlockQueueAbs)")

SUB = "bqueue"
PC = "BlockQueue.tla"
SIM = "BlockQueueSim.tla"

# exhaustive configurations that must hold: (cfg, timeout, tier: "both" | "quick" | "thorough"); longest first
MC_HOLD = [("MC_c3big.cfg", 3000, "thorough"), ("MC_c2big.cfg", 3000, "thorough"), ("MC_p3.cfg", 3000, "thorough"),
           ("MC_fixlen.cfg", 1800, "thorough"), ("MC_fixreq.cfg", 1800, "thorough"), ("MC_fixdis.cfg", 1800, "thorough"),
           ("MC_c3.cfg", 1800, "thorough"), ("MC_live.cfg", 1800, "thorough"), ("MC_liveblk.cfg", 1800, "thorough"),
           ("MC_c2.cfg", 900, "both"), ("MC_req.cfg", 900, "both"), ("MC_c3q.cfg", 900, "quick"),
           ("MC_blk.cfg", 900, "both"), ("MC_dis.cfg", 900, "both"), ("MC_h0.cfg", 900, "both"),
           ("MC_live3.cfg", 900, "both"), ("MC_abs.cfg", 300, "both")]
COVERAGE_CFGS = ("MC_c2.cfg", "MC_blk.cfg", "MC_dis.cfg", "MC_req.cfg")
OPTIONAL_ACTIONS = ("External", "Discard", "ReqDecide", "ReqDeliver", "BWaitRead", "BWaitLocked", "PutRead")
REQUIRED_ACTIONS = {"MC_blk.cfg": ("BWaitRead", "BWaitLocked", "PutRead"), "MC_dis.cfg": ("Discard", "PutRead"),
                    "MC_req.cfg": ("ReqDecide", "ReqDeliver"), "MC_c2.cfg": ("PutRead",)}
CONFIG_DOC = {
    "MC_abs.cfg": "abstract judge alone: Cap=3 MaxIdx=7 with external advances",
    "MC_c2.cfg": "Cap=2 H0=0 MaxIdx=5 MaxPuts=6, 2 producers, NonBlocking, Put-only",
    "MC_c3q.cfg": "Cap=3 H0=0 MaxIdx=5 MaxPuts=5, 2 producers, NonBlocking, Put-only",
    "MC_c3.cfg": "Cap=3 H0=0 MaxIdx=6 MaxPuts=6, 2 producers, NonBlocking, Put-only",
    "MC_c3big.cfg": "Cap=3 H0=0 MaxIdx=7 MaxPuts=7, 2 producers, NonBlocking, Put-only",
    "MC_h0.cfg": "Cap=2 H0=3 MaxIdx=7 MaxPuts=5, queue created over a ledger at height 3",
    "MC_blk.cfg": "Cap=2 MaxIdx=5 MaxPuts=5 Blocking mode",
    "MC_dis.cfg": "Cap=2 MaxIdx=4 MaxPuts=4 with Discard",
    "MC_req.cfg": "Cap=2 MaxIdx=5 PeerH=5 MaxPuts=6, offers chosen by the request rule (every property except ReqNotStarved)",
    "MC_fixlen.cfg": "repair proposed for the len drift (QuirkLenDrift=FALSE): MC_c2 constants, LenExact added",
    "MC_fixreq.cfg": "repaired model under the request rule: MC_req constants, LenExact and ReqNotStarved added",
    "MC_fixdis.cfg": "repaired model (QuirkNoDiscardRecheck=FALSE), Blocking + Discard, Cap=2 MaxIdx=4 MaxPuts=4: NoPanic",
    "MC_c2big.cfg": "Cap=2 H0=0 MaxIdx=5 MaxPuts=8, 2 producers, NonBlocking, Put-only",
    "MC_p3.cfg": "Cap=2 H0=0 MaxIdx=4 MaxPuts=5, 3 producers, NonBlocking, Put-only",
    "MC_live3.cfg": "Cap=3 MaxIdx=4 MaxPuts=4, weak fairness of the runner and of calls in flight: <>[] converged",
    "MC_liveblk.cfg": "Blocking mode, Cap=2 MaxIdx=4 MaxPuts=4, weak fairness: <>[] converged",
    "MC_live.cfg": "Cap=2 MaxIdx=4 MaxPuts=5, weak fairness of the runner and of calls in flight: <>[] converged",
}
# named deviations that TLC must catch (model non-vacuity)
MC_BUGS = ["MC_bugclear.cfg", "MC_bugkeep.cfg"]
SIMS = ["Sim_c2.cfg", "Sim_c3.cfg", "Sim_h0.cfg", "Sim_blk.cfg", "Sim_req.cfg", "Sim_ext.cfg", "Sim_dis.cfg"]
# witness kind -> must the faithful model reach it (vacuity guard)?  None = informative (a finding if reachable)
WITS = {"stale": True, "replaced": True, "failadd": True, "drift": None, "starved": None, "stuck": None,
        "panic": None, "unconverged": None}


def _mc(ctx, module, cfg, timeout, workers, extra=(), tag=None, heap="4g"):
    d = ctx.spec_scratch(SUB)
    # bounded heap: several TLC instances run side by side (and other checks share the machine)
    return ctx.tlc(d, module, cfg, timeout, workers=workers, extra=list(extra), tag=tag, jvm=["-Xmx" + heap])


def _parallel(jobs, width):
    """jobs: list of (key, callable). Returns {key: result}; the first exception is re-raised."""
    out = {}
    with concurrent.futures.ThreadPoolExecutor(max_workers=width) as ex:
        futs = {ex.submit(fn): key for key, fn in jobs}
        for f in concurrent.futures.as_completed(futs):
            out[futs[f]] = f.result()
    return out


def _hists(out):
    res = []
    for line in out.splitlines():
        i = line.find("@@HIST@@")
        if i < 0:
            continue
        js = vlib.extract_tla_string(line[i + 8:])
        if js is None:
            continue
        try:
            res.append(json.loads(js))
        except Exception:
            pass
    return res


def tlc_stage(ctx):
    """All TLC runs of the model / generation stages in one pool: exhaustive checks that must hold, named
    deviations that must be caught, simulations and witness searches.  Returns the behaviours to replay."""
    q = ctx.quick()
    ctx.spec_scratch(SUB)
    jobs = []
    mcw = 4 if q else 8
    dev_fast = bool(os.environ.get("C20_DEV_FAST"))  # development only: skip the exhaustive runs (mutation experiments)
    if dev_fast:
        ctx.extra["dev_fast_no_exhaustive_runs"] = True
    for cfg, to, tier in MC_HOLD:
        if tier == "thorough" and q or tier == "quick" and not q or dev_fast:
            continue
        extra = ["-coverage", "1"] if (not q and cfg in COVERAGE_CFGS) else []
        mod = "MCBlockQueueAbs.tla" if cfg == "MC_abs.cfg" else PC
        jobs.append((cfg, (lambda c=cfg, t=to, e=extra, m=mod: _mc(ctx, m, c, t, 2 if c == "MC_abs.cfg" else mcw, e))))
    for cfg in MC_BUGS:
        jobs.append((cfg, (lambda c=cfg: _mc(ctx, PC, c, 600, 2))))
    num = 120 if q else 2500
    for k, cfg in enumerate(SIMS):
        n = num if cfg not in ("Sim_blk.cfg",) else max(10, num // 6)
        jobs.append((cfg, (lambda c=cfg, n=n, k=k: _mc(ctx, SIM, c, 300 if q else 1500, 1,
                                                       ["-simulate", "num=%d" % n, "-depth", "70", "-seed", str(ctx.seed * 100 + k)],
                                                       tag="sim-" + c.replace(".cfg", ""), heap="2g"))))
    for kind in WITS:
        cfg = "Wit_%s.cfg" % kind
        jobs.append((cfg, (lambda c=cfg: _mc(ctx, SIM, c, 600, 2, tag="wit-" + c.replace(".cfg", ""), heap="2g"))))
    rs = _parallel(jobs, 5 if q else 3)

    # ---- exhaustive checks
    for cfg, to, tier in MC_HOLD:
        if cfg not in rs:
            continue
        r = rs[cfg]
        if r["timed_out"]:
            raise vlib.Inconclusive("TLC timed out on %s" % cfg)
        if r["error"]:
            raise vlib.ModelError("TLC reported an error on %s: %s" % (cfg, r["error"]), r)
        if "states" not in r:
            raise vlib.Inconclusive("could not parse TLC output for %s" % cfg)
        ctx.states += r["states"]
        ctx.transitions += r["transitions"]
        vlib.log("MC %s: %d distinct states, %d generated, depth %s, %.1fs" % (cfg, r["states"], r["transitions"], r.get("depth"), r["wall_s"]))
        if "The coverage statistics at" in r["out"]:
            un = [a for a in vlib.uncovered_actions(r["out"]) if a not in OPTIONAL_ACTIONS or a in REQUIRED_ACTIONS.get(cfg, ())]
            if un:
                raise vlib.Inconclusive("vacuity guard: actions never taken in %s: %s" % (cfg, un))
    for cfg in MC_BUGS:
        r = rs[cfg]
        if r["timed_out"] or not r["error"] or "is violated" not in r["out"]:
            raise vlib.Inconclusive("named deviation %s not detected by the model properties (vacuous model): %s" % (cfg, r["error"]))
        ctx.extra["model_selftests"] = ctx.extra.get("model_selftests", 0) + 1
    ctx.extra["exhaustive_configs"] = {c: CONFIG_DOC[c] for c in rs if c in CONFIG_DOC}
    ctx.extra["exhaustive_view"] = "all variables except the step label"

    # ---- behaviours
    rnd = random.Random(ctx.seed)
    behaviours = []
    witness_counts = {}
    for cfg in SIMS:
        r = rs[cfg]
        hs = _hists(r["out"])
        if not hs:
            raise vlib.Inconclusive("simulation %s produced no behaviour: %s\n%s" % (cfg, r["error"], vlib.tail(r["out"], 20)))
        seen, uniq = set(), []
        for h in hs:
            k = json.dumps(h, sort_keys=True)
            if k not in seen:
                seen.add(k)
                uniq.append(h)
        rnd.shuffle(uniq)
        cap = (30 if cfg == "Sim_blk.cfg" else 400) if q else (300 if cfg == "Sim_blk.cfg" else 3000)
        uniq = uniq[:cap]
        vlib.log("SIM %s: %d behaviours (%d kept), %.1fs" % (cfg, len(hs), len(uniq), r["wall_s"]))
        for n, h in enumerate(uniq):
            behaviours.append({"src": "tlc-%s-%d" % (cfg[4:-4], n), "kind": "sim-" + cfg[4:-4], "steps": h})
    for kind, must in WITS.items():
        cfg = "Wit_%s.cfg" % kind
        r = rs[cfg]
        if r["timed_out"] or r["error"]:
            raise vlib.Inconclusive("witness search %s failed: %s\n%s" % (cfg, r["error"], vlib.tail(r["out"], 20)))
        hs = _hists(r["out"])
        witness_counts[kind] = len(hs)
        ctx.states += r.get("states", 0)
        ctx.transitions += r.get("transitions", 0)
        if must and not hs:
            raise vlib.Inconclusive("vacuity guard: the model never reaches situation '%s'" % kind)
        hs.sort(key=len)
        # the shortest ones first, then a seeded sample of the rest
        nkeep = (30 if kind != "panic" else 6) if q else 500
        keep = hs[:6] + (rnd.sample(hs[6:], min(len(hs) - 6, nkeep)) if len(hs) > 6 else [])
        vlib.log("WIT %s: %d witnesses (%d kept), %d states, %.1fs" % (kind, len(hs), len(keep), r.get("states", 0), r["wall_s"]))
        for n, h in enumerate(keep):
            behaviours.append({"src": "wit-%s-%d" % (kind, n), "kind": "wit-" + kind, "steps": h})
    ctx.extra["model_witnesses"] = witness_counts
    ctx.extra["model_findings"] = {
        "len_drift_reachable": witness_counts.get("drift", 0) > 0,
        "requester_starvation_reachable": witness_counts.get("starved", 0) > 0,
        "external_advance_stuck_reachable": witness_counts.get("stuck", 0) > 0,
        "blocking_put_after_discard_panic_reachable": witness_counts.get("panic", 0) > 0,
        "put_only_unconverged_quiescent_state_reachable": witness_counts.get("unconverged", 0) > 0,
    }
    return behaviours


def split_scenarios(events):
    starts = [i for i, e in enumerate(events) if e["event"] == "init"]
    bounds = {}
    for k, s in enumerate(starts):
        bounds[s] = starts[k + 1] if k + 1 < len(starts) else len(events)
    return starts, bounds


def judge_chunks(ctx, events, chunk=300000):
    """TLC judges the recorded trace in chunks cut at scenario boundaries (the whole log is held in memory by
    the trace specification). Line numbers of the failure records are mapped back to the whole trace."""
    starts, bounds = split_scenarios(events)
    fails = []
    lo = 0
    n = 0
    while lo < len(events):
        hi = lo
        for s in starts:
            if s < lo:
                continue
            if bounds[s] - lo > chunk and hi > lo:
                break
            hi = bounds[s]
        path = os.path.join(ctx.work, "chunk-%d.ndjson" % n)
        vlib.write_ndjson(path, events[lo:hi])
        for f in ctx.trace_judge(SUB, "BlockQueueTrace.tla", "Trace_BlockQueue.cfg", path, timeout=3000):
            f["line"] += lo
            fails.append(f)
        os.remove(path)
        lo = hi
        n += 1
    ctx.extra["trace_chunks"] = n
    return fails


def judge(ctx, events, fails):
    """Turn TLC's @@FAIL@@ records into verdicts. Returns the list of scenario starts with a property failure."""
    starts, bounds = split_scenarios(events)
    import bisect
    bad = {}
    harness = []
    for f in fails:
        li = f["line"] - 1
        s = starts[bisect.bisect_right(starts, li) - 1]
        names = sorted(f["what"])
        hn = [n for n in names if n.startswith("H:")]
        if hn:
            harness.append((s, li, hn))
            continue
        bad.setdefault(s, []).append((li, names))
    if harness:
        s, li, hn = harness[0]
        raise vlib.Inconclusive("harness consistency condition %s failed at trace line %d (scenario %s): %s" % (
            hn, li + 1, events[s].get("src"), json.dumps(events[li])))
    outside = {}
    for s, lst in sorted(bad.items()):
        init = events[s]
        seg = events[s:bounds[s]]
        li, names = lst[0]
        ev = events[li]
        for name in names:
            if name == "ConvergedExt":
                # the ledger advanced by another writer while the next block sat in the queue: outside the
                # configuration the statement covers (all blocks of the statement arrive through Put)
                o = outside.setdefault("external-advance-not-resignalled", {"count": 0})
                o["count"] += 1
                if "sample" not in o:
                    o["sample"] = {"src": init.get("src"), "events": seg[:li - s + 1][-25:]}
                continue
            sig = {"kind": name, "mode": init.get("mode")}
            if name == "ReqNotStarved":
                sig = {"kind": "requester-starved", "mode": init.get("mode"),
                       "len_drift": bool(ev.get("len") is not None and ev.get("len") != ev.get("occ")),
                       "stale_insert": any(e["event"] == "ret" and e.get("i", 0) <= e.get("h", -1) and
                                           any(o["event"] == "offer" and o["item"] == e["item"] and o["h"] < o["i"] for o in seg)
                                           for e in seg[:li - s + 1])}
            elif name == "Converged":
                sig = {"kind": "not-converged", "mode": init.get("mode"), "scenario": "requester" if init.get("req") else "put-only"}
            ctx.violation(sig, {"what": "abstract predicate %s is false on the real queue at a quiescent state" % name
                                if ev["event"] == "quiesce" else "abstract predicate %s rejected a step of the real queue" % name,
                                "src": init.get("src"), "failed_event": ev, "history": seg[:li - s + 1]})
            break
    if outside:
        ctx.extra["outside_statement_findings"] = outside
    return set(bad)


def selftest(ctx, events, badstarts):
    """Binding self-test: corrupt one field of a good recorded scenario; TLC must reject it."""
    starts, bounds = split_scenarios(events)
    done = {}
    for s in starts:
        if s in badstarts:
            continue
        seg = events[s:bounds[s]]
        init = seg[0]
        if init["ext"] or init["req"] or init["mode"] != "nonblocking":
            continue
        oks = [k for k, e in enumerate(seg) if e["event"] == "apply" and e["ok"]]
        qs = [k for k, e in enumerate(seg) if e["event"] == "quiesce"]
        if "dropapply" not in done and len(oks) >= 2 and qs and qs[-1] > oks[-1]:
            # the last successful application before a quiescent state never happened: every later height is one lower
            k = oks[-1]
            cut = []
            for j, e in enumerate(seg):
                if j == k:
                    continue
                e = dict(e)
                if j > k and "h" in e:
                    e["h"] = e["h"] - 1
                cut.append(e)
                if j > k and e["event"] == "quiesce":
                    break
            done["dropapply"] = (cut, "Converged")
        if "reorder" not in done and len(oks) >= 2:
            # two successful applications swapped: the ledger would have taken block h+2 before h+1
            a, b = oks[0], oks[1]
            sw = [dict(e) for e in seg[:b + 1]]
            sw[a]["i"], sw[b]["i"] = sw[b]["i"], sw[a]["i"]
            sw[a]["item"], sw[b]["item"] = sw[b]["item"], sw[a]["item"]
            done["reorder"] = (sw, "InOrderOnce")
        if "phantom" not in done and oks:
            # an application of a block nobody offered
            k = oks[0]
            ph = [dict(e) for e in seg[:k + 1]]
            ph = [e for e in ph if not (e["event"] == "offer" and e["i"] == ph[k]["i"])]
            done["phantom"] = (ph, "AppliedWasGiven")
        if len(done) == 3:
            break
    if len(done) < 3:
        raise vlib.Inconclusive("self-test could not find scenarios to corrupt (%s)" % sorted(done))
    for name, (seg, expect) in done.items():
        path = os.path.join(ctx.work, "selftest-%s.ndjson" % name)
        vlib.write_ndjson(path, seg)
        st, tr = ctx.states, ctx.transitions
        fails = ctx.trace_judge(SUB, "BlockQueueTrace.tla", "Trace_BlockQueue.cfg", path, timeout=300)
        ctx.states, ctx.transitions = st, tr
        if not any(expect in f["what"] for f in fails):
            raise vlib.Inconclusive("binding self-test %s: corrupted trace was not rejected (%s expected, got %s)" % (
                name, expect, [f["what"] for f in fails]))
        ctx.extra["binding_selftests"] = ctx.extra.get("binding_selftests", 0) + 1


def run_queue(ctx):
    q = ctx.quick()
    behaviours = tlc_stage(ctx)
    ind = os.path.join(ctx.work, "in-c20")
    os.makedirs(ind)
    json.dump(behaviours, open(os.path.join(ind, "behaviours.json"), "w"))
    res = ctx.go_driver("c20queue", "TestDriver", timeout=1500 if q else 3000,
                        env={"VERIF_IN": ind, "VERIF_RANDOM": 4000 if q else 40000, "VERIF_WORKERS": 2})
    ctx.absorb(res)
    trace = os.path.join(res["_out"], "trace.ndjson")
    events = vlib.read_ndjson(trace)
    fails = judge_chunks(ctx, events)
    ctx.traces_validated += res.get("traces", 0)
    ctx.extra["trace_events"] = len(events)
    bad = judge(ctx, events, fails)
    selftest(ctx, events, bad)
    ctx.assumptions += [
        "ledger contract implemented by the harness: AddItem(b) succeeds iff b.Index == height+1 (property C06 covers the real ledger)",
        "request rule (Server.requestBlocks, server.go:1504-1518) transcribed with MaxHashesCount = 1 block; chunk start chosen anywhere in the window",
        "the receive on checkBlocks has no gate: schedules where the runner is slow to take a pending signal are covered by the model only",
        "quiescence is decided from goroutine states reported by the Go runtime (runner parked in chan receive inside Run, no call in flight)",
    ]


def run_once(ctx):
    """The ledger side of "in index order, each at most once": concurrent producers offering the same block to the real
    Blockchain.AddBlock (spec/bqueue/LedgerOnce.tla, harness/c20sync TestOnce, judge LedgerOnceTrace)."""
    q = ctx.quick()
    ctx.tlc_mc(SUB, "LedgerOnce.tla", "MC_once.cfg", timeout=600)
    try:
        ctx.tlc_mc(SUB, "LedgerOnce.tla", "MC_once_bug.cfg", timeout=300)
        raise vlib.Inconclusive("named deviation CheckOutsideLock not detected by LedgerOnce")
    except vlib.ModelError:
        ctx.extra["once_model_selftests"] = 1
    res = ctx.go_driver("c20sync", "TestOnce", env={"VERIF_ONCE_WORLDS": 2 if q else 12, "VERIF_ONCE_BLOCKS": 40 if q else 120}, timeout=1800)
    ctx.absorb(res)
    trace = os.path.join(res["_out"], "trace.ndjson")
    events = vlib.read_ndjson(trace)
    fails = ctx.trace_judge(SUB, "LedgerOnceTrace.tla", "Trace_Once.cfg", trace, timeout=600)
    ctx.traces_validated += res.get("traces", 0)
    ctx.extra["once_rounds"] = sum(1 for e in events if e["event"] == "round")
    for f in fails:
        ev = events[f["line"] - 1]
        for w in sorted(f["what"]):
            ctx.violation({"kind": w, "part": "ledger-once", "txless": ev.get("ntx") == 0},
                          {"what": "%s false when %s copies of block %s (+%s stale) were offered to AddBlock concurrently" % (
                              w, ev.get("copies"), ev.get("h"), ev.get("stale")), "event": ev, "line": f["line"]})
    if not fails:   # binding self-test: a doubled store must be rejected
        bad = [dict(e) for e in events[:6]]
        for e in bad:
            if e["event"] == "round":
                e["stored"] = 2
                break
        path = os.path.join(ctx.work, "selftest-once.ndjson")
        vlib.write_ndjson(path, bad)
        st, tr = ctx.states, ctx.transitions
        f2 = ctx.trace_judge(SUB, "LedgerOnceTrace.tla", "Trace_Once.cfg", path, timeout=300)
        ctx.states, ctx.transitions = st, tr
        if not any("StoredExactlyOnce" in f["what"] for f in f2):
            raise vlib.Inconclusive("ledger-once binding self-test: doubled store not rejected")
        ctx.extra["once_binding_selftests"] = 1


def run(ctx):
    run_queue(ctx)
    run_once(ctx)
    p = os.path.join(os.path.dirname(os.path.abspath(__file__)), "c20_statesync.py")
    if os.path.exists(p):
        spec = importlib.util.spec_from_file_location("check_c20_statesync", p)
        mod = importlib.util.module_from_spec(spec)
        spec.loader.exec_module(mod)
        mod.run_statesync(ctx)
    # extension: the P2P server's synchronisation logic over real TCP loopback (spec/netsync, harness/c20net)
    p = os.path.join(os.path.dirname(os.path.abspath(__file__)), "c20_net.py")
    if os.path.exists(p):
        spec = importlib.util.spec_from_file_location("check_c20_net", p)
        mod = importlib.util.module_from_spec(spec)
        spec.loader.exec_module(mod)
        mod.run_ext(ctx)
