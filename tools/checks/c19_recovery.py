"""Extension of the C19 check: dBFT RECOVERY as explicit actions and MORE THAN ONE HEIGHT.  Called from c19.py:

    ext = load('c19_recovery'); ext.run_ext(ctx)

Models (spec/dbftrec):
  DBFTRec.tla    one height; RecoveryRequest / RecoveryMessage are payloads of their own: who asks, who answers (the F+1 validators
                 after the requester, and every validator that sent its Commit), what a RecoveryMessage carries as a function of
                 its sender's state, what the receiver's decoder rebuilds and what processing it does.  Abstract level: Agreement,
                 CommitLock, Acceptable, AcceptJustified, RecoverySound (invariants), RecoveryAdequate (action property).
                 Eight named deviations (constant Bug / switch Relabel) that TLC must refute.
  DBFTChain.tla  consecutive heights, primary rotating with the height, cache of future-height payloads replayed when the height
                 starts, late payloads ignored, block relay.  Abstract level: AgreementH, NoSkip, Acceptable, AcceptJustifiedH,
                 CacheHarmless.  Four named deviations.
  DBFTRecSim / DBFTChainSim   goal-directed schedule generators;  DBFTRecTrace.tla the judge of recorded traces.
Real code: harness/c19dbft TestRecDriver (rec_*_test.go): 4 and 7 real consensus services on real ledgers; every payload sent is
decoded and recorded with its content, every RecoveryMessage with its compact payloads as they are on the wire AND as the node's
real decoder rebuilds them; schedules of the two models, starved runs, scripted synchronous recovery windows, scripted
future-height scenarios, and the schedule of the defect repaired by 21f472b.  The same trace is also judged by
spec/dbft/DBFTTrace.tla (Progress / TxIncluded with the scoping of the registered check, unchanged)."""
import concurrent.futures
import json
import os
import random
import re

import vlib

PART = "c19_recovery"

# (module, cfg, what it is)
MC_QUICK = [
    ("MCDBFTRecReach.tla", "MC_Rec_reach.cfg"),   # the view-1 start state is reachable (13 steps replayed with the model's actions)
    ("MCDBFTRec.tla", "MC_Rec_v0.cfg"),           # view 0, one backup silent, one requester, 2 RecoveryMessages
    ("MCDBFTRec.tla", "MC_Rec_q2.cfg"),           # views 0..1, first primary silent, one requester, 1 RecoveryMessage
    ("MCDBFTRec.tla", "MC_Rec_v1.cfg"),           # from the view-1 state (commit of view 0 outstanding), one requester, 1 RecoveryMessage
    ("MCDBFTChain.tla", "MC_Chain_q.cfg"),        # 2 heights, view 0, one silent
    ("MCDBFTChain.tla", "MC_Chain_h3.cfg"),       # 3 heights
    ("MCDBFTChain.tla", "MC_Chain_lag.cfg"),      # a validator held back meets all the traffic of 2 heights in any order
]
MC_THOROUGH = [   # longest first: three run side by side
    ("MCDBFTRec.tla", "MC_Rec_v1r2.cfg"),         # from the view-1 state, two requesters, 2 RecoveryMessages
    ("MCDBFTChain.tla", "MC_Chain_all.cfg"),      # 2 heights, nobody silent: every interleaving of four validators
    ("MCDBFTRec.tla", "MC_Rec_q1r2.cfg"),         # views 0..1 from the initial state, one backup silent, 2 RecoveryMessages
    ("MCDBFTRec.tla", "MC_Rec_q1.cfg"),           # ... 1 RecoveryMessage
    ("MCDBFTChain.tla", "MC_Chain_lag3.cfg"),     # the held-back validator over 3 heights
]
# named deviations: (module, cfg, properties one of which TLC has to report)
BUGS_QUICK = [
    ("MCDBFTRec.tla", "MC_Rec_bug_relabel.cfg", {"RecoverySound"}),          # the defect repaired by 21f472b
    ("MCDBFTRec.tla", "MC_Rec_bug_LosesView.cfg", {"RecoverySound", "RecoveryAdequate"}),
    ("MCDBFTRec.tla", "MC_Rec_bug_DropsResponses.cfg", {"RecoveryAdequate"}),
    ("MCDBFTRec.tla", "MC_Rec_bug_WitnessAnyView.cfg", {"Acceptable"}),
    ("MCDBFTChain.tla", "MC_Chain_bug_CacheNow.cfg", {"CacheHarmless", "Acceptable"}),
    ("MCDBFTChain.tla", "MC_Chain_bug_AdvanceAny.cfg", {"NoSkip"}),
]
BUGS_THOROUGH = [
    ("MCDBFTRec.tla", "MC_Rec_bug_RequesterView.cfg", {"RecoverySound"}),
    ("MCDBFTRec.tla", "MC_Rec_bug_CVIndex.cfg", {"RecoverySound"}),
    ("MCDBFTRec.tla", "MC_Rec_bug_Quorum.cfg", {"AcceptJustified", "Agreement"}),
    ("MCDBFTRec.tla", "MC_Rec_bug_NoCommitLock.cfg", {"CommitLock", "Agreement"}),
    ("MCDBFTChain.tla", "MC_Chain_bug_OldAccepted.cfg", {"CacheHarmless", "Acceptable"}),
    ("MCDBFTChain.tla", "MC_Chain_bug_CacheLost.cfg", {"CacheHarmless"}),
]


def _mc_parallel(ctx, jobs, timeout, par):
    """Exhaustive runs side by side (each TLC with few workers); accounting is done here, serially."""
    d = ctx.spec_scratch("dbftrec")
    w = max(2, ctx.ncpu // par)

    def one(job):
        return job, ctx.tlc(d, job[0], job[1], timeout, workers=w)
    with concurrent.futures.ThreadPoolExecutor(max_workers=par) as ex:
        results = list(ex.map(one, jobs))
    for job, r in results:
        if r["timed_out"]:
            raise vlib.Inconclusive("TLC timed out on %s/%s" % job)
        if r["error"]:
            raise vlib.ModelError("TLC reported an error on %s/%s: %s" % (job[0], job[1], r["error"]), r)
        if "states" not in r:
            raise vlib.Inconclusive("could not parse TLC output for %s/%s" % job)
        ctx.states += r["states"]
        ctx.transitions += r["transitions"]
        vlib.log("MC %s/%s: %d distinct states, %d generated, depth %s, %.1fs" % (
            job[0], job[1], r["states"], r["transitions"], r.get("depth"), r["wall_s"]))


def _bugs_parallel(ctx, bugs, timeout, par):
    d = ctx.spec_scratch("dbftrec")

    def one(b):
        return b, ctx.tlc(d, b[0], b[1], timeout, workers=2)
    with concurrent.futures.ThreadPoolExecutor(max_workers=par) as ex:
        results = list(ex.map(one, bugs))
    for (mod, cfg, want), r in results:
        if r["timed_out"]:
            raise vlib.Inconclusive("TLC timed out on %s/%s" % (mod, cfg))
        got = set(re.findall(r"Invariant (\w+) is violated", r["out"])) | set(re.findall(r"Action property (\w+) is violated", r["out"]))
        if not (got & want):
            raise vlib.Inconclusive("%s: named deviation %s not refuted by %s (TLC said: %s / %s) - vacuous model" % (
                PART, cfg, sorted(want), sorted(got), r["error"]))
        ctx.extra["recovery_model_selftests"] = ctx.extra.get("recovery_model_selftests", 0) + 1


def _schedules(ctx, module, cfg, num, depth, keep, seed, prefer=()):
    goals = {}
    for h in ctx.tlc_sim("dbftrec", module, cfg, num=num, depth=depth, timeout=900, seed=seed):
        goals.setdefault(h["goal"], []).append(h["hist"])
    ctx.extra.setdefault("recovery_goal_hits", {}).update({g: len(v) for g, v in goals.items()})
    out = []
    for g, hs in sorted(goals.items()):
        if len(hs) > 600:      # the prefix filter below is quadratic
            hs = random.Random(ctx.seed).sample(hs, 600)
        hs.sort(key=len)
        uniq = []
        for x in hs:
            if not any(x[: len(u)] == u for u in uniq):
                uniq.append(x)
        random.Random(ctx.seed).shuffle(uniq)
        out.extend(uniq[: (keep * 2 if g in prefer else keep)])
    return out


def run_ext(ctx):
    q = ctx.quick()
    # 1. exhaustive: Impl => Abstract within the small configurations
    _mc_parallel(ctx, MC_QUICK, timeout=1800, par=4)
    if not q:
        _mc_parallel(ctx, MC_THOROUGH, timeout=5400, par=3)
    # 2. non-vacuity: every named deviation is refuted by the abstract level
    _bugs_parallel(ctx, BUGS_QUICK + ([] if q else BUGS_THOROUGH), timeout=900, par=6)
    # 3. schedules: goal-directed random walks of the two models
    rec = _schedules(ctx, "DBFTRecSim.tla", "Sim_Rec_goals.cfg", 1200 if q else 12000, 80, 1 if q else 5, ctx.seed + 300, prefer=("R3", "R4"))
    chain = _schedules(ctx, "DBFTChainSim.tla", "Sim_Chain_goals.cfg", 1500 if q else 15000, 120, 2 if q else 5, ctx.seed + 400, prefer=("C1", "C3"))
    if not rec or not chain:
        raise vlib.Inconclusive("%s: no schedules generated (rec %d, chain %d)" % (PART, len(rec), len(chain)))
    ind = os.path.join(ctx.work, "in-c19rec")
    os.makedirs(ind, exist_ok=True)
    json.dump(rec, open(os.path.join(ind, "rec_schedules.json"), "w"))
    json.dump(chain, open(os.path.join(ind, "chain_schedules.json"), "w"))
    ctx.extra["recovery_schedules"] = {"rec": len(rec), "chain": len(chain)}
    # 4. the real services
    res = ctx.go_driver("c19dbft", "TestRecDriver", env={"VERIF_IN": ind, "VERIF_EXTRA": 24 if q else 60, "VERIF_PICKS": 1 if q else 2,
                                                         "VERIF_STARVE_EVERY": 2 if q else 1}, timeout=3400)
    ctx.absorb(res)
    trace = os.path.join(res["_out"], "trace.ndjson")
    events = vlib.read_ndjson(trace)
    kinds = {}
    for e in events:
        k = e["event"]
        if k in ("sent", "send", "recovery_sent"):
            continue
        kinds[k] = kinds.get(k, 0) + 1
    ctx.extra["recovery_event_kinds"] = kinds
    ctx.extra["recovery_trace_events"] = len(events)
    # 5. TLC judges the trace: the recovery / chain predicates, and Progress with the registered check's own scoping
    fails = ctx.trace_judge("dbftrec", "DBFTRecTrace.tla", "Trace_Rec.cfg", trace, timeout=2400)
    fails2 = ctx.trace_judge("dbft", "DBFTTrace.tla", "Trace_DBFT.cfg", trace, timeout=2400)
    ctx.traces_validated += res.get("traces", 0)
    runinfo = {}
    cur = None
    for i, e in enumerate(events):
        if e["event"] == "init":
            cur = {"n": e.get("n"), "run_kind": e.get("kind"), "variant": e.get("variant") or e.get("subset") or e.get("starved")}
        runinfo[i] = cur
    for f in fails + fails2:
        ev = events[f["line"] - 1]
        info = runinfo.get(f["line"] - 1) or {}
        for w in sorted(f["what"]):
            sig = {"part": PART, "kind": w, "n": info.get("n"), "run": info.get("run_kind")}
            if w == "RecoverySound":
                bad = (f.get("ctx") or {}).get("bad") or []
                sig["level"] = sorted(set(b.get("level") for b in bad))[0] if bad else "author"
                sig["payload"] = sorted(set(b.get("ptype") for b in bad))[0] if bad else ev.get("type")
            elif w == "CacheHarmless":
                sig["phase"] = ev.get("phase") or ev.get("order")
            ctx.violation(sig, {"what": "%s false at event %s (real consensus services, %s run)" % (w, ev.get("event"), info.get("run_kind")),
                                "event": ev if ev.get("event") != "recovery_sent" else {k: ev[k] for k in ("id", "node", "vi", "h", "view")},
                                "ctx": f.get("ctx"), "line": f["line"], "variant": info.get("variant")})
    if not fails and not fails2:
        # vacuity guard (only when nothing was reported: a tree on which the scenarios cannot even be set up is judged by what it did)
        for need in ("recwin_close", "cache_replayed", "cache_probe", "queued_at"):
            if not kinds.get(need):
                raise vlib.Inconclusive("%s: the driver produced no %s event (scenario did not run)" % (PART, need))
        if not any(e["event"] == "recovery_sent" and e["wire"]["commits"] for e in events):
            raise vlib.Inconclusive("%s: no RecoveryMessage with commits was observed" % PART)
        selftest(ctx, events)
    ctx.assumptions.append("c19_recovery: exhaustive runs are bounded: N=4; DBFTRec views 0..1, at most 1 (thorough: 2) RecoveryMessages on the network per behaviour (further ones are lost at the sender: loss is part of the network model), RecoveryRequests by one (two) designated validators, the choice RecoveryRequest / ChangeView on a timeout and the set-aside of preparations while changing view over-approximated; runs 'v1' start in a view-1 state whose reachability TLC checks separately; DBFTChain views 0 only, 2-3 heights, no recovery traffic")
    ctx.assumptions.append("c19_recovery: RecoveryAdequate is judged only inside the synchronous recovery windows the driver opens (nobody silent, everything sent from the window's start delivered, the requester had heard nothing of the height); a requester locked by a Commit of a lower view is exempt (dBFT 2.0 dead end); preparations count only from RecoveryMessages delivered while the requester was not asking to leave that view")
    ctx.assumptions.append("c19_recovery: observations a verdict rests on are event based (a delivered payload = one completed iteration of the service loop; a relayed block = the service re-armed its timer for the next height, which dbft does after replaying its cache); wall-clock only bounds a dead driver (exit 2)")


def selftest(ctx, events):
    """Binding self-test: corrupted copies of a good trace must be rejected with the right predicate."""
    ev, done = [], set()
    for e in events:
        e = json.loads(json.dumps(e))
        if e["event"] == "recovery_sent" and "sound" not in done and e["ext"]["commits"]:
            e["ext"]["commits"][0]["view"] += 1          # a commit re-attributed to another view
            done.add("sound")
        elif e["event"] == "recovery_sent" and "wire" not in done and e["wire"]["preps"]:
            e["wire"]["preps"][0]["vi"] = (e["wire"]["preps"][0]["vi"] + 1) % 4   # a preparation attributed to another validator
            done.add("wire")
        elif e["event"] == "cache_probe" and "probe" not in done and e["phase"] == "future":
            e["sends_after"] += 1
            done.add("probe")
        elif e["event"] == "cache_replayed" and "exact" not in done and e.get("got_req") and e.get("sent_resp") and e.get("view") == 0:
            e["sent_resp"] = False
            done.add("exact")
        elif e["event"] == "queued_at" and "skip" not in done:
            e["h"] = e["lh"] + 2
            done.add("skip")
        ev.append(e)
    # an inadequate window: drop what the requester did after the RecoveryMessages reached it
    out, inwin, node, h = [], False, None, None
    for e in ev:
        if e["event"] == "recwin_open" and "adequate" not in done:
            inwin, node, h = True, e["node"], e["h"]
        elif e["event"] == "recwin_close" and inwin:
            e = dict(e)
            e["lh"] = h - 1
            inwin = False
            done.add("adequate")
        elif inwin and ((e["event"] in ("sent", "send", "accept", "queued", "queued_at") and e.get("node", e.get("from")) == node
                         and e["event"] != "sent") or (e["event"] == "sent" and e.get("node") == node and e.get("type") in ("Commit", "PrepareResponse", "ChangeView", "RecoveryMessage", "PrepareRequest"))):
            continue
        out.append(e)
    want = {"sound": "RecoverySound", "wire": "RecoverySound", "probe": "CacheHarmless", "exact": "CacheHarmless", "skip": "NoSkip", "adequate": "RecoveryAdequate"}
    if set(want) - done:
        raise vlib.Inconclusive("%s: binding self-test found nothing to corrupt for %s" % (PART, sorted(set(want) - done)))
    path = os.path.join(ctx.work, "selftest-rec.ndjson")
    vlib.write_ndjson(path, out)
    st, tr = ctx.states, ctx.transitions
    fails = ctx.trace_judge("dbftrec", "DBFTRecTrace.tla", "Trace_Rec.cfg", path, timeout=900)
    ctx.states, ctx.transitions = st, tr
    got = set(w for f in fails for w in f["what"])
    missing = set(want.values()) - got
    if missing:
        raise vlib.Inconclusive("%s: binding self-test: corrupted trace not rejected for %s (got %s)" % (PART, sorted(missing), sorted(got)))
    ctx.extra["recovery_binding_selftests"] = len(done)
