"""Temporary standalone runner of the C08 notary-pool extension (not registered)."""
RULE = "extension"


def run(ctx):
    import importlib.util
    import os
    p = os.path.join(os.path.dirname(os.path.abspath(__file__)), "c08_notary.py")
    spec = importlib.util.spec_from_file_location("check_c08_notary", p)
    mod = importlib.util.module_from_spec(spec)
    spec.loader.exec_module(mod)
    mod.run_ext(ctx)
