"""Extension of C05 (and of the "committee / validator answers" clause of C01) - the GOVERNANCE side of the native NEO / GAS
contracts: the election of committee and validators with its timing, fee burns, the primary's reward, the committee
reward, and the GAS claimed by NEO holders and voters (unclaimedGas).

Specification: spec/governance
  Election.tla   the election as a pure function of the candidate table
  GovJudge.tla   THE JUDGE, generic in the arithmetic: abstract rules (verdict) + code-shaped predictions (drift, "d:...")
  GovImpl.tla    code-shaped model of native_neo.go / native_gas.go with the caches (votesChanged, committee with votes,
                 newEpoch*), judged by GovJudge with TLC integers; eleven named deviations that TLC must refute
  GovSim.tla     scenario generator (simulation of GovImpl -> JSON histories)
  GovTrace.tla   GovJudge with BigInt limbs over what harness/c05gov recorded from real chains
Real code: harness/c05gov drives real chains (histgen random histories with several committee sizes, notary-assisted
transactions and random primary indexes; TLC scenarios and hand-written edge scenarios realised with scripted
transactions) and records one observation per block.

Call from the registered check of C05:   ext = load('c05_gov'); ext.run_ext(ctx)
Violations carry "part": "gov" and "kind": Committee | Validators | CommitteeReward | PrimaryReward | FeeBurn | Claim |
Unclaimed in their signature (plus "class" where the history class is recognised)."""
import concurrent.futures as cf
import copy
import json
import os
import random
import shutil

import vlib

PART = "gov"
SUB = "governance"
BASE = 1 << 15
DEVIATIONS = ["StaleFlag", "RefreshLate", "RefreshEarly", "TieInsertion", "TurnoutLeq", "CountUnregistered", "RewardNext",
              "NoDouble", "ClaimNewBalance", "NotaryToPrimary", "PolicyNoFlag"]
KINDS = ("Committee", "Validators", "CommitteeReward", "PrimaryReward", "FeeBurn", "Claim", "Unclaimed")
SPEC_FIELDS = ("event", "hist", "h", "n", "k", "standby", "keys", "cand", "voters", "neo", "gpb", "nafee", "committee", "nextvals",
               "compvals", "primary", "txs", "onev", "postev", "neoev", "votev", "mints", "unclaimed", "stored", "gpv")


def to_int(n):
    v = 0
    for d in reversed(n["mag"]):
        v = v * BASE + d
    return -v if n["neg"] else v


def to_num(v):
    neg, v, mag = v < 0, abs(v), []
    while v:
        mag.append(v % BASE)
        v //= BASE
    return {"neg": neg, "mag": mag}


# ------------------------------------------------------------------------------------------------ model stage
def _mc(ctx, cfg, timeout, workers):
    """One exhaustive TLC run (thread-safe: bookkeeping is done by the caller)."""
    d = ctx.spec_scratch(SUB)
    return ctx.tlc(d, "MCGov.tla", cfg, timeout, workers=workers)


def model_jobs(ctx):
    q = ctx.quick()
    jobs = [("mc", c) for c in (["MC_Election_q.cfg", "MC_Rewards_q.cfg", "MC_Policy_q.cfg"] if q else
                                ["MC_Election.cfg", "MC_Rewards.cfg", "MC_Policy.cfg"])]
    devs = list(DEVIATIONS)
    if q:
        # the finding-related deviation always, three of the others in rotation
        rest = [d for d in DEVIATIONS if d != "PolicyNoFlag"]
        random.Random(ctx.seed).shuffle(rest)
        devs = ["PolicyNoFlag"] + rest[:3]
    jobs += [("dev", "MC_Dev_%s.cfg" % d) for d in devs]
    return jobs


def account_models(ctx, results):
    for (kind, cfg), r in results:
        if r["timed_out"]:
            raise vlib.Inconclusive("TLC timed out on %s" % cfg)
        if kind == "mc":
            if r["error"]:
                raise vlib.ModelError("TLC reported an error on GovImpl/%s: %s" % (cfg, r["error"]), r)
            if "states" not in r:
                raise vlib.Inconclusive("could not parse TLC output for %s" % cfg)
            ctx.states += r["states"]
            ctx.transitions += r["transitions"]
            vlib.log("MC GovImpl/%s: %d distinct states, %d generated, depth %s, %.1fs" % (cfg, r["states"], r["transitions"], r.get("depth"), r["wall_s"]))
        else:
            if "Invariant JudgeOK is violated" not in r["out"]:
                if not r["error"]:
                    raise vlib.Inconclusive("named deviation %s not refuted by the judge's rules (vacuous model)" % cfg)
                raise vlib.Inconclusive("deviation %s: TLC failed for another reason: %s" % (cfg, r["error"]))
            ctx.extra["gov_model_selftests"] = ctx.extra.get("gov_model_selftests", 0) + 1
            vlib.log("deviation %s refuted (JudgeOK violated), %.1fs" % (cfg[7:-4], r["wall_s"]))


# ------------------------------------------------------------------------------------------------ scenarios
INIT = {"op": "init", "n": 3, "k": 2, "standby": [3, 1, 4], "bal": [2, 2, 1], "total": 20}


def _cand(reg, unreg=()):
    return [{"present": (c in reg or c in unreg), "registered": c in reg, "votes": 0} for c in (1, 2, 3, 4)]


def E(p=0):
    return {"op": "endblock", "p": p}


def V(a, c):
    return {"op": "vote", "a": a, "c": c}


def T(a, t, x, raw=False):
    return {"op": "transfer", "a": a, "t": t, "x": x, "raw": raw}


def handwritten(with_finding):
    """Edge histories that random and simulated ones rarely hit (model units: 1 unit = 5 000 000 NEO; raw = single NEO).
    Model blocks start at 3 (blocks 1, 2 = bootstrap); committee of 3: boundaries at 3, 6, 9, 12."""
    s = []
    s.append({"name": "tie-at-cut", "steps": [dict(INIT, cand=_cand({1, 2, 3, 4}), votes=[1, 2, 0]),
             E(), V(3, 4), E(1), E(),                       # 3..5: candidate 4 gets ahead of 3 (both had 0: tie at the cut by key)
             T(1, 2, 1, True), E(1), V(3, 3), E(), E(1),      # 6..8: 2 overtakes 1 by a single NEO; 3 back ahead of 4
             T(2, 1, 1, True), E(), T(1, 1, 0), E(1), E(),   # 9..11: exact tie of the two validators again; a claim by self-transfer
             E(1), T(2, 2, 0), V(1, 1), E(), E()]})
    s.append({"name": "turnout-exact", "steps": [dict(INIT, cand=_cand({1, 2, 3, 4}), votes=[1, 2, 0]),
             E(), T(1, 3, 1, True), E(1), E(),               # exactly 20 % voted; one NEO leaves to a non-voter: below
             E(1), T(3, 1, 1, True), E(), E(1),               # standby in force; the NEO comes back: exactly 20 % again
             E(), V(3, 1), E(1), E(),                         # elected in force; 25 %
             T(1, 2, 2), E(1), E(), E()]})                   # the whole balance of a voter moves to another voter
    s.append({"name": "exactly-n", "steps": [dict(INIT, cand=_cand({1, 2, 4}), votes=[1, 2, 0]),
             E(), {"op": "unregister", "c": 4}, E(1), E(),   # exactly n electable candidates, then one fewer: standby
             E(), {"op": "register", "c": 3}, E(1), E(),     # n again (another key)
             E(1), {"op": "register", "c": 4}, V(3, 4), E(), E(),
             E(), T(3, 1, 1), E(1), E()]})
    s.append({"name": "unregistered-voted", "steps": [dict(INIT, cand=_cand({1, 2, 3, 4}), votes=[2, 2, 1]),
             E(), {"op": "unregister", "c": 2}, E(1), E(),   # the top candidate unregisters while voted for: not electable, turnout unchanged
             T(1, 1, 0), E(), E(1), {"op": "register", "c": 2}, E(),   # its voters claim; it comes back in the LAST block of the epoch
             E(1), V(1, 0), T(2, 3, 1), E(), E(),
             {"op": "unregister", "c": 2}, E(), V(2, 1), E(1), E(), E()]})
    s.append({"name": "gas-per-block", "steps": [dict(INIT, cand=_cand({1, 2, 3, 4}), votes=[1, 2, 1]),
             E(), {"op": "setgpb", "g": 600}, E(1), T(1, 2, 1), E(),
             E(), {"op": "setgpb", "g": 1000}, T(3, 3, 0), E(1), {"op": "setgpb", "g": 200}, E(),
             E(1), T(2, 1, 1), {"op": "setgpb", "g": 1400}, E(), V(3, 2), E(),
             E(), T(1, 3, 2), E(1), E()]})
    if with_finding:
        s.append({"name": "policy-block-quiet", "steps": [dict(INIT, cand=_cand({1, 2, 3, 4}), votes=[2, 2, 0]),
                 E(), {"op": "block", "c": 2}, E(1), E(),       # 3..5: the account of the elected candidate 2 (no NEO) is blocked, nothing else happens
                 E(), E(), V(3, 1), E(1),                        # 6..8: a vote -> the committee is refreshed at 9
                 E(), {"op": "unblock", "c": 2}, E(), E(1),     # 9..11: unblocked in a quiet epoch
                 E(), E()]})
    return s


def scenarios(ctx):
    q = ctx.quick()
    want = 6 if q else 60
    hs, seen = [], set()
    for rnd in range(3):
        for h in ctx.tlc_sim(SUB, "GovSim.tla", "Sim_Gov.cfg", num=want, depth=70, timeout=600, seed=ctx.seed * 37 + rnd):
            k = json.dumps(h[:-1], sort_keys=True)     # siblings printed for candidate successors share all but the last step
            if k in seen or len(h) < 6 or h[-1].get("op") != "endblock":
                continue
            seen.add(k)
            hs.append(h)
        if len(hs) >= want:
            break
    if not hs:
        raise vlib.Inconclusive("no GovImpl behaviours generated")
    random.Random(ctx.seed).shuffle(hs)
    return [{"name": "", "steps": h} for h in hs[:want]]


# ------------------------------------------------------------------------------------------------ trace judging
def split(events, nchunks):
    """Whole histories, balanced over nchunks chunks; returns lists of (global index, event)."""
    hists, cur = [], []
    for i, e in enumerate(events):
        if e["event"] == "init" and cur:
            hists.append(cur)
            cur = []
        cur.append((i, e))
    if cur:
        hists.append(cur)
    chunks = [[] for _ in range(max(1, min(nchunks, len(hists))))]
    for h in sorted(hists, key=len, reverse=True):
        min(chunks, key=len).extend(h)
    return [c for c in chunks if c]


def _judge_chunk(ctx, tag, chunk, timeout):
    d = ctx.spec_scratch(SUB, name="tr-" + tag)
    vlib.write_ndjson(os.path.join(d, "trace.ndjson"), [{k: e[k] for k in SPEC_FIELDS if k in e} for _, e in chunk])
    r = ctx.tlc(d, "GovTrace.tla", "Trace_Gov.cfg", timeout, workers=1, tag="trace-" + tag)
    shutil.rmtree(d, ignore_errors=True)
    return r


def judge(ctx, events, tag, nchunks):
    """GovTrace over the events (whole histories per chunk, chunks in parallel). Returns [(global index, names, ctx)]."""
    chunks = split(events, nchunks)
    for n in range(len(chunks)):
        ctx.spec_scratch(SUB, name="tr-%s-%d" % (tag, n))       # directories are created by the main thread
    with cf.ThreadPoolExecutor(max_workers=len(chunks)) as ex:
        rs = list(ex.map(lambda nc: _judge_chunk(ctx, "%s-%d" % (tag, nc[0]), nc[1], 3000), enumerate(chunks)))
    out = []
    for chunk, r in zip(chunks, rs):
        if r["timed_out"]:
            raise vlib.Inconclusive("trace validation timed out")
        if r["error"] and not vlib.is_property_failure(r["out"]):
            raise vlib.Inconclusive("GovTrace failed to run: %s\n%s" % (r["error"], vlib.tail(r["out"], 30)))
        if r["error"] or r["rc"] != 0:
            raise vlib.Inconclusive("GovTrace did not consume the whole trace (depth %s): %s\n%s" % (r.get("depth"), r["error"], vlib.tail(r["out"], 25)))
        ctx.states += r.get("states", 0)
        ctx.transitions += r.get("transitions", 0)
        for line in r["out"].splitlines():
            i = line.find("@@FAIL@@")
            if i < 0:
                continue
            js = vlib.extract_tla_string(line[i + 8:])
            if js is None:
                continue
            f = json.loads(js)
            out.append((chunk[f["line"] - 1][0], set(f["what"]), f.get("ctx") or {}))
    return sorted(out, key=lambda x: x[0])


def nums(x):
    """Readable copy of a judge context: limb records -> integers."""
    if isinstance(x, dict):
        if set(x) == {"neg", "mag"}:
            return to_int(x)
        return {k: nums(v) for k, v in x.items()}
    if isinstance(x, list):
        return [nums(v) for v in x]
    return x


def history_class(events, start, i):
    """Recognised classes of histories for the signature (diagnosis; the verdict is TLC's)."""
    e = events[i]
    n = events[start]["n"]
    # the epoch whose table decides the committee that is (or will be) in force: from the last boundary block before the
    # election point up to the block before it
    end = e["h"] if (e["h"] + 1) % n == 0 else e["h"] - (e["h"] % n) - 1      # last block of the deciding epoch
    first = end - n + 1
    if first < 1:
        return None
    win = [x for x in events[start:i + 1] if first <= x["h"] <= end]
    prev = [x for x in events[start:i + 1] if x["h"] == first - 1]
    if not win or not prev:
        return None
    quiet = all(not x["votev"] and not any(t["amt"] > 0 and t["from"] != t["to"] for t in x["neoev"]) for x in win)
    proj = lambda x: {k: (v["registered"], v["votes"]) for k, v in x["cand"].items()}
    blk = lambda x: {k for k, v in x["cand"].items() if v["blocked"]}
    same = all(proj(x) == proj(prev[0]) for x in win)
    if quiet and same and any(blk(x) != blk(prev[0]) for x in win):
        return "block-list-change-in-quiet-epoch"
    return None


def run_ext(ctx):
    q = ctx.quick()
    finding = os.environ.get("VERIF_GOV_FINDING", "1") != "0"
    ctx.spec_scratch(SUB)
    pool = cf.ThreadPoolExecutor(max_workers=4 if q else 6)
    jobs = model_jobs(ctx)
    futs = [(j, pool.submit(_mc, ctx, j[1], 1800 if q else 3600, 2 if q else 4)) for j in jobs]
    try:
        # behaviours of the model + hand-written edge scenarios
        scen = scenarios(ctx) + handwritten(finding)
        ind = os.path.join(ctx.work, "in-c05gov")
        os.makedirs(ind, exist_ok=True)
        json.dump(scen, open(os.path.join(ind, "scenarios.json"), "w"))
        # real chains
        res = ctx.go_driver("c05gov", "TestDriver", timeout=3000,
                            env={"VERIF_IN": ind, "VERIF_RANDOM_HIST": 4 if q else 30, "VERIF_RANDOM_BLOCKS": 45 if q else 130})
        ctx.absorb(res)
        events = vlib.read_ndjson(os.path.join(res["_out"], "trace.ndjson"))
        names = json.load(open(os.path.join(res["_out"], "names.json")))
        fails = judge(ctx, events, "t", 4 if q else 8)
    finally:
        results = [(j, f.result()) for j, f in futs]
        pool.shutdown()
    account_models(ctx, results)
    ctx.traces_validated += res.get("traces", 0)
    ctx.extra["gov_trace_events"] = len(events)
    ctx.extra["gov_scenarios"] = len(scen)
    starts, start = [], 0
    for i, e in enumerate(events):
        if e["event"] == "init":
            start = i
        starts.append(start)
    # the first block of a history that breaks an abstract rule is the violation (what follows depends on it);
    # code-shaped differences before it are drift
    broken, drift, seen_drift = set(), {}, set()
    for i, what, fctx in fails:
        s = starts[i]
        if s in broken:
            continue
        e = events[i]
        judged = sorted(w for w in what if not w.startswith("d:"))
        for w in what:
            if w.startswith("d:") and not judged:
                drift[w] = drift.get(w, 0) + 1
                if (s, w) not in seen_drift and len(ctx.spec_drift) < 20:
                    seen_drift.add((s, w))
                    fig = {k: fctx.get(k) for k in ("inexactClaims", "inexactUnclaimed", "committeeReward") if fctx.get(k)}
                    if w == "d:GasPerVote":
                        px = fctx.get("accX") or {}
                        fig["stored_vs_predicted"] = {k: [e["gpv"].get(k), px.get(k)] for k in set(e["gpv"]) | set(px) if e["gpv"].get(k) != px.get(k)}
                    if w == "d:StoredCommittee":
                        fig["stored"], fig["elected"] = e["stored"], fctx.get("elected")
                    ctx.spec_drift.append({"part": PART, "prediction": w, "hist": e["hist"], "h": e["h"], "src": events[s].get("src"),
                                           "kinds": e.get("kinds"), "figures": nums(fig)})
        if not judged:
            continue
        broken.add(s)
        cls = history_class(events, s, i) if judged[0] in ("Committee", "Validators") else None
        for w in judged:
            sig = {"part": PART, "kind": w}
            if cls:
                sig["class"] = cls
            det = {"what": "rule %s of GovJudge is broken by block %d of history %s (%s, seed %d)" % (w, e["h"], e["hist"], events[s].get("src"), ctx.seed),
                   "figures": nums({k: v for k, v in fctx.items() if k not in ("accX",)}),
                   "observation": nums({k: e.get(k) for k in ("h", "committee", "nextvals", "compvals", "stored", "cand", "voters", "primary", "txs", "onev",
                                                              "postev", "mints", "neoev", "votev", "unclaimed", "gpb", "acts", "kinds")}),
                   "accounts": names.get(e["hist"]),
                   "replay_hint": "VERIF_SEED=%d tools/vcheck EXT:c05_gov --tier %s ; history %s, block %d" % (ctx.seed, ctx.tier, e["hist"], e["h"])}
            ctx.violation(sig, det)
    ctx.extra["gov_drift"] = drift
    ctx.assumptions.append(
        "governance: observation at block boundaries; committee / validator sizes constant per chain (no CommitteeHistory); "
        "GasPerBlock as before or as after the block's own transactions and candidate votes as at the election or as after the "
        "boundary block are both accepted by the abstract rules (the code's choice is checked as drift); rounding of claims is "
        "bounded (exact - steps < minted <= exact), the code's exact amounts are checked as drift; a claim is due at an account's "
        "first NEO Transfer it sends, first non-empty NEO Transfer it receives or first Vote event in a block (HALT executions); "
        "GAS mints of the native Oracle (prepaid responses, oracle node rewards) and Notary (node rewards) are not judged; "
        "blocks whose committee reward is zero are not judged for it")
    if not broken or all(events[s]["hist"] == "policy-block-quiet" for s in broken):
        selftest(ctx, events)


def selftest(ctx, events):
    """Binding self-test: one corrupted field per copy of a good history prefix; the judge must name the rule."""
    start = 0
    pick = {}
    for i, e in enumerate(events):
        if e["event"] == "init":
            start = i
        if i - start > 60 or e["event"] != "block":
            continue
        elected = e["stored"] and e["stored"][0]["votes"] > 0
        if "claim" not in pick and e["mints"] and to_int(e["mints"][0]["amt"]) > 1000:
            pick["claim"] = (start, i)
        if "committee" not in pick and elected and e["h"] % events[start]["n"] == 0:
            pick["committee"] = (start, i)
        if "fees" not in pick and len(e["txs"]) >= 2:
            pick["fees"] = (start, i)
        if "unclaimed" not in pick and elected and any(to_int(v) > 1000 for v in e["unclaimed"].values()):
            pick["unclaimed"] = (start, i)
    if len(pick) < 4:
        raise vlib.Inconclusive("self-test: no suitable blocks found (%s)" % sorted(pick))

    def bump(n, d=1):
        return to_num(to_int(n) + d)

    def corrupt(name, e):
        if name == "Claim":
            e["mints"][0]["amt"] = to_num(to_int(e["mints"][0]["amt"]) * 4 // 5)      # as if computed with a smaller balance
        elif name == "ClaimDropped":
            e["mints"].pop(0)
        elif name == "d:ClaimExact":
            e["mints"][0]["amt"] = bump(e["mints"][0]["amt"], -1)
        elif name == "Committee":
            out = [k for k in sorted(events[pick["committee"][0]]["keys"]) if k not in e["committee"]][0]
            e["committee"] = e["committee"][:-1] + [out]
        elif name == "Validators":
            out = [k for k in e["committee"] if k not in e["nextvals"]][0]
            e["nextvals"] = e["nextvals"][:-1] + [out]
        elif name == "ComputedValidators":
            out = [k for k in sorted(events[pick["committee"][0]]["keys"]) if k not in e["compvals"]][0]
            e["compvals"] = e["compvals"][:-1] + [out]
        elif name == "CommitteeReward":
            other = [m for m in e["stored"] if events[pick["committee"][0]]["keys"][m["key"]]["acct"] != e["postev"][0]["to"]][0]
            e["postev"][0]["to"] = events[pick["committee"][0]]["keys"][other["key"]]["acct"]
        elif name == "CommitteeRewardAmount":
            e["postev"][0]["amt"] = bump(e["postev"][0]["amt"])
        elif name == "FeeBurn":
            e["onev"][1]["amt"] = bump(e["onev"][1]["amt"], -1)
        elif name == "PrimaryReward":
            e["onev"][len(e["txs"])]["amt"] = bump(e["onev"][len(e["txs"])]["amt"])
        elif name == "Unclaimed":
            a = [a for a, v in sorted(e["unclaimed"].items()) if to_int(v) > 1000][0]
            e["unclaimed"][a] = bump(e["unclaimed"][a], 3)
        elif name == "d:GasPerVote":
            k = sorted(e["gpv"])[0]
            e["gpv"][k] = bump(e["gpv"][k])
        elif name == "d:StoredCommittee":
            e["stored"][0]["votes"] += 1
        return e

    cases = [("Claim", "claim", "Claim"), ("ClaimDropped", "claim", "Claim"), ("d:ClaimExact", "claim", "d:ClaimExact"),
             ("Committee", "committee", "Committee"), ("Validators", "committee", "Validators"),
             ("ComputedValidators", "committee", "Validators"), ("CommitteeReward", "committee", "CommitteeReward"),
             ("CommitteeRewardAmount", "committee", "CommitteeReward"), ("FeeBurn", "fees", "FeeBurn"),
             ("PrimaryReward", "fees", "PrimaryReward"), ("Unclaimed", "unclaimed", "Unclaimed"),
             ("d:GasPerVote", "committee", "d:GasPerVote"), ("d:StoredCommittee", "committee", "d:StoredCommittee")]
    ev, expect = [], {}
    for name, where, rule in cases:
        s, i = pick[where]
        seg = copy.deepcopy(events[s:i + 1])
        for x in seg:
            x["hist"] = "selftest-" + name
        corrupt(name, seg[-1])
        ev += seg
        expect[len(ev) - 1] = rule
    st, tr = ctx.states, ctx.transitions
    fails = judge(ctx, ev, "s", 4)
    ctx.states, ctx.transitions = st, tr
    got = {}
    for i, w, _ in fails:
        got.setdefault(i, set()).update(w)
    for i, rule in expect.items():
        if rule not in got.get(i, set()):
            raise vlib.Inconclusive("binding self-test: corrupted %s was not rejected at line %d (reported %s)" % (rule, i, sorted(got.get(i, []))))
    extra = [i for i in got if i not in expect]
    if extra:
        raise vlib.Inconclusive("binding self-test: uncorrupted lines rejected: %s" % extra[:5])
    ctx.extra["gov_binding_selftests"] = len(cases)
