"""C05 - native token supply and governance accounting are conserved.
Judge: spec/tokens/TokenLaws.tla (generic in the arithmetic).  Model: spec/tokens/Tokens.tla (code-shaped, TLC integers),
generator TokensSim.tla, trace validator TokensTrace.tla (BigNat arithmetic).  Real code: block histories on a real chain,
ledger read back from storage after every block (harness/c05tokens)."""
import copy
import json
import os
import random

import vlib

RULE = ("cases = block boundaries of real chains (genesis included) at which the projected NEO/GAS/Notary ledger was read from "
        "storage (SeekStorage over the three native contract ids) together with the Transfer events of the block's HALT "
        "executions (OnPersist, transactions, PostPersist); histories = TLC behaviours of Tokens.tla turned into real "
        "transactions + seeded random histories (histgen with raised token weights, hub contracts with payment callbacks, "
        "try-wrapped and faulting transfers, registration by payment, notary-assisted transactions); distinct = distinct "
        "(history, height); every case is non-trivial: TLC evaluates the 7 state laws and the 2 balance-delta laws of "
        "TokenLaws on it with exact big-number arithmetic")

BASE = 1 << 15
QUICK_BUGS = ["UnvoteKeepsTurnout", "NoTallyOnCredit", "ClaimWithoutEvent", "FeeNotCharged", "SelfTransferCredits"]
ALL_BUGS = QUICK_BUGS + ["NoTurnoutOnDebit", "MintKeepsSupply", "BurnKeepsSupply", "WithdrawKeepsDeposit"]
SPEC_FIELDS = ("event", "hist", "h", "neoSupply", "gasSupply", "voters", "neo", "gas", "voteOf", "cand", "deposit", "notary", "transfers")
CHUNK = 2500          # trace lines per TLC run (ndJsonDeserialize keeps the whole file in memory)


def to_int(n):
    v = 0
    for d in reversed(n["mag"]):
        v = v * BASE + d
    return -v if n["neg"] else v


def to_num(v):
    neg, v, mag = v < 0, abs(v), []
    while v:
        mag.append(v % BASE)
        v //= BASE
    return {"neg": neg, "mag": mag}


def model_stage(ctx):
    q = ctx.quick()
    ctx.tlc_mc("tokens", "BigNatMC.tla", "MC_BigNat_small.cfg", timeout=600, workers=1)
    ctx.tlc_mc("tokens", "BigNatMC.tla", "MC_BigNat.cfg", timeout=600, workers=1)
    for cfg in (["MC_Tokens_neo.cfg", "MC_Tokens_gas.cfg"] if q else ["MC_Tokens_neo.cfg", "MC_Tokens_gas.cfg", "MC_Tokens.cfg"]):
        ctx.tlc_mc("tokens", "Tokens.tla", cfg, timeout=2400, coverage=not q, must_cover=False)
    # non-vacuity: every named deviation of the model must be caught by the JUDGE's laws (Conserved / DeltaProp)
    for b in (QUICK_BUGS if q else ALL_BUGS):
        st, tr = ctx.states, ctx.transitions
        try:
            ctx.tlc_mc("tokens", "Tokens.tla", "MC_Tokens_bug_%s.cfg" % b, timeout=900, workers=4)
            raise vlib.Inconclusive("named deviation %s not detected by the laws (vacuous model)" % b)
        except vlib.ModelError as e:
            out = e.res["out"] if e.res else ""
            if "Invariant Conserved is violated" not in out and "Action property DeltaProp is violated" not in out:
                raise vlib.Inconclusive("deviation %s: TLC failed for another reason: %s" % (b, e))
            ctx.extra["model_selftests"] = ctx.extra.get("model_selftests", 0) + 1
        ctx.states, ctx.transitions = st, tr


def generate(ctx):
    q = ctx.quick()
    want = 6 if q else 50
    hs, seen = [], set()
    rounds = 0
    while len(hs) < want and rounds < 4:
        for h in ctx.tlc_sim("tokens", "TokensSim.tla", "Sim_Tokens.cfg" if q else "Sim_Tokens_long.cfg",
                             num=want, depth=60 if q else 150, timeout=600, seed=ctx.seed * 31 + rounds):
            # behaviours printed for sibling successors share all but the last step: keep one per prefix
            k = json.dumps(h[:-1], sort_keys=True)
            if k not in seen and len(h) >= 3:
                seen.add(k)
                hs.append(h)
        rounds += 1
    if not hs:
        raise vlib.Inconclusive("no behaviours generated")
    random.Random(ctx.seed).shuffle(hs)
    return hs[:want]


def split(events, size):
    """Chunks of whole histories (each starts with an init line)."""
    chunks, cur = [], []
    for e in events:
        if e["event"] == "init" and len(cur) >= size:
            chunks.append(cur)
            cur = []
        cur.append(e)
    if cur:
        chunks.append(cur)
    return chunks


def judge(ctx, events, tag):
    """Run TokensTrace over the events; returns failures as (global index, names, ctx)."""
    out, off = [], 0
    for n, ch in enumerate(split(events, CHUNK)):
        path = os.path.join(ctx.work, "%s-%d.ndjson" % (tag, n))
        vlib.write_ndjson(path, [{k: e[k] for k in SPEC_FIELDS} for e in ch])    # only what TokensTrace reads
        for f in ctx.trace_judge("tokens", "TokensTrace.tla", "Trace_Tokens.cfg", path, timeout=3000):
            out.append((off + f["line"] - 1, set(f["what"]), f.get("ctx") or {}))
        os.remove(path)
        off += len(ch)
    return out


def explain(prev, e, law, fctx):
    """Readable figures for a failed law (diagnosis only; the verdict is TLC's)."""
    d = {"height": e["h"], "history": e["hist"], "source": e["src"], "tx_kinds": e.get("kinds"), "acts": e.get("acts"),
         "executions": e.get("nexec"), "faulted": e.get("faults")}
    neo = {a: to_int(v) for a, v in e["neo"].items()}
    gas = {a: to_int(v) for a, v in e["gas"].items()}
    if law in ("NeoSupplyFixed", "NeoSupplyIsSum"):
        d.update(neoSupply=to_int(e["neoSupply"]), sum_of_balances=sum(neo.values()))
    elif law == "GasSupplyIsSum":
        d.update(gasSupply=to_int(e["gasSupply"]), sum_of_balances=sum(gas.values()))
    elif law == "VotersCount":
        d.update(voters=to_int(e["voters"]), neo_of_voting_accounts=sum(neo[a] for a in e["voteOf"]))
    elif law == "CandidateVotes":
        bad = {}
        for c in fctx.get("badcand") or []:
            bad[c] = {"record": (e["cand"].get(c) and {"registered": e["cand"][c]["registered"], "votes": to_int(e["cand"][c]["votes"])}),
                      "neo_of_its_voters": sum(neo[a] for a, k in e["voteOf"].items() if k == c)}
        d["candidates"] = bad
    elif law == "NotaryBacked":
        d.update(notary_gas=gas.get(e["notary"], 0), sum_of_deposits=sum(to_int(v) for v in e["deposit"].values()),
                 deposits={a: to_int(v) for a, v in e["deposit"].items()})
    elif law == "NonNegative":
        d["negative"] = {"neo": [a for a, v in neo.items() if v < 0], "gas": [a for a, v in gas.items() if v < 0],
                         "deposit": [a for a, v in e["deposit"].items() if to_int(v) < 0]}
    elif law.startswith("BalanceDelta"):
        tok = "neo" if law.endswith("NEO") else "gas"
        cur = neo if tok == "neo" else gas
        old = {a: to_int(v) for a, v in (prev[tok].items() if prev else [])}
        accts = {}
        for a in fctx.get("unbalancedNEO" if tok == "neo" else "unbalancedGAS") or []:
            evs = [t for t in e["transfers"] if t["tok"] == tok and a in (t["from"], t["to"])]
            net = sum(to_int(t["amt"]) * ((t["to"] == a) - (t["from"] == a)) for t in evs)
            accts[a] = {"before": old.get(a, 0), "after": cur.get(a, 0), "net_of_events": net,
                        "events": [{"from": t["from"], "to": t["to"], "amt": to_int(t["amt"]), "exec": t["exec"]} for t in evs]}
        d["accounts"] = accts
    return d


def run(ctx):
    q = ctx.quick()
    model_stage(ctx)
    hs = generate(ctx)
    ind = os.path.join(ctx.work, "in-c05")
    os.makedirs(ind)
    json.dump(hs, open(os.path.join(ind, "histories.json"), "w"))
    res = ctx.go_driver("c05tokens", "TestDriver", timeout=3000,
                        env={"VERIF_IN": ind, "VERIF_RANDOM_HIST": 6 if q else 60, "VERIF_RANDOM_BLOCKS": 80 if q else 250})
    ctx.absorb(res)
    events = vlib.read_ndjson(os.path.join(res["_out"], "trace.ndjson"))
    ctx.extra["trace_events"] = len(events)
    ctx.extra["tlc_histories"] = len(hs)
    fails = judge(ctx, events, "trace")
    ctx.traces_validated += res.get("traces", 0)
    if any("Malformed" in w for _, w, _ in fails):
        i = [i for i, w, _ in fails if "Malformed" in w][0]
        raise vlib.Inconclusive("the driver recorded a malformed line (%d, history %s height %s)" % (i + 1, events[i]["hist"], events[i]["h"]))
    # the first block of a history that breaks a law is the violation of that law (later ones are consequences)
    reported = set()
    for i, what, fctx in sorted(fails, key=lambda f: f[0]):
        e = events[i]
        prev = events[i - 1] if e["event"] != "init" else None
        for law in sorted(what):
            if (e["hist"], law) in reported:
                continue
            reported.add((e["hist"], law))
            det = explain(prev, e, law, fctx)
            ctx.violation({"kind": law},
                          {"what": "law %s of TokenLaws is false at the boundary after block %d of history %s (seed %d)" % (law, e["h"], e["hist"], ctx.seed),
                           "figures": det, "replay_hint": "VERIF_SEED=%d tools/vcheck C05 --tier %s ; history %s, block %d" % (ctx.seed, ctx.tier, e["hist"], e["h"])})
    if not fails:
        selftest(ctx, events)
    ctx.assumptions.append("observation happens at block boundaries only (the statement's scope); 'no balance is ever negative' is judged there")
    ctx.assumptions.append("Transfer events are those of the native NEO and GAS contracts in HALT executions (OnPersist, transactions, PostPersist), read from the stored AppExecResults")
    ctx.assumptions.append("reward / claim / fee amounts are not predicted by the token laws: only conservation is judged there (the governance extension judges elections and reward amounts)")
    # extension: governance - elections, committee / primary rewards, claims (spec/governance, harness/c05gov)
    ep = os.path.join(os.path.dirname(os.path.abspath(__file__)), "c05_gov.py")
    if os.path.exists(ep):
        import importlib.util
        sp = importlib.util.spec_from_file_location("check_c05_gov", ep)
        m = importlib.util.module_from_spec(sp)
        sp.loader.exec_module(m)
        m.run_ext(ctx)


def selftest(ctx, events):
    """Binding self-test: one corrupted field per copy of a good history prefix; the judge must name the law."""
    # pick a history prefix ending at a block that has voters, candidates, deposits and a GAS mint event
    pick = None
    start = 0
    for i, e in enumerate(events):
        if e["event"] == "init":
            start = i
        if i - start > 80:
            continue
        if e["event"] == "block" and e["voteOf"] and e["cand"] and e["deposit"] and \
                any(t["tok"] == "gas" and t["from"] == "" for t in e["transfers"]) and \
                any(t["tok"] == "neo" and t["from"] != t["to"] for t in e["transfers"]):
            pick = (start, i)
            break
    if not pick:
        raise vlib.Inconclusive("self-test: no block with voters, candidates, deposits and events found")
    s, i = pick
    good = events[s:i + 1]

    def bump(n, d=1):
        return to_num(to_int(n) + d)

    def corrupt(name):
        e = copy.deepcopy(good[-1])
        if name == "VotersCount":
            e["voters"] = bump(e["voters"])
        elif name == "CandidateVotes":
            c = sorted(e["cand"])[0]
            e["cand"][c]["votes"] = bump(e["cand"][c]["votes"])
        elif name == "BalanceDeltaGAS":
            k = [j for j, t in enumerate(e["transfers"]) if t["tok"] == "gas" and t["from"] == ""][0]
            del e["transfers"][k]
        elif name == "BalanceDeltaNEO":
            k = [j for j, t in enumerate(e["transfers"]) if t["tok"] == "neo" and t["from"] != t["to"]][0]
            e["transfers"][k]["amt"] = bump(e["transfers"][k]["amt"])
        elif name == "GasSupplyIsSum":
            e["gasSupply"] = bump(e["gasSupply"], -1)
        elif name == "NeoSupplyIsSum":
            a = sorted(e["neo"])[0]
            e["neo"][a] = bump(e["neo"][a])
        elif name == "NeoSupplyFixed":
            e["neoSupply"] = bump(e["neoSupply"])
        elif name == "NotaryBacked":
            a = sorted(e["deposit"])[0]
            e["deposit"][a] = bump(e["deposit"][a])
        elif name == "NonNegative":
            a = sorted(e["gas"])[0]
            e["gas"][a] = to_num(-1)
        return e

    names = ["VotersCount", "CandidateVotes", "BalanceDeltaGAS", "BalanceDeltaNEO", "GasSupplyIsSum", "NeoSupplyIsSum",
             "NeoSupplyFixed", "NotaryBacked", "NonNegative"]
    ev, expect = [], {}
    for n in names:
        seg = copy.deepcopy(good[:-1]) + [corrupt(n)]
        for x in seg:
            x["hist"] = "selftest-" + n
        ev += seg
        expect[len(ev) - 1] = n
    st, tr = ctx.states, ctx.transitions
    fails = judge(ctx, ev, "selftest")
    ctx.states, ctx.transitions = st, tr
    got = {i: w for i, w, _ in fails}
    for i, n in expect.items():
        if n not in got.get(i, set()):
            raise vlib.Inconclusive("binding self-test: corrupted %s was not rejected (reported %s)" % (n, sorted(got.get(i, []))))
    extra = [i for i in got if i not in expect]
    if extra:
        raise vlib.Inconclusive("binding self-test: uncorrupted lines rejected: %s" % extra[:5])
    ctx.extra["binding_selftests"] = len(names)
