"""C16 - call flags and manifest permissions confine what called code can do.
Model: spec/flags (Flags abstract judge, FlagsImpl code-shaped model, FlagsCases chain enumeration, FlagsTrace validator,
Permission abstract judge, PermCases enumeration + code-shaped IsAllowed).  Real code: harness/c16flags drives the real
execution engine on a neotest chain (probe contracts, every system call, every native method, deployed manifests)."""
import json
import os
import random

import vlib

RULE = ("cases = (a) invocations executed on the real engine under chain.GetTestVM: every call chain of <= 3 hops x 16 "
        "requested flag sets x safe/non-safe printed by TLC (FlagsCases) x 5 probe operations, every system call of the "
        "interop table and every method of every native contract x 16 flag sets x 7 positions of the restricting set, "
        "seeded random chains of 3-6 hops, and every chain of <= 2 hops x 3 operations executed by real transactions in "
        "real blocks (observed through application logs and contract storage); (b) permission cases printed by TLC (PermCases: manifests x callee groups x "
        "method) each evaluated by Manifest.CanCall/Permission.IsAllowed on the deployed manifests and by two real "
        "cross-contract calls (System.Contract.Call, CALLT).  distinct = distinct (source, operation, root flags, chain, "
        "observed effects, frame count) tuples resp. (manifest, groups, method, answers); non-trivial: every invocation is "
        "judged by TLC (FlagsTrace) with 7 abstract predicates on the flags read from the real contexts")

JUDGED = ["FlagsShrink", "EnterConfined", "SafeNeverWrites", "EffectImpliesFlag", "CallImpliesAllowCall", "EndToEnd",
          "CallEndToEnd"]
DRIFT = ["ExactFlags"]
MAX_REPLAYS = 12


def run(ctx):
    q = ctx.quick()
    if ctx.replay:
        # every case of this check is a deterministic function of the tree: a replay is the full check again; the
        # file documents the failing record (flags read from the real contexts / manifests and answers)
        rp = json.load(open(ctx.replay))
        vlib.log("replaying signature %s: re-running all cases" % json.dumps(rp.get("signature")))
    # ---------------------------------------------------------------- 1. exhaustive model checking
    ctx.tlc_mc("flags", "FlagsImpl.tla", "MC_Flags3.cfg" if q else "MC_Flags4.cfg", timeout=1500, coverage=not q)
    for cfg in ("MC_FlagsBugIntersect.cfg", "MC_FlagsBugSafe.cfg", "MC_FlagsBugPut.cfg"):
        expect_model_error(ctx, "FlagsImpl.tla", cfg)
    expect_model_error(ctx, "PermCases.tla", "PermCases_bug.cfg")
    # ---------------------------------------------------------------- 2. cases with the specified answers
    chains = ctx.tlc_dump("flags", "FlagsCases.tla", "Cases_full.cfg", timeout=900)
    perms = ctx.tlc_dump("flags", "PermCases.tla", "PermCases_all.cfg", timeout=900)   # also checks Impl = Abstract
    if len(chains) != 32 + 32 ** 2 + 32 ** 3 or len(perms) != 526 * 4 * 3:
        raise vlib.Inconclusive("unexpected number of enumerated cases: %d chains, %d permission cases" % (len(chains), len(perms)))
    ctx.extra["exhaustive"] = True
    ctx.extra["constants"] = {"FlagsImpl": "MaxDepth=%d, 16 root flag sets" % (3 if q else 4),
                              "FlagsCases": "all chains of 1..3 hops x 16 requested sets x safe in BOOLEAN",
                              "PermCases": "5 descriptors x 5 method lists, manifests of <= 2 permissions, 4 group sets, 3 methods"}
    ind = os.path.join(ctx.work, "in-c16")
    os.makedirs(ind)
    json.dump(chains, open(os.path.join(ind, "chains.json"), "w"))
    json.dump(perms, open(os.path.join(ind, "perms.json"), "w"))
    # ---------------------------------------------------------------- 3. real code
    res = ctx.go_driver("c16flags", "TestDriver", env={"VERIF_IN": ind, "VERIF_RANDOM": 3000 if q else 300000, "VERIF_BLOCK_SAMPLE": -1}, timeout=3000)
    ctx.absorb(res)
    st = res.get("stats") or {}
    for op in ("chain_effect_put", "chain_effect_lput", "chain_effect_del", "chain_effect_notify", "chain_effect_call",
               "block_effect_putk", "block_effect_notify", "block_effect_call"):
        if not st.get(op):
            raise vlib.Inconclusive("vacuous binding: %s = 0, the operation never produced its effect on the real engine" % op)
    unreached = st.get("native_nonsafe_effect_not_reached") or []
    if st.get("native_nonsafe_methods", 0) < 30 or len(unreached) > 6:
        raise vlib.Inconclusive("vacuous binding: too many state-changing native methods did not reach an effect: %s" % unreached)
    # ---------------------------------------------------------------- 4. TLC judges every recorded invocation
    trace = os.path.join(res["_out"], "trace.ndjson")
    fails = ctx.trace_judge("flags", "FlagsTrace.tla", "Trace_Flags.cfg", trace, timeout=3000)
    ctx.traces_validated += res.get("traces", 0)
    lines = None
    nrep = 0
    for f in fails:
        judged = [w for w in JUDGED if w in f["what"]]
        if lines is None:
            lines = open(trace).read().split("\n")
        rec = json.loads(lines[f["line"] - 1])
        if not judged:
            if len(ctx.spec_drift) < 20:
                ctx.spec_drift.append({"what": f["what"], "op": rec["op"], "src": rec["src"], "frames": rec["frames"]})
            continue
        sig = flag_signature(judged[0], rec)
        key = json.dumps(sig, sort_keys=True)
        known = any(k.get("property") == ctx.pid and vlib.sig_match(k.get("signature", {}), sig)
                    for k in ctx.known.get("findings", []))
        if not known and key not in getattr(ctx, "sig_counts", {}) and nrep >= MAX_REPLAYS:
            ctx.extra["violations_beyond_replay_cap"] = ctx.extra.get("violations_beyond_replay_cap", 0) + 1
            continue
        before = len(ctx.violations)
        ctx.violation(sig, {"what": "abstract predicate(s) %s false on an invocation of the real engine" % judged,
                            "record": rec,
                            "how": "harness/c16flags: entry script loaded with flags `root`, hops of `chain` made with "
                                   "System.Contract.Call requesting flags q, last hop calls `op`; frames[].fl are the flags "
                                   "read from the real vm.Context objects"})
        nrep += len(ctx.violations) - before
    # ---------------------------------------------------------------- 5. permissions: the specification is the oracle
    pres = json.load(open(os.path.join(res["_out"], "perm_results.json")))
    if len(pres) != len(perms):
        raise vlib.Inconclusive("driver evaluated %d of %d permission cases" % (len(pres), len(perms)))
    allowed_seen = 0
    # report the strongest evidence first: a real cross-contract call of a non-safe method that went through
    for r in sorted(pres, key=lambda r: (r["safe"], r["spec_may"] or not r["call_ok"])):
        for sig, detail in judge_perm(r):
            if sig is None:
                if len(ctx.spec_drift) < 20:
                    ctx.spec_drift.append(detail)
                ctx.extra["perm_drift"] = ctx.extra.get("perm_drift", 0) + 1
            else:
                ctx.violation(sig, detail)
        if r["call_ok"] and not r["safe"]:
            allowed_seen += 1
    if allowed_seen < 100:
        raise vlib.Inconclusive("vacuous binding: almost no permitted non-safe call went through (%d)" % allowed_seen)
    # ---------------------------------------------------------------- 6. binding self-tests
    # (on a tree with violations the corrupted records may be rejected for other reasons too: never let a self-test
    # turn a VIOLATION verdict into exit 2)
    strict = not ctx.violations
    try:
        selftest_trace(ctx, trace, {f["line"] for f in fails})
        selftest_perm(ctx, pres)
    except vlib.Inconclusive as e:
        if strict:
            raise
        vlib.log("self-test skipped on a violating tree:", e)
    # 7. extension: the same clauses while the contract table changes inside a transaction / block (spec/flagsdyn, harness/c16dyn)
    ep = os.path.join(os.path.dirname(os.path.abspath(__file__)), "c16_dyn.py")
    if os.path.exists(ep) and not ctx.replay:
        import importlib.util
        sp = importlib.util.spec_from_file_location("check_c16_dyn", ep)
        m = importlib.util.module_from_spec(sp)
        sp.loader.exec_module(m)
        m.run_ext(ctx)


def expect_model_error(ctx, module, cfg):
    st, tr = ctx.states, ctx.transitions
    try:
        ctx.tlc_mc("flags", module, cfg, timeout=600)
    except vlib.ModelError:
        ctx.states, ctx.transitions = st, tr
        ctx.extra["model_selftests"] = ctx.extra.get("model_selftests", 0) + 1
        return
    raise vlib.Inconclusive("named deviation %s not detected by the model invariants (vacuous model)" % cfg)


def base_method(op):
    return op.split("/")[0].split("#")[0]


def flag_signature(kind, rec):
    """Small, stable signature: predicate, call site class (source + method / system call)."""
    if kind in ("CallImpliesAllowCall", "EndToEnd") and rec["src"] in ("nat", "rnd"):
        fr = rec["frames"]
        for f in fr:
            if f["k"] == "n" and f["par"] >= 0 and not (fr[f["par"]]["fl"] & 4):
                # a native method running without AllowCall made a call into a contract (CallFromNative)
                return {"kind": "native-calls-contract-without-allowcall", "method": base_method(rec["op"])}
    return {"kind": kind, "src": rec["src"], "op": base_method(rec["op"])}


def judge_perm(r):
    """Yields (signature | None for drift, detail)."""
    out = []
    perms = r["perms"]
    r = dict(r, how="harness/c16flags/perm_test.go: caller contract deployed with exactly these permissions (H1 = callee hash, "
                    "H2 = another contract, G1/G2 = group keys), callee manifest updated to list `groups`; call_ok/callt_ok: the "
                    "caller's method invoking callee.`method` through System.Contract.Call / CALLT halted and the callee ran; "
                    "real_can/real_each: Manifest.CanCall / Permission.IsAllowed on the manifests read back from the chain")
    # real calls from a deployed contract
    for via, name in (("call_ok", "System.Contract.Call"), ("callt_ok", "CALLT")):
        if r[via] and not r["spec_may"]:
            out.append((perm_signature(r, name), dict(r, what="deployed contract called a non-safe method without a matching permission (via %s)" % name)))
        elif r["spec_may"] and not r[via]:
            out.append((None, dict(r, what="permitted call did not go through (via %s)" % name)))
    # pure functions
    if r["real_can"] and not r["spec_can"]:
        out.append((perm_signature(r, "Manifest.CanCall"), dict(r, what="Manifest.CanCall allows a call no permission of the manifest matches (callee AND method)")))
    elif r["spec_can"] and not r["real_can"]:
        out.append((None, dict(r, what="Manifest.CanCall stricter than the specification")))
    for i, p in enumerate(perms):
        if i < len(r["real_each"]) and r["real_each"][i] and not r["spec_each"][i]:
            out.append((perm_signature(r, "Permission.IsAllowed"), dict(r, what="Permission.IsAllowed true although the permission does not match callee and method", index=i)))
    return out


def perm_signature(r, site):
    groups = set(r["groups"])
    for p in r["perms"]:
        if p["kind"] == "group" and p["target"] in groups and not p["wild"] and r["method"] not in p["methods"]:
            # the only way this case can be allowed: group membership answered without the method list
            return {"kind": "group-permission-ignores-methods"}
    return {"kind": "permission-too-permissive", "site": site, "perm_kinds": sorted({p["kind"] for p in r["perms"]})}


# -------------------------------------------------------------------- self-tests (guide rule 6)
def selftest_trace(ctx, trace, failing):
    good = []
    with open(trace) as f:
        for i, line in enumerate(f):
            if i + 1 not in failing:
                good.append(json.loads(line))
            if len(good) >= 60000:
                break
    cands = {}
    for e in good:
        if e["src"] != "chain":
            continue
        fr = e["frames"]
        if "effect" not in cands and e["eff"] and e["eff"][0]["k"] == "w" and len(fr) >= 3:
            b = json.loads(json.dumps(e))
            b["frames"][b["eff"][0]["f"]]["fl"] &= ~2          # the writing frame read back without WriteStates
            cands["effect"] = (b, "EffectImpliesFlag")
        if "shrink" not in cands and len(fr) >= 3 and fr[1]["fl"] != 15:
            b = json.loads(json.dumps(e))
            b["frames"][2]["fl"] = 15                            # child with more flags than its parent
            cands["shrink"] = (b, "FlagsShrink")
        if "e2e" not in cands and e["w"] and len(e["chain"]) >= 2:
            b = json.loads(json.dumps(e))
            b["chain"][0]["q"] &= ~2                             # the caller did not pass WriteStates, yet storage changed
            cands["e2e"] = (b, "EndToEnd")
        if "safe" not in cands and e["n"] and len(e["chain"]) >= 2 and e["eff"]:
            b = json.loads(json.dumps(e))
            b["frames"][1]["safe"] = True                        # notification below a safe method
            cands["safe"] = (b, "SafeNeverWrites")
    if len(cands) < 4:
        raise vlib.Inconclusive("self-test could not find records to corrupt: %s" % sorted(cands))
    names = sorted(cands)
    path = os.path.join(ctx.work, "selftest.ndjson")
    vlib.write_ndjson(path, [good[0]] + [cands[n][0] for n in names])
    st, tr = ctx.states, ctx.transitions
    fails = ctx.trace_judge("flags", "FlagsTrace.tla", "Trace_Flags.cfg", path, timeout=300)
    ctx.states, ctx.transitions = st, tr
    by_line = {f["line"]: f["what"] for f in fails}
    if 1 in by_line and any(w in JUDGED for w in by_line[1]):
        raise vlib.Inconclusive("binding self-test: the uncorrupted record is rejected: %s" % by_line[1])
    for i, n in enumerate(names):
        if cands[n][1] not in by_line.get(i + 2, []):
            raise vlib.Inconclusive("binding self-test %s: corrupted record was not rejected (%s expected, got %s)" % (
                n, cands[n][1], by_line.get(i + 2)))
        ctx.extra["binding_selftests"] = ctx.extra.get("binding_selftests", 0) + 1


def selftest_perm(ctx, pres):
    # flip the specified answer of a refused hash-permission case: the comparison must report a violation
    for r in pres:
        if not r["spec_may"] and not r["call_ok"] and r["perms"] and all(p["kind"] == "hash" for p in r["perms"]):
            bad = dict(r, call_ok=True, real_can=True)
            if not any(s is not None for s, _ in judge_perm(bad)):
                raise vlib.Inconclusive("binding self-test: corrupted permission result was not rejected")
            ctx.extra["binding_selftests"] = ctx.extra.get("binding_selftests", 0) + 1
            return
    raise vlib.Inconclusive("permission self-test found no refused case")
