"""Extension of C12 - executions that span SEVERAL scripts in one VM, the way contract calls do: every loaded script has
its own evaluation stack and static slot, frames of internal calls share their script's context, arguments are moved to
the callee's stack and return values back, exceptions unwind across script boundaries, contexts are unloaded with
callbacks.

Model: spec/vmxref   VMXRef.tla       implementation-shaped model of vm.go at script boundaries (loadScriptWithCallingHash,
                                      call, RET, unloadContext, handleException) over the reference-counted heap of
                                      spec/vmref/VMRef.tla (arrays); judged by the abstract level spec/vmref/VMLimits.tla
                                      (NoUnderCount, ExactAcyclic, the item limit) + UnloadRule (static slot released exactly
                                      once, when the last frame of its script context goes).  Code shape switch
                                      UnwindReleasesStack (FALSE = the tree: stacks of unwound script contexts stay counted);
                                      deviations TLC must refute: BugTruncFirst, BugNoStaticOnUnwind, BugRetDoubleCount,
                                      BugArgsDoubleRelease, BugExcNotCounted, BugRetLeavesRest
                     VMXRefCover.tla  prints every transition of a small state graph -> transition cover
                     VMXRefSim.tla    behaviour generator over larger constants
                     VMXRefTrace.tla  judges the recorded observations of the real VM with the clauses of VMLimits
Real code: harness/c12xscript - a plain vm.VM whose SyscallHandler loads callees with LoadScriptWithHash / LoadNEFMethod (with
unload callbacks, with an _initialize call) / LoadScriptWithFlags / LoadDynamicScript, observed before every instruction
(VerifRefs vs a real walk over all contexts); and the same schedules as contracts deployed on a real chain calling each other
through System.Contract.Call.

Call from the registered check of C12:   ext = load('c12_xscript'); ext.run_ext(ctx)
Signatures: {"part": "xscript", "kind": NoUnderCount | ExactAcyclic | ItemsBounded | CounterBounded | GasBounded | Total |
panic | ..., "op": <instruction executed before the bad observation>, "across": "call" | "ret" | "unwind" | "", "binding":
"vm" | "chain"} and, ONLY when the harness has established it (counter == walk over live roots + the cells of the stacks that
unwinding dropped), "cause": "abandoned-stack" (listed in known_findings.json for C12)."""
import json
import os
import random
import re
import shutil
from concurrent.futures import ThreadPoolExecutor

import vlib

RULE = ("cases = observations of the real NeoVM executing programs made of several scripts (callees loaded through LoadScriptWithHash / "
        "LoadNEFMethod / LoadScriptWithFlags / LoadDynamicScript by a harness syscall, and as deployed contracts through "
        "System.Contract.Call on a real chain), one before every executed instruction and one after Run returned, in runs of (a) a "
        "transition cover of VMXRef's state graphs and VMXRef simulations, (b) scripted programs, (c) seeded random multi-script "
        "programs, some filling the VM up to the item limit; distinct = distinct (source class, previous opcode, opcode, counter "
        "surplus, dropped-stack surplus, cyclic, kind of script boundary crossed, frames per script context, static slot sizes) tuples; "
        "every observation is non-trivial in that all clauses of VMLimits are evaluated on it by TLC")
PART = "xscript"
SUB = "vmxref"
WORKERS = int(os.environ.get("VERIF_TLC_WORKERS", "4"))
FULL_INV = "INVARIANTS TypeOK WalkedOK NoUnderCount ExactAcyclic Bounded RcExact RcSane"
CODE_INV = "INVARIANTS TypeOK WalkedOK NoUnderCount Bounded RcSane"
# named deviation -> COUNTING clauses (what the abstract level can see) one of which must refute it when only those are
# checked (with every clause checked - UnloadRule, RcExact, RcSane, AbsStep - any reported violation will do)
DEVIATIONS = {
    "BugTruncFirst": {"NoUnderCount", "Bounded"},
    "BugNoStaticOnUnwind": {"ExactAcyclic"},
    "BugRetDoubleCount": {"ExactAcyclic"},
    "BugArgsDoubleRelease": {"NoUnderCount", "Bounded"},
    "BugExcNotCounted": {"NoUnderCount", "Bounded"},
    "BugRetLeavesRest": {"ExactAcyclic"},
}
TLASTR = re.compile(r'"((?:[^"\\]|\\.)*)"')


def scratch(ctx):
    d = ctx.spec_scratch(SUB)
    lim = os.path.join(d, "VMLimits.tla")
    if not os.path.exists(lim):      # the abstract judge is the module of the registered check, not a copy of it
        shutil.copy(os.path.join(vlib.VERIF, "spec", "vmref", "VMLimits.tla"), lim)
    return d


def variant(ctx, cfg, name, repl):
    d = scratch(ctx)
    s = open(os.path.join(d, cfg)).read()
    for a, b in repl:
        if a not in s:
            raise vlib.Inconclusive("cfg %s has no line %r" % (cfg, a))
        s = s.replace(a, b)
    with open(os.path.join(d, name), "w") as f:
        f.write(s)
    return name


def repaired(ctx, cfg):
    """The configuration with the stack of an unwound script context released: ALL clauses are checked."""
    return variant(ctx, cfg, cfg.replace(".cfg", "_rel.cfg"), [
        ("UnwindReleasesStack = FALSE", "UnwindReleasesStack = TRUE"), (CODE_INV, FULL_INV),
        ("PROPERTIES UnloadRule", "PROPERTIES AbsStep UnloadRule")])


def violated(out):
    return set(re.findall(r"(?:Invariant|Action property) (\w+) is violated", out))


def unesc(x):
    return x.replace('\\"', '"').replace("\\\\", "\\")


def parse_graph(out):
    init, edges = None, []
    for line in out.splitlines():
        if "@@EDGE@@" in line:
            m = TLASTR.findall(line)
            if len(m) == 4:
                edges.append((m[1], json.loads(unesc(m[2])), m[3]))
        elif "@@INIT@@" in line:
            m = TLASTR.findall(line)
            if len(m) == 2:
                init = m[1]
    return init, edges


def transition_cover(init, edges, rnd, maxlen=60):
    """Walks from the initial state that together traverse every transition at least once: deepest states first (their
    tree paths cover the tree edges on the way), then greedy extension through transitions not yet covered, with a
    bounded look-ahead through covered ones.  Terminal states (HALT, FAULT) end a walk."""
    ids = {}

    def nid(k):
        if k not in ids:
            ids[k] = len(ids)
        return ids[k]
    s0 = nid(init)
    out, E = {}, []
    for a, rec, b in edges:
        E.append((nid(a), rec, nid(b)))
        out.setdefault(E[-1][0], []).append(len(E) - 1)
    for l in out.values():
        rnd.shuffle(l)
    parent, order, i = {s0: None}, [s0], 0
    while i < len(order):
        s = order[i]
        i += 1
        for ei in out.get(s, []):
            t = E[ei][2]
            if t not in parent:
                parent[t] = ei
                order.append(t)
    covered = [False] * len(E)
    todo = {s: list(l) for s, l in out.items()}

    def pending(s):
        l = todo.get(s)
        while l and covered[l[-1]]:
            l.pop()
        return bool(l)

    def nearest(s, depth=4):
        seen = {s: None}
        frontier = [s]
        for _ in range(depth):
            nxt = []
            for x in frontier:
                for e in out.get(x, []):
                    t = E[e][2]
                    if t in seen:
                        continue
                    seen[t] = e
                    if pending(t):
                        p = []
                        while seen[t] is not None:
                            p.append(seen[t])
                            t = E[seen[t]][0]
                        p.reverse()
                        return p
                    nxt.append(t)
            frontier = nxt
        return None

    ns = edges[0][1]["ns"] if edges else 0
    first = {"op": "init", "a": 0, "b": 0, "kd": "", "refs": 0, "walked": 0, "cyc": False, "st": "run", "fr": 1, "nsc": 1, "ns": ns}
    walks = []
    for s in reversed(order):
        while pending(s):
            path, x = [], s
            while parent[x] is not None:
                path.append(parent[x])
                x = E[parent[x]][0]
            path.reverse()
            cur, walk = s, []
            while len(path) + len(walk) < maxlen:
                if pending(cur):
                    ei = todo[cur].pop()
                else:
                    hop = nearest(cur)
                    if hop is None or len(path) + len(walk) + len(hop) > maxlen:
                        break
                    walk += hop
                    cur = E[hop[-1]][2]
                    continue
                walk.append(ei)
                cur = E[ei][2]
            for ei in path + walk:
                covered[ei] = True
            walks.append([first] + [E[ei][1] for ei in path + walk])
    if not all(covered):
        raise vlib.Inconclusive("transition cover is incomplete")
    return walks, len(ids)


def model_stage(ctx):
    """Exhaustive runs (in parallel: the machine has more cores than one TLC needs for graphs of this size)."""
    q = ctx.quick()
    scratch(ctx)
    rnd = random.Random(ctx.seed)
    verify = ["MC_Q1.cfg"] + ([] if q else ["MC_T1.cfg", "MC_T2.cfg", "MC_T3.cfg"])
    covers = ["MC_C1.cfg", "MC_C2.cfg"]
    jobs = []
    for cfg in verify:
        jobs.append(("code", cfg, "VMXRef.tla", cfg))
        jobs.append(("rel", cfg, "VMXRef.tla", repaired(ctx, cfg)))
    for cfg in covers:
        jobs.append(("cover", cfg, "VMXRefCover.tla", variant(ctx, cfg, cfg.replace(".cfg", "_cov.cfg"), [
            ("PROPERTIES UnloadRule", "PROPERTIES UnloadRule EdgeEmit"), (CODE_INV, CODE_INV.replace("INVARIANTS", "INVARIANTS InitEmit"))])))
        if not q:
            jobs.append(("rel", cfg, "VMXRef.tla", repaired(ctx, cfg)))
    # the shape of the tree breaks exactness: TLC must say so (the real VM is judged on its own traces)
    jobs.append(("shape", "MC_Q1.cfg", "VMXRef.tla", variant(ctx, "MC_Q1.cfg", "MC_Shape.cfg", [(CODE_INV, CODE_INV + " ExactAcyclic")])))
    for bug in DEVIATIONS:
        base = repaired(ctx, "MC_Q1.cfg")
        if not q:
            jobs.append(("bug", bug, "VMXRef.tla", variant(ctx, base, "MC_%s.cfg" % bug, [("%s = FALSE" % bug, "%s = TRUE" % bug), ("Limit = 99", "Limit = 6")])))
        jobs.append(("bugcount", bug, "VMXRef.tla", variant(ctx, base, "MC_%s_count.cfg" % bug, [
            ("%s = FALSE" % bug, "%s = TRUE" % bug), ("Limit = 99", "Limit = 6"),
            (FULL_INV, "INVARIANTS NoUnderCount ExactAcyclic Bounded"), ("PROPERTIES AbsStep UnloadRule", "")])))

    def one(job):
        kind, what, module, cfg = job
        for attempt in (0, 1):
            try:
                r = ctx.tlc_mc(SUB, module, cfg, timeout=900 if q else 3600, workers=WORKERS)
                return job, r, None
            except vlib.ModelError as e:
                # an error that is not a verdict of TLC about the model (a JVM that could not start on the shared
                # machine, ...) is tried once more before it makes the run inconclusive
                if attempt == 1 or violated((e.res or {}).get("out", "")):
                    return job, e.res, e
                vlib.log("TLC failed on %s without a verdict (%s): once more" % (cfg, e))
    cover_stats, walks = {}, []
    with ThreadPoolExecutor(max_workers=4 if q else 5) as ex:
        results = list(ex.map(one, jobs))
    for (kind, what, module, cfg), r, err in results:
        out = (r or {}).get("out", "")
        if kind in ("code", "rel", "cover"):
            if err is not None:
                raise err
            if kind == "cover":
                init, edges = parse_graph(out)
                if init is None or len(edges) + 1 != r["transitions"]:
                    raise vlib.Inconclusive("could not read the state graph of %s (%d edges of %d)" % (cfg, len(edges), r["transitions"]))
                w, nstates = transition_cover(init, edges, rnd)
                if nstates < r["states"]:
                    raise vlib.Inconclusive("state graph of %s: %d states read, TLC found %d" % (cfg, nstates, r["states"]))
                cover_stats[what] = {"states": nstates, "transitions": len(edges), "walks": len(w), "actions": sum(len(x) - 1 for x in w)}
                walks.append([{"kind": "cov", "hist": x} for x in w])
        elif kind == "shape":
            if err is None or "ExactAcyclic" not in violated(out):
                raise vlib.Inconclusive("the model of the tree's shape (stacks of unwound script contexts stay counted) does not break ExactAcyclic")
            ctx.extra["xscript_model_selftests"] = ctx.extra.get("xscript_model_selftests", 0) + 1
        else:
            if err is None or not violated(out) or (kind == "bugcount" and not (violated(out) & DEVIATIONS[what])):
                raise vlib.Inconclusive("deviation %s (%s) not refuted by the model's %s clauses: %s\n%s" % (
                    what, cfg, "counting" if kind == "bugcount" else "", sorted(violated(out)) if err else "no error", vlib.tail(out, 15)))
            ctx.extra["xscript_model_selftests"] = ctx.extra.get("xscript_model_selftests", 0) + 1
    ctx.extra["xscript_transition_cover"] = cover_stats
    return walks, rnd


def violation(ctx, sig, detail):
    """ctx.violation, except that a stand-alone run of the extension (property id C12_XSCRIPT) honours the known findings
    listed for C12 the way the registered check does."""
    if ctx.pid != "C12":
        for kf in ctx.known.get("findings", []):
            if kf.get("property") == "C12" and vlib.sig_match(kf.get("signature", {}), sig):
                if kf not in ctx.known_hits:
                    ctx.known_hits.append(kf)
                    print("KNOWN-FINDING: property=C12 %s" % kf.get("what", json.dumps(kf.get("signature"))), flush=True)
                return True
    n = len(ctx.known_hits)
    ctx.violation(sig, detail)
    return len(ctx.known_hits) > n


def run_ext(ctx):
    q = ctx.quick()
    v0 = len(ctx.violations)
    # 1. exhaustive
    walks, rnd = model_stage(ctx)
    # 2. random behaviours of the model over larger universes
    behaviours, seen = [], set()
    for i, (cfg, num, depth) in enumerate([("Sim_Deep.cfg", 40 if q else 1200, 40), ("Sim_Calls.cfg", 40 if q else 1200, 45)]):
        scratch(ctx)
        for h in ctx.tlc_sim(SUB, "VMXRefSim.tla", cfg, num=num, depth=depth, timeout=300 if q else 1500, seed=ctx.seed * 10 + i):
            k = json.dumps(h, sort_keys=True)
            if k not in seen:
                seen.add(k)
                behaviours.append({"kind": "sim", "hist": h})
    rnd.shuffle(behaviours)
    behaviours = behaviours[: (500 if q else 20000)]
    # quick tier: all walks of the first cover graph and a seeded sample of the second (the evidence says how many)
    used = list(walks[0])
    rest = [w for c in walks[1:] for w in c]
    rnd.shuffle(rest)
    budget, n = (30000 if q else 10 ** 7), 0
    for w in rest:
        if n + len(w["hist"]) > budget:
            break
        used.append(w)
        n += len(w["hist"])
    ctx.extra["xscript_cover_walks_replayed"] = len(used)
    ctx.extra["xscript_cover_walks_total"] = sum(len(c) for c in walks)
    behaviours = used + behaviours
    ind = os.path.join(ctx.work, "in-c12xscript")
    os.makedirs(ind, exist_ok=True)
    json.dump(behaviours, open(os.path.join(ind, "behaviours.json"), "w"))
    ctx.assumptions += [
        "xscript: callees are loaded by a SyscallHandler of the harness that pops the arguments (counted Pops), calls "
        "LoadScriptWithHash / LoadNEFMethod (return count 0 or 1, unload callback, _initialize offset) / LoadScriptWithFlags / "
        "LoadDynamicScript and pushes the arguments on the new stack, as callExFromNative and runtime.LoadScript do; no "
        "onUnloaded callback (with one, unloadContext turns every exception passing through into a FAULT)",
        "xscript: 'really reachable' = walk over v.Estack() and over the evaluation stack, static slot, locals and arguments of "
        "every frame of v.Istack(); the stack of a script context that exception unwinding dropped is not reachable",
        "xscript: real-chain binding = contracts deployed with neotest calling each other through System.Contract.Call, the "
        "transaction run once in a test VM of the chain with the same per-instruction observer and once in a block (state and "
        "gas compared)",
    ]
    # 3. real code
    env = {"VERIF_IN": ind, "VERIF_RANDOM": 240 if q else 6000, "VERIF_FILLS": 8 if q else 200, "VERIF_CHAIN": int(os.environ.get("VERIF_XS_CHAIN", 60 if q else 1500))}
    res = ctx.go_driver("c12xscript", "TestDriver", env=env, timeout=3000)
    ctx.absorb(res)
    st = res.get("stats") or {}
    pc = st.get("xscript_per_class") or {}
    # 4. TLC judges every recorded observation against the abstract specification
    files = sorted(f for f in os.listdir(res["_out"]) if f.startswith("trace-") and f.endswith(".ndjson"))
    if len(files) != st.get("trace_files"):
        raise vlib.Inconclusive("trace files missing: %s of %s" % (len(files), st.get("trace_files")))
    bad_runs, known = set(), 0
    for f in files:
        trace = os.path.join(res["_out"], f)
        scratch(ctx)
        fails = judge(ctx, trace)
        if fails:
            b, k = report(ctx, vlib.read_ndjson(trace), fails)
            bad_runs |= b
            known += k
    ctx.traces_validated += res.get("traces", 0)
    ctx.extra["xscript_known_finding_observations"] = known
    if len(ctx.violations) > v0:
        return      # (the vacuity guards and the self-test below presuppose a tree that behaves; the verdict stands)
    nb = max(1, st.get("behaviours", 0))
    if st.get("behaviours_replayed_to_the_end", 0) * 10 < 9 * nb:
        raise vlib.Inconclusive("fewer than 90%% of the model behaviours could be replayed to their end (%s of %s): %s" % (
            st.get("behaviours_replayed_to_the_end"), st.get("behaviours"), (res.get("drift") or [None])[:2]))
    for cls, key, least in (("cov", "unwound_script_contexts", 1), ("cov", "cross_script_returns", 1), ("scripted", "max_walked", 2048),
                            ("heavy", "max_walked", 1500),
                            ("random", "unwound_script_contexts", 1), ("random", "max_script_contexts", 4), ("random", "max_idepth", 7)):
        if (pc.get(cls) or {}).get(key, 0) < least:
            raise vlib.Inconclusive("vacuity guard: class %s reached %s = %s (< %s)" % (cls, key, (pc.get(cls) or {}).get(key), least))
    if env["VERIF_CHAIN"] and st.get("chain_runs", 0) < 1:
        raise vlib.Inconclusive("the real-chain binding ran nothing")
    # 5. binding self-test: a corrupted good trace must be rejected
    selftest(ctx, os.path.join(res["_out"], files[0]), bad_runs)


def judge(ctx, trace, timeout=3000):
    """Run the total, reporting trace specification over one trace file; returns the decoded @@FAIL@@ records.  (ctx.trace_judge
    copies spec/common + spec/vmxref only; the abstract judge VMLimits.tla of the registered check has to sit next to them.)"""
    d = ctx.spec_scratch(SUB, name="trx-%d" % len(ctx.models))
    shutil.copy(os.path.join(vlib.VERIF, "spec", "vmref", "VMLimits.tla"), os.path.join(d, "VMLimits.tla"))
    shutil.copy(trace, os.path.join(d, "trace.ndjson"))
    r = ctx.tlc(d, "VMXRefTrace.tla", "Trace_VMX.cfg", timeout, workers=1, tag="trace-VMX")
    shutil.rmtree(d, ignore_errors=True)
    if r["timed_out"]:
        raise vlib.Inconclusive("trace validation timed out")
    if r["error"] or r["rc"] != 0:
        raise vlib.Inconclusive("trace spec did not consume the whole trace (depth %s): %s\n%s" % (r.get("depth"), r["error"], vlib.tail(r["out"], 25)))
    ctx.states += r.get("states", 0)
    ctx.transitions += r.get("transitions", 0)
    fails = []
    for line in r["out"].splitlines():
        i = line.find("@@FAIL@@")
        if i < 0:
            continue
        js = vlib.extract_tla_string(line[i + 8:])
        if js is not None:
            try:
                fails.append(json.loads(js))
            except Exception:
                pass
    return fails


JUDGED = ("Total", "RunningIsNone", "GasBounded", "ItemsBounded", "CounterBounded", "IntBounded", "SizeBounded", "InvocBounded",
          "TryBounded", "NoUnderCount", "ExactAcyclic", "OnBoundary")


def report(ctx, events, fails):
    """One violation per (run, clause): the FIRST observation of the run that falsifies the clause names the instruction and
    the kind of script boundary.  Returns (runs with failures, observations explained by the listed finding)."""
    start, starts = 0, []
    for i, e in enumerate(events):
        if e["e"] == "i":
            start = i
        starts.append(start)
    done, bad, known = set(), set(), 0
    for f in sorted(fails, key=lambda x: x["line"]):
        li = f["line"] - 1
        s = starts[li]
        ini, ev = events[s], events[li]
        what = set(f["what"])
        for w in sorted(what):
            if w not in JUDGED:
                if w == "ExactModuloDropped" and "ExactAcyclic" in what:
                    continue      # classification of an ExactAcyclic failure, see below
                if (s, w) not in done:      # recording consistency / classification only: drift, never a verdict
                    done.add((s, w))
                    if len(ctx.spec_drift) < 20:
                        ctx.spec_drift.append({"part": PART, "informational": w, "run": ini["src"], "observation": small(ev)})
                continue
            bad.add(ini["id"])
            sig = {"part": PART, "kind": w, "op": ev.get("lopn", ""), "across": ev.get("x", ""), "binding": ini.get("bind", "vm")}
            if w == "ExactAcyclic" and "ExactModuloDropped" not in what and ev.get("wa") != ev.get("w"):
                # established by the harness: the counter equals the walk over the live roots + the cells of dropped stacks
                sig["cause"] = "abandoned-stack"
                known += 1
            if (s, w, sig.get("cause")) in done:
                continue
            done.add((s, w, sig.get("cause")))
            if w == "OnBoundary":
                sig["op"] = ev.get("opn", sig["op"])
            violation(ctx, sig, {
                "what": "clause %s of VMLimits is false on the real VM after %s (run %s, event %d of the run)" % (w, sig["op"], ini["src"], li - s),
                "scripts": ini.get("scripts"), "gas_limit_limbs": ini["lim"], "price_base": ini.get("base"),
                "observation": small(ev), "previous": [small(e) for e in events[max(s + 1, li - 6):li]]})
    return bad, known


def small(e):
    return {k: v for k, v in e.items() if k != "scripts"}


def selftest(ctx, trace, bad_runs=()):
    """Corrupt one field of a good recorded run and require the trace specification to reject it."""
    runs, cur = [], None
    with open(trace) as f:
        for line in f:
            e = json.loads(line)
            if e["e"] == "i":
                cur = [e]
            elif cur is not None:
                cur.append(e)
                if e["e"] == "f":
                    if cur[0]["id"] not in bad_runs and len(cur) < 400:
                        runs.append(cur)
                    cur = None
            if len(runs) > 3000:
                break

    def find(pred):
        for r in runs:
            for i, e in enumerate(r):
                if pred(r, i, e):
                    return r, i
        raise vlib.Inconclusive("xscript self-test could not find a place to corrupt the trace")

    def after(x):
        return lambda r, i, e: e["e"] == "s" and e["x"] == x and e["r"] >= 2 and not e["c"] and e["r"] == e["w"]
    cases = []
    for x in ("call", "ret", "unwind"):
        r, i = find(after(x))
        cases.append(("refs-1 after " + x, r, i, {"r": r[i]["r"] - 1}, {"NoUnderCount"}))
        r, i = find(after(x))
        cases.append(("refs+1 after " + x, r, i, {"r": r[i]["r"] + 1}, {"ExactAcyclic"}))
    r, i = find(after("unwind"))
    cases.append(("dropped without unwinding", r, i, {"wa": r[i]["wa"] + 1, "x": ""}, {"DroppedNeedsUnwind"}))
    r, i = find(lambda r, i, e: e["e"] == "f" and e["st"] == "HALT")
    cases.append(("state-break", r, i, {"st": "BREAK"}, {"Total"}))
    r, i = find(lambda r, i, e: e["e"] == "f" and e["st"] == "HALT")
    cases.append(("gas-over", r, i, {"g": [r[0]["lim"][0], r[0]["lim"][1], r[0]["lim"][2] + 1]}, {"GasBounded"}))
    r, i = find(lambda r, i, e: e["e"] == "f" and e["st"] == "FAULT")
    cases.append(("panic", r, i, {"p": True}, {"Total"}))
    r, i = find(lambda r, i, e: e["e"] == "s" and i > 2)
    cases.append(("items", r, i, {"w": 2049, "r": 2049, "wa": 2049}, {"ItemsBounded"}))
    r, i = find(lambda r, i, e: e["e"] == "s" and i > 2)
    cases.append(("invocations", r, i, {"i": 1025}, {"InvocBounded"}))
    r, i = find(lambda r, i, e: e["e"] == "s" and i > 2 and r[0]["chk"])
    cases.append(("off-boundary", r, i, {"k": False}, {"OnBoundary"}))
    evs, expect = [], []
    for name, r, i, ch, exp in cases:
        seg = [dict(e) for e in r[:i + 1]]
        seg[i].update(ch)
        expect.append((name, len(evs) + i + 1, exp))
        evs += seg
    path = os.path.join(ctx.work, "selftest-xs.ndjson")
    vlib.write_ndjson(path, evs)
    stt, trr = ctx.states, ctx.transitions
    fails = judge(ctx, path, timeout=600)
    ctx.states, ctx.transitions = stt, trr
    byline = {f["line"]: set(f["what"]) for f in fails}
    for name, line, exp in expect:
        if not (exp & byline.get(line, set())):
            raise vlib.Inconclusive("xscript binding self-test %s: corrupted observation was not rejected (%s expected, got %s)" % (
                name, sorted(exp), sorted(byline.get(line, []))))
        ctx.extra["xscript_binding_selftests"] = ctx.extra.get("xscript_binding_selftests", 0) + 1
    extra = [l for l in byline if l not in [x[1] for x in expect]]
    if extra:
        raise vlib.Inconclusive("xscript binding self-test: uncorrupted observations were rejected at lines %s" % extra[:5])
