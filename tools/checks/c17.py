"""C17 (partial) - wire formats round-trip, identity depends only on content.

What is claimed (and what is not) is said in RULE and in the level text of tools/mkmanifest.py: the part of C17 that IS a
state machine - PATH INDEPENDENCE of hash / size / content over every path of transports up to a bound - plus the
round-trip and canonical-form laws on value spaces TLC can enumerate, plus the decode law on structured mutations of valid
encodings.  NOT all byte strings.

Model: spec/wire
  WirePaths   abstract level (Canon, H = digest of the signed part, SizeOf; PathIndependent, SizeExact, NoRefusal, Confluent)
              and Impl level (objects with explicit memo fields; one operator per decoder / transport of the code; nine named
              deviations that TLC must refute; one quirk the code has (JsonLosesArgs, a known finding), refuted as well);  generator of all
              paths <= K with the Impl level's prediction
  WireShapes  enumeration of constructor trees (witness conditions, signers, attribute lists, stack items, manifests, NEF) with
              the documented limits as Legal(...), and of mutation cases (format x operator x field ordinal)
  WireTrace   the judge of the recorded hops / shapes / mutations
Real code: harness/c17wire (every path realised on fresh real objects; shapes instantiated; mutations in guarded workers)."""
import json
import os
import random
from concurrent.futures import ThreadPoolExecutor

import vlib

SPEC = "wire"
RULE = ("cases = (a) one per (value, path): every TLC-enumerated path of transports (p2p message, block body, mempool, database, RPC "
        "JSON, re-encoding, copy, from-bytes, stack item form) of length <= K realised on a fresh real object of its kind - values "
        "instantiated from TLC shapes, hand-made size classes, and objects grown on two real ledgers by histgen - with hash / sizes / "
        "canonical bytes / exported content read back after the last hop; plus what the real ledger returns for every generated "
        "block, header and transaction; (b) one per (TLC-enumerated shape, kind): binary round trip, JSON round trip, "
        "binary->JSON->binary, item form, sizes, agreement of the binary and the JSON decoder; (c) one per (TLC-chosen mutation, "
        "valid sample): the decode law (error, or re-encode->decode fixpoint with equal hash and sizes), no panic, bounded time and "
        "allocation in a guarded child process.  Every case is judged by WireTrace.tla.  NOT claimed: all byte strings.")

DEVS = {"HashReceivedBytes": ("PathIndependent", "Confluent"), "SizeBeforeScripts": ("SizeExact",),
        "JsonDropsField": ("PathIndependent", "NoRefusal"), "DbTruncatesEvents": ("PathIndependent",),
        "CompressEdge": ("NoRefusal", "PathIndependent"), "HashSkipsField": ("PathIndependent",),
        "CopyKeepsMemo": ("PathIndependent", "Confluent"),
        # the code before the repairs this check led to
        "SizeOfReceived": ("SizeExact", "NoRefusal", "Confluent"), "EncodeMarksObject": ("PathIndependent", "Confluent")}


# configurations MC_Code_<name>.cfg: quirks of the unchanged code, each refuted by the abstract level
QUIRKS = {"Args": ("PathIndependent", "Confluent")}


def cases_of(out, marker="@@CASE@@"):
    res = []
    for line in out.splitlines():
        i = line.find(marker)
        if i < 0:
            continue
        js = vlib.extract_tla_string(line[i + len(marker):])
        if js is None:
            continue
        try:
            res.append(json.loads(js))
        except Exception:
            pass
    return res


def tlc_parallel(ctx, jobs):
    d = ctx.spec_scratch(SPEC)
    with ThreadPoolExecutor(max_workers=len(jobs)) as ex:
        futs = {j["name"]: ex.submit(ctx.tlc, d, j["module"], j["cfg"], j["timeout"], workers=j.get("workers", 2),
                                     extra=j.get("extra", ()), tag=j["name"], jvm=["-Xmx%dg" % j.get("heap_g", 2)])
                for j in jobs}
        rs = {k: f.result() for k, f in futs.items()}
    for j in jobs:   # a JVM that died without a TLC verdict (shared machine) is run once more, alone
        r = rs[j["name"]]
        if not r["timed_out"] and r["error"] and r["error"].startswith("rc="):
            vlib.log("C17: TLC job %s ended with %s and no verdict, running it again" % (j["name"], r["error"]))
            rs[j["name"]] = ctx.tlc(d, j["module"], j["cfg"], j["timeout"], workers=j.get("workers", 2), extra=j.get("extra", ()),
                                    tag=j["name"] + "-again", jvm=["-Xmx%dg" % j.get("heap_g", 2)])
    return rs


def must_pass(ctx, r, what):
    if r["timed_out"]:
        raise vlib.Inconclusive("C17: TLC timed out on %s" % what)
    if r["error"]:
        raise vlib.ModelError("C17: TLC reported an error on %s: %s" % (what, r["error"]), r)
    ctx.states += r.get("states", 0)
    ctx.transitions += r.get("transitions", 0)
    vlib.log("C17 %s: %s distinct states, %s generated, %.1fs" % (what, r.get("states"), r.get("transitions"), r["wall_s"]))


def must_fail(ctx, r, name, invariants):
    if r["timed_out"]:
        raise vlib.Inconclusive("C17: TLC timed out on deviation %s" % name)
    if not r["error"] or not any(("%s is violated" % i) in r["out"] for i in invariants):
        raise vlib.Inconclusive("C17: %s not refuted by %s (vacuous model): %s" % (name, invariants, r["error"]))
    ctx.extra["model_selftests"] = ctx.extra.get("model_selftests", 0) + 1


def run(ctx):
    q = ctx.quick()
    rnd = random.Random(ctx.seed)
    ind = os.path.join(ctx.work, "in-c17")
    os.makedirs(ind, exist_ok=True)

    # ------------------------------------------------------------------ 1. generators first (the driver waits for them) ...
    gens = [
        dict(name="paths", module="WirePaths.tla", cfg="Enum_Paths_q.cfg" if q else "Enum_Paths_t.cfg", timeout=900 if q else 3000, workers=2 if q else 4, heap_g=4),
        dict(name="shapes", module="WireShapes.tla", cfg="Enum_Shapes_q.cfg" if q else "Enum_Shapes_t.cfg", timeout=900 if q else 3000, workers=6, heap_g=4),
        dict(name="muts", module="WireShapes.tla", cfg="Enum_Mut_q.cfg" if q else "Enum_Mut_t.cfg", timeout=900 if q else 3000, workers=6, heap_g=4),
    ]
    rs = tlc_parallel(ctx, gens)
    for name in ("paths", "shapes", "muts"):
        must_pass(ctx, rs[name], "generator " + name)
    # ... the exhaustive runs go on in the background while the real code is driven (they do not feed the driver)
    models = [
        dict(name="design", module="WirePaths.tla", cfg="MC_Paths.cfg" if q else "MC_Paths_t.cfg", timeout=900 if q else 3000, workers=2 if q else 4),
    ]
    models += [dict(name="quirk-" + n, module="WirePaths.tla", cfg="MC_Code_%s.cfg" % n, timeout=900, workers=1) for n in QUIRKS]
    models += [dict(name="dev-" + d, module="WirePaths.tla", cfg="MC_Dev_%s.cfg" % d, timeout=900, workers=1) for d in DEVS]
    bg = ThreadPoolExecutor(max_workers=1)
    models_done = bg.submit(tlc_parallel, ctx, models)

    paths = cases_of(rs["paths"]["out"])
    shapes = cases_of(rs["shapes"]["out"])
    muts = [c["c"] for c in cases_of(rs["muts"]["out"])]
    kinds = set(c["kind"] for c in paths)
    spaces = {}
    for c in shapes:
        spaces[c["space"]] = spaces.get(c["space"], 0) + 1
    if len(kinds) < 15 or len(paths) < 5000 or spaces.get("cond", 0) < 1000 or spaces.get("item", 0) < 1000 or spaces.get("signer", 0) < 300 \
            or spaces.get("attrs", 0) < 200 or spaces.get("manifest", 0) < 60 or spaces.get("nef", 0) < 30 or len(muts) < 800:
        raise vlib.Inconclusive("C17: the generators printed too little: %d paths of %d kinds, shapes %s, %d mutation cases" % (
            len(paths), len(kinds), spaces, len(muts)))
    rnd.shuffle(muts)     # which mutation meets which sample first is seeded
    json.dump(paths, open(os.path.join(ind, "paths.json"), "w"))
    json.dump(shapes, open(os.path.join(ind, "shapes.json"), "w"))
    json.dump(muts, open(os.path.join(ind, "muts.json"), "w"))
    ctx.extra["paths_enumerated"] = len(paths)
    ctx.extra["shapes_enumerated"] = spaces
    ctx.extra["mutation_cases_enumerated"] = len(muts)

    # ------------------------------------------------------------------ 2. the real code
    env = {"VERIF_IN": ind}
    if not q:
        env.update({"VERIF_C17_BLOCKS": 150, "VERIF_C17_DEEP": 250, "VERIF_C17_DEEPER": 40, "VERIF_C17_DEEPEST": 10, "VERIF_C17_SAMPLES": 8,
                    "VERIF_C17_LONG": 3, "VERIF_C17_WORKERS": 8})
    res = ctx.go_driver("c17wire", "TestDriver", timeout=1500 if q else 7200, env=env)
    stats = res.pop("stats", None) or {}
    for k, v in stats.items():
        ctx.extra[k] = v
    ctx.absorb(res)
    ctx.traces_validated += res.get("traces", 0)

    # ------------------------------------------------------------------ 2b. the verdicts of the exhaustive runs
    ms = models_done.result()
    bg.shutdown()
    must_pass(ctx, ms["design"], "WirePaths (design: PathIndependent, SizeExact, NoRefusal, Confluent)")
    # behaviours the code HAS (established on the tree): the abstract level refutes each; whether the real code still has
    # them is what the driver's trace says (a repaired tree shows up as drift against the Impl level's prediction)
    for n, invs in QUIRKS.items():
        must_fail(ctx, ms["quirk-" + n], "code quirk " + n, invs)
    for d, invs in DEVS.items():
        must_fail(ctx, ms["dev-" + d], "named deviation " + d, invs)

    # ------------------------------------------------------------------ 3. TLC judges every recorded hop, shape and mutation
    trace = os.path.join(res["_out"], "trace.ndjson")
    events = vlib.read_ndjson(trace)
    kinds_seen = {}
    for e in events:
        kinds_seen[e["event"]] = kinds_seen.get(e["event"], 0) + 1
    if kinds_seen.get("hop", 0) < 10000 or kinds_seen.get("shape", 0) < 5000 or kinds_seen.get("mut", 0) < 5000:
        raise vlib.Inconclusive("C17: the driver recorded too little: %s" % kinds_seen)
    ctx.extra["trace_events"] = kinds_seen
    fails = judge_chunks(ctx, events)
    nviol = report(ctx, events, fails)

    # ------------------------------------------------------------------ 4. binding self-test
    try:
        selftest(ctx, events, fails)
    except vlib.Inconclusive as e:
        if not ctx.violations and not ctx.known_hits:
            raise
        vlib.log("C17: binding self-test not completed on a tree that violates the property (%s)" % e)

    ctx.assumptions += [
        "NOT all byte strings: decoders are exercised on valid encodings, on TLC-enumerated shapes inside and one step outside the "
        "documented limits, and on structured mutations of valid encodings (one operator at one field); arbitrary bytes are not enumerated",
        "the canonical encoding is taken to be what the code's own encoder writes; the harness re-computes the hash from it by the "
        "definition (digest of the signed part), sizes are compared with its length",
        "JSON forms judged as codecs are those rpcclient decodes into the object (getrawtransaction / getblock / getblockheader verbose, "
        "getapplicationlog, getstateroot, getcontractstate, notary request events, stack items with types); purely informational views "
        "(confirmations, nextblockhash, vmstate of a transaction) are carried along and not compared",
        "an object outside the binary decoder's limits that only a Go caller can construct is not a value of the statement; a value "
        "the JSON decoder delivers is (it arrived)",
        "consensus messages are private types: their samples are written by the harness from the documented layout and must be "
        "accepted by the real decoder; their re-encoding is the payload's own (Payload keeps the received Data)",
        "a call that does not return within 5 s, drives the heap over 3 GB or allocates more than 256 MB in total from an input of "
        "less than 1 KB counts as unbounded; allocation is runtime.MemStats.TotalAlloc of the worker around the call",
        "a compressed frame is not a function of the payload alone (the compressor keeps state): the fixpoint of a message is judged "
        "on the uncompressed frame",
    ]
    return nviol


def judge_chunks(ctx, events, chunk=40000):
    fails = []
    lo = 0
    while lo < len(events):
        hi = min(len(events), lo + chunk)
        p = os.path.join(ctx.work, "wire-trace-part.ndjson")
        vlib.write_ndjson(p, [slim(e) for e in events[lo:hi]])
        for f in ctx.trace_judge(SPEC, "WireTrace.tla", "Trace_Wire.cfg", p, timeout=3000):
            f["line"] += lo
            fails.append(f)
        lo = hi
    return fails


def slim(e):
    """Fields the judge reads (long texts stay in the driver's trace for the replay)."""
    return {k: v for k, v in e.items() if k not in ("note", "input", "cls", "path", "src")}


def report(ctx, events, fails):
    n = 0
    for f in fails:
        ev = events[f["line"] - 1]
        for w in sorted(f["what"]):
            c = f["ctx"]
            if w.startswith("drift:"):
                key = "drift_" + w[6:]
                ctx.extra[key] = ctx.extra.get(key, 0) + 1
                if ctx.extra[key] <= 3 and len(ctx.spec_drift) < 20:
                    ctx.spec_drift.append({"kind": w[6:], "object": c["kind"], "class": c["sig"], "event": short(ev)})
                continue
            n += 1
            kind, _, sub = w.partition("/")
            tr = c["tr"] if not sub else sub
            sig = {"kind": kind, "object": c["kind"], "transport": tr, "class": c["sig"]}
            ctx.violation(sig, {"what": "abstract predicate %s of spec/wire is false for what the real code did" % w, "event": short(ev)})
    return n


def short(ev):
    out = dict(ev)
    for k in ("input", "note", "err"):
        if isinstance(out.get(k), str) and len(out[k]) > 1500:
            out[k] = out[k][:1500] + "..."
    return out


def selftest(ctx, events, fails):
    """Corrupt one field of good recorded events and require the judge to name the predicate."""
    bad = set(f["line"] - 1 for f in fails if any(not w.startswith("drift:") for w in f["what"]))

    def pick(cond):
        for i, e in enumerate(events):
            if i not in bad and cond(e):
                return json.loads(json.dumps(slim(e)))
        raise vlib.Inconclusive("C17 self-test: no good event to corrupt")

    muts = []
    e = pick(lambda e: e["event"] == "hop" and e["kind"] == "tx" and e["tr"] == "json" and e["err"] == "")
    e["ha"] = "00" + e["ha"][2:] if not e["ha"].startswith("00") else "11" + e["ha"][2:]
    muts.append((e, "PathIndependent"))
    e = pick(lambda e: e["event"] == "hop" and e["kind"] == "block" and e["tr"] == "db" and e["err"] == "")
    e["sizes"] = [e["sizes"][0] + 1] + e["sizes"][1:]
    muts.append((e, "SizeExact"))
    e = pick(lambda e: e["event"] == "hop" and e["kind"] == "aer" and e["tr"] == "db" and e["err"] == "")
    e["eq"] = False
    muts.append((e, "PathIndependent"))
    e = pick(lambda e: e["event"] == "hop" and e["kind"] == "tx" and e["tr"] == "pool" and e["err"] == "")
    e["mb"] = "feedfeedfeed"
    muts.append((e, "Confluent"))
    e = pick(lambda e: e["event"] == "hop" and e["kind"] == "header" and e["tr"] == "p2p" and e["err"] == "")
    e["err"] = "refused"
    muts.append((e, "RoundTrip"))
    e = pick(lambda e: e["event"] == "hop" and e["kind"] == "notaryreq" and e["err"] == "")
    e["panic"] = True
    muts.append((e, "panic"))
    e = pick(lambda e: e["event"] == "shape" and e["space"] == "cond" and e["bdec"] == "ok" and e["jdec"] == "ok")
    e["jsame"] = False
    muts.append((e, "RoundTrip/json"))
    e = pick(lambda e: e["event"] == "shape" and e["space"] == "signer" and e["jdec"] == "ok" and e["jbin"] == "ok")
    e["jbin"] = "err"
    muts.append((e, "JsonBinaryAgree"))
    e = pick(lambda e: e["event"] == "shape" and e["space"] == "item" and e["bdec"] == "ok" and e["xdec"] == "ok")
    e["xsame"] = False
    muts.append((e, "RoundTrip/binary-json-binary"))
    e = pick(lambda e: e["event"] == "mut" and e["out"] == "value" and e["fix"] and e["identeq"])
    e["identeq"] = False
    muts.append((e, "DecodeLaw"))
    e = pick(lambda e: e["event"] == "mut" and e["out"] == "error" and e["inlen"] < 1000)
    e["allocmb"] = 300
    muts.append((e, "unbounded"))
    e = pick(lambda e: e["event"] == "mut" and e["out"] == "error")
    e["out"] = "hang"
    muts.append((e, "unbounded"))
    path = os.path.join(ctx.work, "wire-selftest.ndjson")
    vlib.write_ndjson(path, [m[0] for m in muts])
    st, tr = ctx.states, ctx.transitions
    got = ctx.trace_judge(SPEC, "WireTrace.tla", "Trace_Wire.cfg", path, timeout=600)
    ctx.states, ctx.transitions = st, tr
    by_line = {f["line"]: set(f["what"]) for f in got}
    for i, (ev, name) in enumerate(muts):
        if name not in by_line.get(i + 1, set()):
            raise vlib.Inconclusive("C17 binding self-test: corrupted %s event not rejected with %s (got %s)" % (
                ev["event"], name, sorted(by_line.get(i + 1, []))))
    ctx.extra["binding_selftests"] = len(muts)
