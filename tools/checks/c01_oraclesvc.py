"""Extension of the C01 check: the ORACLE SERVICE (pkg/services/oracle) together with the native Oracle contract and the
pool's one-response-per-request rule.  N real oracle services on N real ledgers (different node-local ledger and service
options, restarts) are fed the same blocks by a producer ledger; the blocks carry the requests and the response
transactions the services themselves built, signed together and sent.

Model: spec/oraclesvc
  OracleSvc       abstract level: section JUDGED (what the statement of C01 literally demands: LedgersAgree, BlockAccepted,
                  FinishOnce) and section BEYOND (the service's own behaviour: determinism of the response transaction,
                  response-code table, fees, signature counting, sending, acceptance by the ledger)
  OracleSvcImpl   one action per critical section of the real code; 14 named deviations TLC must refute (4 of them are
                  behaviours the unrepaired tree really had / has: Real*)
  OracleSvcSim    behaviour generator (tlc -simulate), OracleSvcTrace  judge of recorded traces (TraceIO style)
Real code: harness/c01oraclesvc (real oracle.Oracle services attached with Blockchain.SetOracle and Start()ed, scripted web
server behind the service's own http.Client, harness network for AddResponse, gates instead of sleeps).

Called from the C01 check:   ext = _load_ext('c01_oraclesvc'); ext.run_ext(ctx)

VERDICT POLICY (lead's ruling): a VIOLATION is printed only for the judged predicates (signature {"part": "oraclesvc",
"kind": LedgersAgree | BlockAccepted | FinishOnce | RestartTransparent, ...}) and for a panic escaping the service / ledger
API.  A falsified predicate of section BEYOND is a named observation: counter "beyond:<Pred>[/<ground>]" in the evidence
and one sample per signature in spec_drift - exit code unaffected.
"""
import concurrent.futures
import json
import os
import random

import vlib

PART = "oraclesvc"
SUB = "oraclesvc"
JUDGED = ("LedgersAgree", "BlockAccepted", "FinishOnce")
GOOD_Q = ("base", "backup", "restart", "redesig", "fees", "attr", "forge", "fast")
GOOD_T = GOOD_Q + ("restart3", "forge4", "big", "big3", "redesig3")
DEVIATIONS = ("BugVubCurrent", "BugNonceLocal", "BugFeeLocal", "BugSigTwice", "BugNonDesig", "BugNoSigCheck", "BugNoReverify",
              "BugPoolTwo", "BugBothSent", "BugBackupWindow", "RealResendMain", "RealStaleBuild", "RealIntakeRace", "RealAttrFee")
# observations known on the current tree (pred, ground): behaviour of the service the lead knows about; anything else is
# listed under "beyond_new" in the evidence and printed
KNOWN_BEYOND = {
    ("SendsOnlyWithQuorum", "stale-designation"), ("SentAccepted", "stale-designation"), ("RelayAccepted", "stale-designation"),
    ("SentQuorum", "stale-designation"), ("Signers", "stale-designation"), ("SendsWhenQuorum", "stale-designation"),
    ("SentQuorum", "resend-main-after-backup"), ("SingleSend", "resend-main-after-backup"), ("SentAccepted", "resend-main-after-backup"),
    ("RelayAccepted", "resend-main-after-backup"),
    ("Agreement", "no-fetch-intake-window"), ("SentAccepted", "no-fetch-intake-window"), ("RelayAccepted", "no-fetch-intake-window"),
    ("FeeSum", "no-fetch-intake-window"), ("SentQuorum", "no-fetch-intake-window"), ("UnknownRefused", "no-fetch-intake-window"),
    ("SentIsBuilt", "finished-request"), ("SentQuorum", "finished-request"), ("SingleSend", "finished-request"),
}
RULE_EXT = ("oracle-service extension: cases = builds (main + backup response transaction found in a real service's incomplete-"
            "transaction map), OnTransaction calls, relays to the producer's pool, included responses, block deliveries and restarts "
            "of 4 (7) real oracle services on real ledgers under TLC behaviours of OracleSvcImpl, seeded random schedules and "
            "scripted worlds; every step is judged by TLC (OracleSvcTrace): ledger digests of all nodes against the producer's "
            "(judged), finish at most once (judged), and the service's own rules (beyond the statement: observations)")


def model_stage(ctx):
    q = ctx.quick()
    ctx.spec_scratch(SUB)
    good = GOOD_Q if q else GOOD_T
    if os.environ.get("VERIF_OSVC_DEV"):     # development aid (mutation runs of the builder): the models do not depend on the tree
        ctx.tlc_mc(SUB, "MCOracleSvc.tla", "MC_base.cfg", timeout=900)
        return
    errors, caught = [], []
    w = max(2, ctx.ncpu // 4)

    def run_good(name):
        ctx.tlc_mc(SUB, "MCOracleSvc.tla", "MC_%s.cfg" % name, timeout=1500 if q else 3000, workers=w)

    def run_dev(name):
        try:
            ctx.tlc_mc(SUB, "MCOracleSvc.tla", "MC_dev_%s.cfg" % name, timeout=900, workers=2)
        except vlib.ModelError as e:
            out = e.res["out"] if e.res else ""
            if "Invariant AbsInv is violated" in out or "Invariant InfoInv is violated" in out:
                caught.append(name)
                return
            raise
        raise vlib.Inconclusive("named deviation %s not refuted by the abstract predicates (vacuous model)" % name)

    st, tr = ctx.states, ctx.transitions
    with concurrent.futures.ThreadPoolExecutor(max_workers=4) as ex:
        futs = [ex.submit(run_good, c) for c in good]
        for f in futs:
            try:
                f.result()
            except Exception as e:
                errors.append(e)
    if errors:
        raise errors[0]
    st, tr = ctx.states, ctx.transitions       # deviation runs end at their counterexample: not coverage
    with concurrent.futures.ThreadPoolExecutor(max_workers=6) as ex:
        futs = [ex.submit(run_dev, c) for c in DEVIATIONS]
        for f in futs:
            try:
                f.result()
            except Exception as e:
                errors.append(e)
    ctx.states, ctx.transitions = st, tr
    if errors:
        raise errors[0]
    ctx.extra["oraclesvc_model_selftests"] = len(caught)


def behaviours(ctx):
    q = ctx.quick()
    out, seen = [], set()
    for i, cfg in enumerate(("Sim_plain.cfg", "Sim_policy.cfg", "Sim_two.cfg")):
        hs = ctx.tlc_sim(SUB, "OracleSvcSim.tla", cfg, num=(25 if q else 400), depth=34, timeout=400 if q else 2000, seed=ctx.seed * 10 + i)
        for h in hs:
            # the candidates of the last step share their prefix: one behaviour per prefix
            k = json.dumps([{x: v for x, v in s.items() if x != "flags"} for s in h[:-1]], sort_keys=True)
            if k not in seen:
                seen.add(k)
                out.append(h)
    random.Random(ctx.seed).shuffle(out)
    return out[: (60 if q else 500)]


def ground_of(pred, ev, idx):
    """Why a beyond-statement predicate is false here, as far as the event tells (the known behaviours of the service)."""
    def rec(lst):
        l = ev.get(lst) or []
        return l[idx - 1] if isinstance(idx, int) and 1 <= idx <= len(l) else None
    if pred in ("SentIsBuilt", "SentQuorum", "SentAccepted", "UnknownRefused", "SingleSend"):
        s = rec("sent")
    elif pred in ("RelayAccepted", "RelayUnknownRefused"):
        s = rec("relayed")
    else:
        s = None
    if s is not None:
        if s.get("pending") is False and pred in ("SentIsBuilt", "SentQuorum", "SingleSend"):
            return "finished-request"     # a fetch that outlived its request: the entry it fills left the map with the finishing block
        if ev.get("event") == "tick" and s.get("which") == "main" and (pred == "SingleSend" or (
                pred in ("SentQuorum", "SentAccepted") and s.get("pushes", 9) < len(s.get("keys") or []))):
            return "resend-main-after-backup"
        if sorted(s.get("keys") or []) != sorted(s.get("desig") or []):
            return "stale-designation"
        if s.get("fast"):
            return "no-fetch-intake-window"
        if s.get("err") == "expired":
            return "expired"
        return ""
    if pred in ("SendsOnlyWithQuorum", "SendsWhenQuorum"):
        for s in ev.get("sent") or []:
            if sorted(s.get("keys") or []) != sorted(s.get("desig") or []):
                return "stale-designation"
        return "stale-designation" if ev.get("stale") else ""
    b = rec("built")
    if b is not None and b.get("ans") in ("ftp", "malformed"):
        return "no-fetch-intake-window"
    return ""


def judge(ctx, events):
    fails = ctx.trace_judge_parts(SUB, "OracleSvcTrace.tla", "Trace_OracleSvc.cfg", events, max_events=30000, timeout=3000, workers=4)
    starts, s = [], 0
    for i, e in enumerate(events):
        if e["event"] == "init":
            s = i
        starts.append(s)
    beyond, samples, judged = {}, {}, 0
    for f in fails:
        li = f["line"] - 1
        ev = events[li]
        for w in sorted(f["what"]):
            pred, _, tag = w.partition("#")
            idx = int(tag) if tag.isdigit() else tag
            if pred in JUDGED:
                judged += 1
                kind = pred
                if ev["event"] == "restart":
                    kind = "RestartTransparent"
                comps = []
                if pred == "LedgersAgree":
                    ref = next((e for e in reversed(events[starts[li]:li]) if e["event"] in ("mine", "init") and e["facts"]["h"] == ev.get("h")), None)
                    if ref:
                        comps = sorted(k for k in ev.get("digest", {}) if ref["digest"].get(k) != ev["digest"].get(k))
                sig = {"part": PART, "kind": kind, "cfg": ev.get("cfg"), "components": comps, "op": ev["event"]}
                ctx.violation(sig, {"what": "judged predicate %s false at %s of world %s (node %s, height %s); differing components %s" % (
                    pred, ev["event"], ev.get("src"), ev.get("node"), ev.get("h"), comps),
                    "history": [{k: v for k, v in e.items() if k != "digest"} for e in events[starts[li]:li + 1]][-120:], "event": ev})
                continue
            g = ground_of(pred, ev, idx)
            key = pred + ("/" + g if g else "")
            beyond[key] = beyond.get(key, 0) + 1
            if key not in samples:
                samples[key] = {"part": PART, "beyond": pred, "ground": g, "world": ev.get("src"), "line": f["line"],
                                "event": {k: v for k, v in ev.items() if k != "digest"}}
    return fails, beyond, samples, judged


def run_ext(ctx):
    q = ctx.quick()
    # 1. exhaustive: Impl => abstract predicates; the named deviations are refuted
    model_stage(ctx)
    # 2. behaviours
    beh = behaviours(ctx)
    if not beh:
        raise vlib.Inconclusive("no OracleSvcImpl behaviours generated")
    ind = os.path.join(ctx.work, "in-c01oraclesvc")
    os.makedirs(ind, exist_ok=True)
    json.dump(beh, open(os.path.join(ind, "behaviours.json"), "w"))
    # 3. real code
    res = ctx.go_driver("c01oraclesvc", "TestDriver", env={"VERIF_IN": ind, "VERIF_RANDOM": 45 if q else 400}, timeout=6000)
    if res.get("crashed"):
        return
    for v in res.get("violations") or []:
        v.setdefault("signature", {})["part"] = PART
    ctx.absorb(res)
    st = res.get("stats", {})
    if st.get("oraclesvc_worlds_failed"):
        raise vlib.Inconclusive("%s worlds could not be prepared: %s" % (st["oraclesvc_worlds_failed"], (res.get("drift") or [None])[0]))
    # 4. TLC judges the recorded traces
    events = vlib.read_ndjson(os.path.join(res["_out"], "trace.ndjson"))
    ctx.extra["oraclesvc_trace_events"] = len(events)
    fails, beyond, samples, judged = judge(ctx, events)
    ctx.traces_validated += res.get("traces", 0)
    new = {}
    for key, n in sorted(beyond.items()):
        ctx.extra["beyond:" + key] = ctx.extra.get("beyond:" + key, 0) + n
        pred, _, g = key.partition("/")
        if (pred, g) not in KNOWN_BEYOND:
            new[key] = n
        ctx.spec_drift.insert(0, samples[key])      # one sample per (predicate, ground), ahead of the model-vs-code drift notes
    del ctx.spec_drift[20:]
    ctx.extra["oraclesvc_beyond_new"] = new
    if beyond:
        vlib.log("oracle service: observations beyond the statement of C01 (not verdicts): %s" % json.dumps(beyond, sort_keys=True))
    if new:
        vlib.log("oracle service: observations NOT among the known behaviours of the service: %s" % json.dumps(new, sort_keys=True))
    ctx.assumptions.append(
        "oracle service: 4 (7) designated-capable nodes, memory stores, node-local ledger options KeepOnlyLatestState / SaveStorageBatch / "
        "GarbageCollectionPeriod and service options (timeouts, concurrency, AllowPrivateHost, Nodes) differ per node, AllowedContentTypes is "
        "the same everywhere (it is part of the answer class); no block collection (RemoveUntraceableBlocks), no neofs: URLs; the refresh "
        "timer never fires by itself - its work is a schedule step (ProcessRequestsInternal with a nil request, only for entries the node "
        "processed itself, as the timer does); behaviour of the service itself (different transactions on different nodes, a sent "
        "transaction refused, response codes, signature counting, liveness) is beyond the statement of C01: reported as beyond:<Pred> "
        "observations, never as violations")
    # 5. binding self-test: corrupted good traces must be rejected with the expected predicate
    if not judged:
        selftest(ctx, events, set(f["line"] for f in fails), strict=not new)


def selftest(ctx, events, bad_lines, strict=True):
    """strict: every kind of corruption must find a place in the recorded trace; a trace full of (new) observations has few
    clean histories left - then the corruptions that still find a place are tried (at least the judged ones)."""
    ev = events[:9000]
    starts, s = [], 0
    for i, e in enumerate(ev):
        if e["event"] == "init":
            s = i
        starts.append(s)
    done = {}

    def clean(i):       # the whole history up to i has no reported failure (a corrupted copy fails only where it is corrupted)
        return not any(l - 1 in range(starts[i], i + 1) for l in bad_lines)

    for i, e in enumerate(ev):
        if not clean(i):
            continue
        if "digest" not in done and e["event"] == "deliver" and e.get("stored"):
            done["digest"] = (i, dict(e, digest=dict(e["digest"], storage="corrupted")), "LedgersAgree")
        if "stored" not in done and e["event"] == "deliver" and e.get("stored"):
            done["stored"] = (i, dict(e, stored=False), "BlockAccepted")
        if "twice" not in done and e["event"] == "mine" and e.get("included"):
            done["twice"] = (i, dict(e, included=e["included"] + [e["included"][0]]), "FinishOnce")
        if "restart" not in done and e["event"] == "restart":
            done["restart"] = (i, dict(e, digest=dict(e["digest"], stateroot="corrupted")), "LedgersAgree")
        b = (e.get("built") or [None])[0]
        if "vub" not in done and b:
            done["vub"] = (i, dict(e, built=[dict(b, main=dict(b["main"], vub=b["main"]["vub"] + 1))] + e["built"][1:]), "MainVub")
        if "nonce" not in done and b:
            done["nonce"] = (i, dict(e, built=[dict(b, backup=dict(b["backup"], nonce=b["backup"]["nonce"] + 1))] + e["built"][1:]), "Nonce")
        if "code" not in done and b and b["main"]["code"] == "NotFound":
            done["code"] = (i, dict(e, built=[dict(b, main=dict(b["main"], code="Error"))] + e["built"][1:]), "ResponseCode")
        if "fee" not in done and b:
            done["fee"] = (i, dict(e, built=[dict(b, main=dict(b["main"], sys=b["main"]["sys"] + 1))] + e["built"][1:]), "FeeSum")
        if "agree" not in done and b and any(x.get("built") and x["built"][0]["req"] == b["req"] and x["built"][0]["ans"] == b["ans"] and x["built"][0]["h"] == b["h"]
                                               for x in ev[starts[i]:i]):
            done["agree"] = (i, dict(e, built=[dict(b, main=dict(b["main"], hash="0000000000000000"))] + e["built"][1:]), "Agreement")
        sr = (e.get("sent") or [None])[0]
        if "wit" not in done and sr and len(sr["wit"]) >= 2 and sr["ok"]:
            done["wit"] = (i, dict(e, sent=[dict(sr, wit=[sr["wit"][0]] * len(sr["wit"]))] + e["sent"][1:]), "SentQuorum")
        if "refused" not in done and sr and sr["ok"]:
            done["refused"] = (i, dict(e, sent=[dict(sr, ok=False)] + e["sent"][1:]), "SentAccepted")
        if "silent" not in done and e.get("st") and any(x["sent"] for x in e["st"]) and sr:
            done["silent"] = (i, dict(e, st=[dict(x, sent=False) for x in e["st"]]), "SendsWhenQuorum")
    need = ("digest", "stored", "twice", "vub", "nonce", "fee", "agree", "wit", "refused", "silent")
    missing = [n for n in need if n not in done]
    if missing and (strict or "digest" not in done):
        raise vlib.Inconclusive("oracle service self-test could not find places to corrupt the trace (%s)" % missing)
    segs, expect_at = [], {}
    for name, (i, bad, expect) in done.items():
        segs += ev[starts[i]:i] + [bad]
        expect_at[len(segs)] = (name, expect)
    path = os.path.join(ctx.work, "selftest-oraclesvc.ndjson")
    vlib.write_ndjson(path, segs)
    st, tr = ctx.states, ctx.transitions
    fails = ctx.trace_judge(SUB, "OracleSvcTrace.tla", "Trace_OracleSvc.cfg", path, timeout=600)
    ctx.states, ctx.transitions = st, tr
    for line, (name, expect) in expect_at.items():
        if not any(f["line"] == line and any(w.partition("#")[0] == expect for w in f["what"]) for f in fails):
            raise vlib.Inconclusive("oracle service binding self-test %s: corrupted trace was not rejected (%s expected)" % (name, expect))
        ctx.extra["oraclesvc_binding_selftests"] = ctx.extra.get("oraclesvc_binding_selftests", 0) + 1
