"""Extension of the C18 check: KEYS AND SIGNATURES - "Signing then verifying succeeds for every key and message and fails for
any other key, message or altered signature, and deterministic signatures are reproducible; public keys, private keys (WIF,
and NEP-2 only with the right passphrase), addresses, script hashes ... all decode back to exactly what was encoded":
pkg/crypto/keys (private_key.go, publickey.go with its LRU cache of decoded keys, wif.go, nep2.go), pkg/encoding/address.
Called from c18.py:

    ext = _load_ext('c18_keys'); ext.run_ext(ctx)

The primitives (ECDSA over P-256 / secp256k1, scrypt, AES, SHA-256, RIPEMD-160, Base58, Unicode NFC) are NOT specified: they
are uninterpreted constructors.  Model: spec/keys
  KeyAlgebra      the abstract data type: sorts, operations, the specified outcome Out(t) of every term (class + normal form)
                  and the LAWS (sign/verify, Dec(Enc(x)) = x for every pair, NEP-2 opens exactly for the NFC class of its
                  passphrase and never gives a wrong key, mangled inputs refused or decoding to something else, address /
                  script hash / verification script agree); ten named deviations of the oracle the laws refute
  KeyAlgebraEnum  every well-sorted term with at most MaxOps operation symbols, one state each, checked against the laws and
                  printed for the driver
  KeyCache        decoding a public key is a PURE FUNCTION of (bytes, curve): the abstract decoder has no memory
  KeyCacheImpl    keys.NewPublicKeyFromBytes with its LRU cache as written (key = whole byte string, any curve cached, curve
                  compared on a hit, Get refreshes, Add evicts); deviations NoCurveCheck, R1Only, KeyByX, StaleEvict
  KeyCacheSim     generator of call histories (curves, encodings, parities, repeats, more keys than the capacity)
  KeysTrace       judges recorded random call sequences with the term-equality closure the laws induce
Real code: harness/c18keys (terms evaluated under several instantiations; every TLC history in ONE FRESH PROCESS compared with
the pure answer computed without the cache and without pkg/crypto/keys; random sequences, exhaustive single-change sweeps)."""
import json
import os
import random
from concurrent.futures import ThreadPoolExecutor

import vlib

PART = "keys"
SPEC = "keys"
RULE_EXT = ("keys: cases = (a) one per (enumerated term of the key algebra, instantiation of its symbols with concrete keys / "
            "messages / passphrases) evaluated with the real functions and compared with the outcome class and normal form TLC "
            "printed; (b) one per call of a TLC-generated call history of the cached public key decoder, every history "
            "replayed in one fresh process and every answer compared with the pure answer; (c) one per call of the seeded "
            "random sequences and one per exhaustive single-change sweep, judged by KeysTrace.tla")
RULE = RULE_EXT

DEVS_ALGEBRA = {"VerifyIgnoresCurve": "VerifySound", "VerifyIgnoresMsg": "VerifySound", "VerifyIgnoresLastBit": "VerifySound",
                "DecPubIgnoresCurve": "DecPubCurve", "WIFAnyVersion": "WifRoundTrip", "WIFIgnoresFlag": "Malformed",
                "NEP2RawPass": "Nep2RoundTrip", "NEP2DecRaw": "Nep2RoundTrip", "NEP2WrongPassGivesKey": "Nep2RoundTrip",
                "ScriptFromUncompressed": "AddressLaw"}
DEVS_CACHE = ("NoCurveCheck", "KeyByX", "StaleEvict", "R1OnlyNoCheck")

KIND_OF_OP = {"Verify": "sign-verify", "Sign": "sign-verify", "PubOf": "sign-verify", "DecPub": "pubkey-roundtrip",
              "EncPub": "pubkey-roundtrip", "DecPriv": "privkey-roundtrip", "EncPriv": "privkey-roundtrip", "WIFDec": "wif",
              "WIFEnc": "wif", "NEP2Dec": "nep2", "NEP2Enc": "nep2", "addr": "address", "AddrToSH": "address"}


def cases_of(out, marker):
    res = []
    for line in out.splitlines():
        i = line.find(marker)
        if i < 0:
            continue
        js = vlib.extract_tla_string(line[i + len(marker):])
        if js is None:
            continue
        try:
            res.append(json.loads(js))
        except Exception:
            pass
    return res


def tlc_parallel(ctx, jobs, width=6):
    d = ctx.spec_scratch(SPEC)
    with ThreadPoolExecutor(max_workers=width) as ex:
        futs = {j["name"]: ex.submit(ctx.tlc, d, j["module"], j["cfg"], j["timeout"], workers=j.get("workers", 2),
                                     extra=j.get("extra", ()), tag=j["name"], jvm=["-Xmx%dg" % j.get("heap_g", 2)])
                for j in jobs}
        rs = {k: f.result() for k, f in futs.items()}
    for j in jobs:      # a JVM that died without a TLC verdict (shared machine) is run once more, alone
        r = rs[j["name"]]
        if not r["timed_out"] and r["error"] and r["error"].startswith("rc="):
            vlib.log("keys: TLC job %s ended with %s and no verdict, running it again" % (j["name"], r["error"]))
            rs[j["name"]] = ctx.tlc(d, j["module"], j["cfg"], j["timeout"], workers=j.get("workers", 2), extra=j.get("extra", ()),
                                    tag=j["name"] + "-again", jvm=["-Xmx%dg" % j.get("heap_g", 2)])
    return rs


def must_pass(ctx, r, what):
    if r["timed_out"]:
        raise vlib.Inconclusive("keys: TLC timed out on %s" % what)
    if r["error"]:
        raise vlib.ModelError("keys: TLC reported an error on %s: %s" % (what, r["error"]), r)
    ctx.states += r.get("states", 0)
    ctx.transitions += r.get("transitions", 0)
    vlib.log("keys %s: %s distinct states, %s generated, %.1fs" % (what, r.get("states"), r.get("transitions"), r["wall_s"]))


def must_fail(ctx, r, name, invariants):
    if r["timed_out"]:
        raise vlib.Inconclusive("keys: TLC timed out on deviation %s" % name)
    if not r["error"] or not any(("%s is violated" % i) in r["out"] or ("property %s" % i) in r["out"] for i in invariants):
        raise vlib.Inconclusive("keys: named deviation %s not refuted by %s (vacuous model): %s" % (name, invariants, r["error"]))
    ctx.extra["keys_model_selftests"] = ctx.extra.get("keys_model_selftests", 0) + 1


def run_ext(ctx):
    q = ctx.quick()
    rnd = random.Random(ctx.seed)
    ind = os.path.join(ctx.work, "in-c18keys")
    os.makedirs(ind, exist_ok=True)

    # ------------------------------------------------------------------ 1. models
    jobs = [
        dict(name="enum", module="KeyAlgebraMC.tla", cfg="Enum_q.cfg" if q else "Enum_t.cfg", timeout=900 if q else 2400, workers=6, heap_g=4),
        dict(name="cache", module="KeyCacheMC.tla", cfg="MC_Cache_q.cfg" if q else "MC_Cache_t.cfg", timeout=900 if q else 2400, workers=4),
        dict(name="sim", module="KeyCacheSim.tla", cfg="Sim_Cache.cfg", timeout=600 if q else 1800, workers=1,
             extra=["-simulate", "num=%d" % (110 if q else 1200), "-depth", "40", "-seed", str(ctx.seed)]),
    ]
    jobs += [dict(name="dev-" + d, module="KeyAlgebraMC.tla", cfg="MC_Dev_%s.cfg" % d, timeout=600, workers=2) for d in DEVS_ALGEBRA]
    jobs += [dict(name="cdev-" + d, module="KeyCacheMC.tla", cfg="MC_Cache_dev_%s.cfg" % d, timeout=600, workers=2) for d in DEVS_CACHE]
    rs = tlc_parallel(ctx, jobs)
    must_pass(ctx, rs["enum"], "KeyAlgebraEnum (the laws on every enumerated term)")
    must_pass(ctx, rs["cache"], "KeyCacheImpl (AnswerIsPure, CacheSound, Refines KeyCache)")
    if rs["sim"]["error"] and "@@HIST@@" not in rs["sim"]["out"]:
        raise vlib.Inconclusive("keys: simulation failed: %s" % rs["sim"]["error"])
    for d, inv in DEVS_ALGEBRA.items():
        must_fail(ctx, rs["dev-" + d], d, (inv,))
    for d in DEVS_CACHE:
        must_fail(ctx, rs["cdev-" + d], d, ("AnswerIsPure", "CacheSound", "Refines"))

    cases = cases_of(rs["enum"]["out"], "@@CASE@@")
    hists, seen = [], set()
    for h in cases_of(rs["sim"]["out"], "@@HIST@@"):
        k = json.dumps(h, sort_keys=True)
        if k not in seen:
            seen.add(k)
            hists.append(h)
    by_sort = {}
    for c in cases:
        by_sort[c["sort"]] = by_sort.get(c["sort"], 0) + 1
    if len(cases) < (15000 if q else 24000) or by_sort.get("Bool", 0) < 1500 or by_sort.get("Priv", 0) < 3000:
        raise vlib.Inconclusive("keys: the enumeration printed too few cases: %s" % by_sort)
    if len(hists) < (80 if q else 900):
        raise vlib.Inconclusive("keys: too few call histories generated (%d)" % len(hists))
    # the histories must contain what a cache is about
    feats = set()
    for h in hists:
        for i, c in enumerate(h):
            prev = [p for p in h[:i] if p["b"] == c["b"]]
            if prev:
                feats.add("again-same-curve" if prev[-1]["c"] == c["c"] else "again-other-curve")
                if c["ok"] and c["obj"] == i + 1 and c["objinf"] != i + 1:
                    feats.add("again-after-eviction")
                if c["ok"] and c["obj"] != i + 1:
                    feats.add("hit")
    if feats != {"again-same-curve", "again-other-curve", "again-after-eviction", "hit"}:
        raise vlib.Inconclusive("keys: the generated histories lack a situation: %s" % sorted(feats))
    rnd.shuffle(cases)
    json.dump(cases, open(os.path.join(ind, "cases.json"), "w"))
    json.dump(hists, open(os.path.join(ind, "histories.json"), "w"))
    ctx.extra["keys_cases_enumerated"] = by_sort
    ctx.extra["keys_histories"] = len(hists)

    # ------------------------------------------------------------------ 2. the real code
    res = ctx.go_driver("c18keys", "TestDriver", timeout=3000, env={
        "VERIF_IN": ind, "VERIF_RANDOM_SEQS": 6 if q else 40, "VERIF_RANDOM_STEPS": 120 if q else 250})
    stats = res.pop("stats", None) or {}
    for k, v in stats.items():
        ctx.extra["keys_" + k] = v
    ctx.absorb(res)
    ctx.traces_validated += res.get("traces", 0)

    # ------------------------------------------------------------------ 3. TLC judges the recorded sequences
    trace = os.path.join(res["_out"], "trace.ndjson")
    events = vlib.read_ndjson(trace)
    fails = judge_chunks(ctx, events)
    nviol = report(ctx, events, fails)
    ctx.extra["keys_trace_events"] = len(events)

    # ------------------------------------------------------------------ 4. binding self-tests
    try:
        selftest(ctx, events, fails, cases, hists)
    except vlib.Inconclusive as e:
        if not ctx.violations:
            raise
        vlib.log("keys: binding self-test not completed on a tree that violates the property (%s)" % e)

    ctx.assumptions += [
        "keys: ECDSA, scrypt, AES, SHA-256, RIPEMD-160, Base58 and Unicode NFC are uninterpreted: injective constructors of a "
        "free term algebra (a collision would be a break of the primitive, not of neo-go); reference values (points from the "
        "curve equations with math/big, Hash160, Base58Check, NFC classes, the standard's NEP-2 construction) are computed by the "
        "driver without pkg/crypto/keys, pkg/crypto/hash, pkg/encoding/address, pkg/encoding/base58",
        "keys: the high-S twin (r, n-s) of a signature is accepted by neo-go on both curves, as by the reference implementation "
        "(plain ECDSA verification, no low-S rule in the protocol); the statement's 'altered signature' is not read as covering it: "
        "its acceptance is recorded (open_high-s-twin) and a change of it is drift, not a violation",
        "keys: private keys are P-256 objects in every decoder of the package; signing on secp256k1 uses the exported struct filled "
        "in by the driver with the point computed by the secp256k1 library",
        "keys: the enumerated NEP-2 terms use cheap scrypt parameters except in the instantiations named nep2-standard-*, which "
        "evaluate the NEP-2 terms of at most 3 operations with n=16384, r=8, p=8",
    ]
    return nviol


def judge_chunks(ctx, events):
    """One TLC run per group of sequences (each starts with an init event)."""
    fails = []
    starts = [i for i, e in enumerate(events) if e["event"] == "init"] + [len(events)]
    if not starts or starts[0] != 0:
        starts = [0] + starts
    lo = 0
    while lo < len(events):
        hi = lo
        for s in starts:
            if s > lo and s - lo <= 4000:
                hi = s
        if hi == lo:
            hi = next(s for s in starts if s > lo)
        p = os.path.join(ctx.work, "keys-trace-part.ndjson")
        vlib.write_ndjson(p, events[lo:hi])
        for f in ctx.trace_judge(SPEC, "KeysTrace.tla", "Trace_Keys.cfg", p, timeout=3000):
            f["line"] += lo
            fails.append(f)
        ctx.traces_validated += 1
        lo = hi
    return fails


def signature_of(ev, name, fctx):
    op = fctx.get("op") or ev.get("op") or ev["event"]
    how = fctx.get("how") or ""
    cls = name + ("/" + how if how else "")
    if name == "NoPanic":
        return "panic", op + ("/" + how if how else "")
    if name == "MalformedAccepted":
        return "malformed-accepted", op + "/" + how
    if name == "Deterministic":
        return ("determinism" if op == "Sign" else KIND_OF_OP.get(op, "address")), op + "/same-call-different-answer"
    return KIND_OF_OP.get(op, "address"), op + "/" + cls


def report(ctx, events, fails):
    n = 0
    for f in fails:
        ev = events[f["line"] - 1]
        for w in sorted(f["what"]):
            if w.startswith("drift:"):
                key = "keys_drift_" + w[6:]
                ctx.extra[key] = ctx.extra.get(key, 0) + 1
                if ctx.extra[key] == 1 and len(ctx.spec_drift) < 20:
                    ctx.spec_drift.append({"part": PART, "kind": w[6:], "event": ev})
                continue
            n += 1
            kind, cls = signature_of(ev, w, f["ctx"])
            ctx.violation({"part": PART, "kind": kind, "class": cls},
                          {"what": "law %s of spec/keys (KeysTrace) is broken by an answer of the real code" % w, "event": ev,
                           "line": f["line"], "context": f["ctx"]})
    return n


def selftest(ctx, events, fails, cases, hists):
    """Corrupt recorded observations / expected outputs and require rejection."""
    bad = set(f["line"] - 1 for f in fails if any(not w.startswith("drift:") for w in f["what"]))
    starts = [i for i, e in enumerate(events) if e["event"] == "init"]
    # the first sequence without a failure
    seq = None
    for a, b in zip(starts, starts[1:] + [len(events)]):
        if not any(a <= i < b for i in bad):
            seq = json.loads(json.dumps(events[a:b]))
            break
    if seq is None:
        raise vlib.Inconclusive("keys self-test: no clean recorded sequence to corrupt")

    def find(pred):
        for i, e in enumerate(seq):
            if pred(e):
                return i
        raise vlib.Inconclusive("keys self-test: the recorded sequence lacks an event to corrupt")

    muts = []       # (index, mutate, expected name)

    def own(e):
        return e["event"] == "call" and e["op"] == "Verify" and e["res"] == "true"
    muts.append((find(own), lambda e: e.update(res="false"), "OwnSignatureRefused"))
    alt_ids = set(e["res"] for e in seq if e["event"] == "alter" and e.get("hard"))

    def altered(e):
        return e["event"] == "call" and e["op"] == "Verify" and e["args"][2] in alt_ids and e["res"] == "false"
    muts.append((find(altered), lambda e: e.update(res="true"), "AlteredSignatureAccepted"))
    signs = [i for i, e in enumerate(seq) if e["event"] == "call" and e["op"] == "Sign" and e.get("where")]
    if not signs:
        raise vlib.Inconclusive("keys self-test: no signature made in another process was recorded")
    muts.append((signs[0], lambda e: e.update(res=e["res"][:-2] + ("00" if e["res"][-2:] != "00" else "01")), "Deterministic"))
    encs = {}
    for e in seq:
        if e["event"] == "call" and e["op"] == "NEP2Enc" and e["ok"]:
            encs[e["res"]] = e["args"][1]
    norm = {e["id"]: e["norm"] for e in seq if e["event"] == "sym"}

    def right(e):
        return (e["event"] == "call" and e["op"] == "NEP2Dec" and e["ok"] and e["args"][0] in encs
                and e["args"][1] != encs[e["args"][0]] and norm.get(e["args"][1]) == norm.get(encs[e["args"][0]]))
    muts.append((find(right), lambda e: e.update(ok=False, res=""), "Nep2RightPassphraseRefused"))

    def wrong(e):
        return (e["event"] == "call" and e["op"] == "NEP2Dec" and not e["ok"] and e["args"][0] in encs
                and norm.get(e["args"][1]) != norm.get(encs[e["args"][0]]))
    i = find(wrong)
    some_priv = next(e["res"] for e in seq if e["event"] == "call" and e["op"] == "DecPriv" and e["ok"])
    muts.append((i, lambda e: e.update(ok=True, res=some_priv), "Nep2WrongPassphraseAccepted"))
    muts.append((find(lambda e: e["event"] == "addr"), lambda e: e.update(sh=e["sh"][:-1] + ("0" if e["sh"][-1] != "0" else "1")),
                 "ScriptHashIsHash160OfScript"))
    want = []
    out = []
    for n, (i, mut, name) in enumerate(muts):
        s = json.loads(json.dumps(seq))
        mut(s[i])
        want.append((len(out) + i + 1, name))
        out += s
    out.append({"event": "sweep", "op": "WIFDec", "src": "x", "tried": 10, "same": 1, "panics": 0})
    want.append((len(out), "AlteredAnswersLikeOriginal"))
    path = os.path.join(ctx.work, "keys-selftest.ndjson")
    vlib.write_ndjson(path, out)
    st, tr = ctx.states, ctx.transitions
    got = ctx.trace_judge(SPEC, "KeysTrace.tla", "Trace_Keys.cfg", path, timeout=900)
    ctx.states, ctx.transitions = st, tr
    by_line = {f["line"]: set(f["what"]) for f in got}
    for line, name in want:
        if name not in by_line.get(line, set()):
            raise vlib.Inconclusive("keys binding self-test: corrupted event at line %d not rejected with %s (got %s)" % (
                line, name, sorted(by_line.get(line, []))))
    ctx.extra["keys_binding_selftests"] = len(want)

    # expected outputs (spec -> code): corrupted specified outcomes / pure answers must make the driver report violations
    ind = os.path.join(ctx.work, "in-c18keys-selftest")
    os.makedirs(ind, exist_ok=True)

    def pick(pred):
        return json.loads(json.dumps(next(c for c in cases if pred(c))))
    c1 = pick(lambda c: c["sort"] == "Bool" and c["cls"] == "true" and len(json.dumps(c["t"])) < 120)
    c1["cls"] = "false"
    c2 = pick(lambda c: c["t"][0] == "NEP2Dec" and c["t"][1][0] == "NEP2Enc" and c["cls"] == "refused" and c["t"][1][1][0] == "key")
    c2["cls"] = "val"
    c3 = pick(lambda c: c["t"][0] == "WIFDec" and c["t"][1][0] == "MangleWif" and c["t"][1][2] == "badflag" and c["t"][1][1][1][0] == "key")
    c3["cls"] = "val"
    h = json.loads(json.dumps(next(h for h in hists if sum(1 for c in h if c["ok"]) >= 2)))
    k = next(i for i, c in enumerate(h) if c["ok"])
    h[k]["ok"] = False      # the specification and the reference decoder now disagree: the driver must stop (exit 2), not pass
    json.dump([c1, c2, c3], open(os.path.join(ind, "cases.json"), "w"))
    json.dump([], open(os.path.join(ind, "histories.json"), "w"))
    r = ctx.go_driver("c18keys", "TestDriver", timeout=900, env={"VERIF_IN": ind, "VERIF_RANDOM_SEQS": 0, "VERIF_MAX_INST": 1})
    kinds = set(x["signature"].get("kind") for x in r.get("violations") or [])
    if not {"sign-verify", "nep2", "wif"} <= kinds:
        raise vlib.Inconclusive("keys binding self-test: corrupted expected outcomes were not reported by the driver (%s)" % sorted(kinds))
    json.dump([], open(os.path.join(ind, "cases.json"), "w"))
    json.dump([h], open(os.path.join(ind, "histories.json"), "w"))
    try:
        ctx.go_driver("c18keys", "TestDriver", timeout=900, env={"VERIF_IN": ind, "VERIF_RANDOM_SEQS": 0, "VERIF_MAX_INST": 1})
    except vlib.Inconclusive:
        ctx.extra["keys_binding_selftests"] += 4
        return
    raise vlib.Inconclusive("keys binding self-test: a history whose specified answer was corrupted went through")
