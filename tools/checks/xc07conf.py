"""Standalone runner of the C07 conflict-record extension while it is developed (temporary id, not a registered check)."""
RULE = "extension"


def run(ctx):
    import importlib.util
    import os
    p = os.path.join(os.path.dirname(os.path.abspath(__file__)), "c07_conflicts.py")
    spec = importlib.util.spec_from_file_location("c07_conflicts", p)
    mod = importlib.util.module_from_spec(spec)
    spec.loader.exec_module(mod)
    global RULE
    RULE = mod.RULE_EXT
    mod.run_ext(ctx)
