"""C03 - the state root of every height commits exactly to contract storage.
Rides on the C01 worlds (same replicas, histories and schedules) with VERIF_C03=1; judge: StateTrace.tla."""
import json
import os
import random

import vlib

RULE = ("cases = reads through a state root (full trie content, point reads, bounded finds, proofs incl. forged/tampered ones, "
        "historic read-only invocations) made by real replicas at heights retained by their configuration, each recomputed by "
        "TLC (StateTrace) from the reference node's flat storage dump / live script results of that height; distinct = distinct "
        "(world, position, op, replica) steps of the schedules")


def run(ctx):
    q = ctx.quick()
    ctx.tlc_mc("node", "MCNode.tla", "MC_Node.cfg", timeout=900)
    scheds = []
    seen = set()
    for h in ctx.tlc_sim("node", "NodeSim.tla", "Sim_Node_c03.cfg" if q else "Sim_Node_c03_t.cfg", num=4 if q else 60, depth=160 if q else 400, timeout=900):
        k = json.dumps(h)
        if k not in seen:
            seen.add(k)
            scheds.append(h)
    random.Random(ctx.seed).shuffle(scheds)
    scheds = scheds[: (4 if q else 60)]
    ind = os.path.join(ctx.work, "in-c03")
    os.makedirs(ind, exist_ok=True)
    json.dump(scheds, open(os.path.join(ind, "schedules.json"), "w"))
    res = ctx.go_driver("c01node", "TestDriver", env={"VERIF_IN": ind, "VERIF_C03": "1"}, timeout=3000)
    ctx.absorb(res)
    trace = os.path.join(res["_out"], "trace.ndjson")
    events = vlib.read_ndjson(trace)
    kinds = {}
    for e in events:
        kinds[e["event"]] = kinds.get(e["event"], 0) + 1
    ctx.extra["event_kinds"] = kinds
    fails = ctx.trace_judge_parts("node", "StateTrace.tla", "Trace_State.cfg", events, max_events=6000, timeout=3000, workers=4)
    ctx.traces_validated += res.get("traces", 0)
    for f in fails:
        ev = events[f["line"] - 1]
        for w in sorted(f["what"]):
            sig = {"kind": w, "cfg": ev.get("r"), "event": ev.get("event")}
            small = {k: v for k, v in ev.items() if k not in ("items", "flat", "results")}
            ctx.violation(sig, {"what": "%s false for %s read of replica %s: root height %s, node height %s" % (
                w, ev.get("event"), ev.get("r"), ev.get("h"), ev.get("at")), "event": small, "ctx": f.get("ctx"), "line": f["line"]})
    archival_module(ctx)
    # extension: the same properties through the RPC server's handlers (spec/rpcstate, harness/c03rpc)
    ep = os.path.join(os.path.dirname(os.path.abspath(__file__)), "c03_rpc.py")
    if os.path.exists(ep):
        import importlib.util
        sp = importlib.util.spec_from_file_location("check_c03_rpc", ep)
        m = importlib.util.module_from_spec(sp)
        sp.loader.exec_module(m)
        m.run_ext(ctx)
    # extension: state root validation above the local roots (spec/statesvc, harness/c03statesvc)
    ep = os.path.join(os.path.dirname(os.path.abspath(__file__)), "c03_stateservice.py")
    if os.path.exists(ep):
        import importlib.util
        sp = importlib.util.spec_from_file_location("check_c03_stateservice", ep)
        m = importlib.util.module_from_spec(sp)
        sp.loader.exec_module(m)
        m.run_ext(ctx)
    if not fails:
        selftest(ctx, events)
    ctx.assumptions.append("retention per configuration: default keeps every height, RemoveUntraceableBlocks keeps heights within MaxTraceableBlocks of the tip, KeepOnlyLatestState only the current one; only retained heights are judged")
    ctx.assumptions.append("bounded find is judged under its documented semantics (suffix strictly after start; no start => key equal to prefix included)")


def archival_module(ctx):
    """stateroot.Module driven the way storeBlock drives it, in the archival (default) trie mode, with blocks that are
    computed and then dropped (a block rejected after its MPT batch was built): every stored root must give back exactly
    the content committed at its height (MPTRefTrace, read predicates; spec/mptref, harness/c11ref archival histories)."""
    q = ctx.quick()
    res = ctx.go_driver("c11ref", "TestDriver", env={"VERIF_RANDOM": 0, "VERIF_TRIE": 0, "VERIF_CHAINS": 0,
                                                     "VERIF_ARCHIVAL": 150 if q else 3000}, timeout=1500)
    res2 = dict(res)
    res2["violations"] = [v for v in res.get("violations") or []]
    ctx.absorb(res2)
    trace = os.path.join(res["_out"], "trace.ndjson")
    events = vlib.read_ndjson(trace)
    fails = ctx.trace_judge("mptref", "MPTRefTrace.tla", "Trace_MPTRef.cfg", trace, timeout=1500)
    ctx.traces_validated += res.get("traces", 0)
    ctx.extra["archival_module_events"] = len(events)
    seen = set()
    for f in fails:
        li = f["line"] - 1
        s = li
        while s > 0 and events[s]["event"] != "init":
            s -= 1
        if s in seen:
            continue
        seen.add(s)
        ev = events[li]
        for w in sorted(f["what"]):
            ctx.violation({"kind": w, "part": "module-archival", "op": ev["event"], "history": ev.get("class", "committed-only")},
                          {"what": "%s false: a root stored by stateroot.Module (archival mode) does not give back the content committed at its height" % w,
                           "src": events[s].get("src"), "events": [{k: v for k, v in e.items() if k not in ("put", "del")} for e in events[s:li + 1]][-6:]})


def selftest(ctx, events):
    ev, kinds = [], set()
    for e in events:
        e = dict(e)
        if e["event"] == "trie" and "trie" not in kinds and len(e["items"]) > 3:
            e["items"] = e["items"][:-1]
            kinds.add("trie")
        elif e["event"] == "get" and e.get("found") and "get" not in kinds:
            e["v"] = e["v"] + "00"
            kinds.add("get")
        elif e["event"] == "historic" and "historic" not in kinds and e["results"]:
            e["results"] = ["HALT|corrupted"] + e["results"][1:]
            kinds.add("historic")
        ev.append(e)
        if len(kinds) == 3:
            break
    if len(kinds) < 3:
        raise vlib.Inconclusive("self-test: could not corrupt all of trie/get/historic (%s)" % kinds)
    path = os.path.join(ctx.work, "selftest.ndjson")
    vlib.write_ndjson(path, ev)
    st, tr = ctx.states, ctx.transitions
    fails = ctx.trace_judge("node", "StateTrace.tla", "Trace_State.cfg", path, timeout=600)
    ctx.states, ctx.transitions = st, tr
    got = set(w for f in fails for w in f["what"])
    if not {"RootCommits", "GetMatches", "HistoricEqualsLive"} <= got:
        raise vlib.Inconclusive("binding self-test: corrupted observations not rejected (%s)" % got)
    ctx.extra["binding_selftests"] = 3
