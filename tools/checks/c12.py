"""C12 - the VM is total, bounded and memory-safe on every script.
Specs: spec/vmref (VMLimits abstract judge, VMRef code-shaped model of the item accounting, VMRefSim generator,
VMTrace validator).  Real code: pkg/vm driven by harness/c12vm."""
import json
import os
import random
import re

import vlib

RULE = ("cases = observations of the real NeoVM, one before every executed instruction and one after Run returned, in "
        "runs of (a) VMRef behaviours (TLC simulation, TLC counterexamples) realised as scripts with round-robin "
        "instruction encodings, (b) seeded random byte strings / opcode streams / mutants / well-typed deep programs, "
        "(c) scripts walking up to each limit and scripts raising out-of-range / missing-key exceptions in SETITEM and PICKITEM "
        "under every kind of handler, (d) near misses of the static check; every script under a generous and "
        "under a tight finite gas limit; distinct = distinct (source class, previous opcode, opcode, counter surplus, "
        "cyclic, invocation depth, try depth) tuples; every observation is non-trivial in that all 12 clauses of "
        "VMLimits are evaluated on it by TLC")

# TLC workers / go build parallelism: modest, the machine is shared with the other checks
WORKERS = int(os.environ.get("VERIF_TLC_WORKERS", "4"))
MC_QUICK = ["MC_Q1.cfg", "MC_Q2.cfg", "MC_Q3.cfg"]
MC_THOROUGH = ["MC_T1.cfg", "MC_T2.cfg", "MC_T3.cfg", "MC_T4.cfg", "MC_T5.cfg"]


def cfg_variant(ctx, cfg, name, repl):
    """Write a variant of a .cfg (one constant changed) into the spec scratch directory."""
    d = ctx.spec_scratch("vmref")
    s = open(os.path.join(d, cfg)).read()
    for a, b in repl:
        if a.startswith("MapRemoveDropsFirst"):      # set the code-shape switch whatever its current value
            s, n = re.subn(r"MapRemoveDropsFirst = (TRUE|FALSE)", b, s)
            if n != 1:
                raise vlib.Inconclusive("cfg %s has no MapRemoveDropsFirst line" % cfg)
            continue
        if a not in s:
            raise vlib.Inconclusive("cfg %s has no line %r" % (cfg, a))
        s = s.replace(a, b)
    with open(os.path.join(d, name), "w") as f:
        f.write(s)
    return name


TLASTR = re.compile(r'"((?:[^"\\]|\\.)*)"')


def unesc(x):
    return x.replace('\\"', '"').replace("\\\\", "\\")


def parse_graph(out):
    """Lines printed by VMRefCover -> (init key, edges[(src, rec, dst)])."""
    init, edges = None, []
    for line in out.splitlines():
        if "@@EDGE@@" in line:
            m = TLASTR.findall(line)
            if len(m) == 4:
                edges.append((m[1], json.loads(unesc(m[2])), m[3]))
        elif "@@INIT@@" in line:
            m = TLASTR.findall(line)
            if len(m) == 2:
                init = m[1]
    return init, edges


def transition_cover(init, edges, rnd, maxlen=80, fault_sample=1):
    """(fault_sample = k: only every k-th transition into the terminal FAULT state has to be covered; each of
    them costs a walk of its own and nothing is judged after a FAULT)"""
    return _transition_cover(init, edges, rnd, maxlen, fault_sample)


def _transition_cover(init, edges, rnd, maxlen, fault_sample):
    """Walks from the initial state that together traverse every transition at least once: deepest states
    first (their tree paths cover the tree edges on the way), then greedy extension through transitions not
    yet covered, with one step of look-ahead through covered ones."""
    ids = {}

    def nid(k):
        if k not in ids:
            ids[k] = len(ids)
        return ids[k]
    s0 = nid(init)
    out = {}
    E = []
    for a, rec, b in edges:
        E.append((nid(a), rec, nid(b)))
        out.setdefault(E[-1][0], []).append(len(E) - 1)
    for l in out.values():
        rnd.shuffle(l)
    parent = {s0: None}          # breadth-first tree: state -> edge index
    order = [s0]
    i = 0
    while i < len(order):
        s = order[i]
        i += 1
        for ei in out.get(s, []):
            t = E[ei][2]
            if t not in parent:
                parent[t] = ei
                order.append(t)
    covered = [False] * len(E)
    nf = 0
    for i, (_, rec, _) in enumerate(E):
        if rec.get("b") == -1 and rec["op"] in ("setitem_oor", "pickitem_oor", "pickmap_missing"):
            nf += 1
            if nf % fault_sample:
                covered[i] = True
    todo = {s: list(l) for s, l in out.items()}

    def pending(s):
        l = todo.get(s)
        while l and covered[l[-1]]:
            l.pop()
        return bool(l)
    def nearest(s, depth=5):
        """Shortest path (<= depth transitions) from s to a state that still has uncovered transitions."""
        seen = {s: None}
        frontier = [s]
        for _ in range(depth):
            nxt = []
            for x in frontier:
                for e in out.get(x, []):
                    t = E[e][2]
                    if t in seen:
                        continue
                    seen[t] = e
                    if pending(t):
                        p = []
                        while seen[t] is not None:
                            p.append(seen[t])
                            t = E[seen[t]][0]
                        p.reverse()
                        return p
                    nxt.append(t)
            frontier = nxt
        return None

    ns = edges[0][1]["ns"] if edges else 0
    first = {"op": "init", "a": 0, "b": 0, "kd": "", "refs": ns, "walked": ns, "cyc": False, "ns": ns}
    walks = []
    for s in reversed(order):
        while pending(s):
            path = []
            x = s
            while parent[x] is not None:
                path.append(parent[x])
                x = E[parent[x]][0]
            path.reverse()
            cur, walk = s, []
            while len(walk) < maxlen:
                if pending(cur):
                    ei = todo[cur].pop()
                else:
                    hop = nearest(cur)
                    if hop is None or len(walk) + len(hop) > maxlen:
                        break
                    walk += hop
                    cur = E[hop[-1]][2]
                    continue
                walk.append(ei)
                cur = E[ei][2]
            for ei in path + walk:
                covered[ei] = True
            walks.append([first] + [E[ei][1] for ei in path + walk])
    if not all(covered):
        raise vlib.Inconclusive("transition cover is incomplete")
    return walks, len(ids)


def parse_cex(out):
    """TLC error trace of VMRef -> behaviour (list of action records with the model's predictions)."""
    hist = []
    for blk in re.split(r"\nState \d+: ", out)[1:]:
        blk = blk.split("\n\n")[0]
        m = re.search(r'last = \[([^\]]*)\]', blk)
        r = re.search(r"refs \|-> (-?\d+)", blk)
        w = re.search(r"walked = (-?\d+)", blk)
        c = re.search(r"everCyc = (TRUE|FALSE)", blk)
        st = re.search(r"statics = <<([^>]*)>>", blk)
        if not (m and r and w and c):
            continue
        f = dict(x.strip().split(" |-> ") for x in m.group(1).split(","))
        ns = len([x for x in st.group(1).split(",") if x.strip()]) if st else 0
        hist.append({"op": f["op"].strip('"'), "a": int(f["a"]), "b": int(f["b"]), "kd": f["kd"].strip('"'),
                     "refs": int(r.group(1)), "walked": int(w.group(1)), "cyc": c.group(1) == "TRUE", "ns": ns})
    return hist


def replay(ctx):
    """tools/vcheck C12 --replay replays/C12-...json : run the recorded script again and judge it."""
    r = json.load(open(ctx.replay))
    d = r.get("detail") or {}
    rp = d.get("replay") or {}
    script = d.get("script") or rp.get("script")
    if not script:
        raise vlib.Inconclusive("replay file has no script")
    if "gas_limit_limbs" in d:
        l = d["gas_limit_limbs"]
        limit = (l[0] << 60) + (l[1] << 30) + l[2]
    else:
        limit = rp.get("limit", 10 ** 11)
    base = d.get("price_base") or rp.get("base") or 300000
    ctx.tlc_mc("vmref", "MCVMLimits.tla", "MC_Limits.cfg", timeout=300, workers=2)
    res = ctx.go_driver("c12vm", "TestDriver", env={"VERIF_REPLAY_SCRIPT": script, "VERIF_REPLAY_LIMIT": limit,
                                                     "VERIF_REPLAY_BASE": base}, timeout=600)
    ctx.absorb(res)
    trace = os.path.join(res["_out"], "trace-000.ndjson")
    fails = ctx.trace_judge("vmref", "VMTrace.tla", "Trace_VM.cfg", trace, timeout=600)
    ctx.traces_validated += res.get("traces", 0)
    ctx.samples.append({"replayed": ctx.replay, "script": script[:200], "limit": limit, "failed_clauses": sorted({w for f in fails for w in f["what"]})})
    if fails:
        report(ctx, vlib.read_ndjson(trace), fails)


def run(ctx):
    if ctx.replay:
        return replay(ctx)
    q = ctx.quick()
    # 0. the abstract level alone, on a tiny universe (sanity: the clauses are satisfiable and exclude something)
    ctx.tlc_mc("vmref", "MCVMLimits.tla", "MC_Limits.cfg", timeout=300, workers=2)
    try:
        ctx.tlc_mc("vmref", "MCVMLimits.tla", "MC_LimitsAll.cfg", timeout=300, workers=2)
        raise vlib.Inconclusive("VMLimits accepts every observation of its universe (vacuous judge)")
    except vlib.ModelError:
        ctx.extra["model_selftests"] = ctx.extra.get("model_selftests", 0) + 1

    # 1. exhaustive: the code-shaped accounting model against the abstract counting clauses.  The same run prints
    #    every transition of the state graph; a transition cover of it is replayed on the real VM (stage 3).
    behaviours = []
    cex_found = 0
    cover_stats = {}
    rnd = random.Random(ctx.seed)

    def mc_cover(cfg, judged=True):
        """Exhaustive run of one configuration that also prints its state graph; returns the cover walks.
        judged=False: the graph only (no invariants), used for the code shape whose model violates AbsCount."""
        repl = [("PROPERTIES AbsStep", "PROPERTIES AbsStep EdgeEmit"), ("INVARIANTS TypeOK", "INVARIANTS InitEmit TypeOK")]
        if not judged:
            # states that break the abstract clauses are reached (and replayed) but not explored further
            repl = [("PROPERTIES AbsStep", "PROPERTIES EdgeEmit"),
                    ("INVARIANTS TypeOK WalkedOK AbsCount RcExact RcSane", "INVARIANTS InitEmit TypeOK WalkedOK"),
                    ("CONSTRAINT LeakBound", "CONSTRAINT LeakBound AbsCount")]
        name = cfg_variant(ctx, cfg, cfg.replace(".cfg", "_cov.cfg" if judged else "_graph.cfg"), repl)
        st, tr = ctx.states, ctx.transitions
        r = ctx.tlc_mc("vmref", "VMRefCover.tla", name, timeout=900 if q else 3000, workers=WORKERS)
        if not judged:      # nothing was verified in this run: it does not count as explored states
            ctx.states, ctx.transitions = st, tr
        init, edges = parse_graph(r["out"])
        if init is None or len(edges) + 1 != r["transitions"]:
            raise vlib.Inconclusive("could not read the state graph of %s (%d edges of %d)" % (cfg, len(edges), r["transitions"]))
        walks, nstates = transition_cover(init, edges, rnd, fault_sample=4 if q else 1)
        if nstates < r["states"]:      # (targets outside the state constraint are printed too)
            raise vlib.Inconclusive("state graph of %s: %d states read, TLC found %d" % (cfg, nstates, r["states"]))
        cover_stats[cfg] = {"states": nstates, "transitions": len(edges), "walks": len(walks),
                            "actions": sum(len(w) - 1 for w in walks), "code_shape_verified": judged}
        return [{"kind": "cov", "hist": w} for w in walks]

    covers = []
    cover_cfgs = MC_QUICK + ([] if q else ["MC_T5.cfg"])
    for cfg in (MC_QUICK if q else MC_QUICK + MC_THOROUGH):
        try:
            if cfg in cover_cfgs:
                covers.append(mc_cover(cfg))
            else:
                ctx.tlc_mc("vmref", "VMRef.tla", cfg, timeout=3000, workers=WORKERS)
        except vlib.ModelError as e:
            # A counterexample inside the model is not a verdict: it is realised on the real VM (stages 3/4 judge it).
            # The rest of the state space is verified for the other code shape of the implicated instruction, and
            # the transition cover is taken from the graph of the shape that was transcribed from the code.
            out = e.res["out"] if e.res else ""
            hist = parse_cex(out)
            if "is violated" not in out or len(hist) < 2 or hist[0]["op"] != "init":
                raise
            cex_found += 1
            behaviours.append({"kind": "cex", "hist": hist, "cfg": cfg})
            vlib.log("model counterexample in %s (%d actions, last: %s) -> replay on the real VM" % (
                cfg, len(hist) - 1, hist[-1]["op"]))
            cur = re.search(r"MapRemoveDropsFirst = (TRUE|FALSE)", open(os.path.join(ctx.spec_scratch("vmref"), cfg)).read()).group(1)
            other = "FALSE" if cur == "TRUE" else "TRUE"
            alt = cfg_variant(ctx, cfg, cfg.replace(".cfg", "_alt.cfg"), [("MapRemoveDropsFirst", "MapRemoveDropsFirst = " + other)])
            ctx.tlc_mc("vmref", "VMRef.tla", alt, timeout=900 if q else 3000, workers=WORKERS)
            if cfg in cover_cfgs:
                covers.append(mc_cover(cfg, judged=False))
    ctx.extra["transition_cover"] = cover_stats
    ctx.extra["model_counterexamples"] = cex_found
    # model-level non-vacuity: the named deviations must be caught by the same invariants
    for bug in ("BugAppend", "BugRemGuard", "BugOORDoubleRelease"):
        name = cfg_variant(ctx, "MC_Q1.cfg", "MC_Q1_%s.cfg" % bug,
                           [("%s = FALSE" % bug, "%s = TRUE" % bug), ("MapRemoveDropsFirst", "MapRemoveDropsFirst = TRUE")])
        try:
            ctx.tlc_mc("vmref", "VMRef.tla", name, timeout=600, workers=WORKERS)
            raise vlib.Inconclusive("deviation %s not detected by the model invariants (vacuous model)" % bug)
        except vlib.ModelError as e:
            if "is violated" not in (e.res["out"] if e.res else ""):
                raise
            ctx.extra["model_selftests"] = ctx.extra.get("model_selftests", 0) + 1

    # 2. random behaviours of the model over larger heaps than the exhaustive runs
    seen = set()
    sims = [("Sim_Deep.cfg", 60 if q else 1500, 30), ("Sim_Wide.cfg", 30 if q else 800, 45),
            ("Sim_Struct.cfg", 60 if q else 1500, 25)]
    for i, (cfg, num, depth) in enumerate(sims):
        for h in ctx.tlc_sim("vmref", "VMRefSim.tla", cfg, num=num, depth=depth, timeout=300 if q else 1500,
                             seed=ctx.seed * 10 + i):
            k = json.dumps(h, sort_keys=True)
            if k not in seen:
                seen.add(k)
                behaviours.append({"kind": "tlc", "hist": h})
    tl = [b for b in behaviours if b["kind"] == "tlc"]
    rnd.shuffle(tl)
    # quick tier: a seeded sample of the cover walks (the evidence says how many); thorough: all of them
    cov = [w for c in covers for w in c]
    rnd.shuffle(cov)
    budget = 800000 if q else 4 * 10 ** 6
    used, n = [], 0
    for w in cov:
        if n + len(w["hist"]) > budget:
            break
        used.append(w)
        n += len(w["hist"])
    ctx.extra["cover_walks_replayed"] = len(used)
    ctx.extra["cover_walks_total"] = len(cov)
    behaviours = [b for b in behaviours if b["kind"] == "cex"] + used + tl[: (800 if q else 30000)]
    ind = os.path.join(ctx.work, "in-c12")
    os.makedirs(ind)
    json.dump(behaviours, open(os.path.join(ind, "behaviours.json"), "w"))

    ctx.assumptions += [
        "the VM is driven as vm.New() + LoadWithFlags(script) + SetGasLimit(finite) + Run(), prices = fee.Opcode(base, op) with "
        "base in {300000, 299999, 123457} picoGAS per unit; no SyscallHandler / LoadToken (SYSCALL and CALLT fault), so only "
        "contexts created by CALL/CALLL/CALLA exist (cross-script context loading is interop territory, not observed)",
        "item counts, integer widths, item sizes are measured by the harness's own walk over Istack()/Estack()/slots; the try "
        "depth is read (read-only, reflect) from vm.Context.tryStack; the VM's counter through the verif hook VerifRefs()",
        "instruction boundaries come from the harness's own opcode table (harness/c12vm/optable.go)",
        "'a cyclic structure was built' = a cycle exists among the compound items reachable before or after some instruction",
        "nothing is judged about the state left behind by a FAULT",
    ]
    # 3. real code
    env = {"VERIF_IN": ind}
    if q:
        env.update({"VERIF_BYTES": 250, "VERIF_OPS": 400, "VERIF_DEEP": 150, "VERIF_LIMIT_ROUNDS": 1, "VERIF_STATIC": 1})
    else:
        env.update({"VERIF_BYTES": 8000, "VERIF_OPS": 16000, "VERIF_DEEP": 6000, "VERIF_LIMIT_ROUNDS": 6, "VERIF_STATIC": 6})
    res = ctx.go_driver("c12vm", "TestDriver", env=env, timeout=3000, extra=["-p", "4"])
    ctx.absorb(res)
    st = res.get("stats") or {}
    pc = st.get("per_class") or {}
    # vacuity guards on the driver: the limits were really approached, the static check was really probed
    lim = pc.get("limit") or {}
    need = {"max_walked": 2048, "max_idepth": 1024, "max_tdepth": 16, "max_intbits": 256, "max_itemsize": 131070}
    for k, v in need.items():
        if lim.get(k, 0) < v:
            raise vlib.Inconclusive("limit scripts did not reach %s = %d (got %s)" % (k, v, lim.get(k)))
    if st.get("oor_cases_handled", 0) * 2 < max(1, st.get("oor_cases", 0)):
        raise vlib.Inconclusive("most instruction-raised exceptions were not caught by the scripts' handlers (%s of %s)" % (
            st.get("oor_cases_handled"), st.get("oor_cases")))
    if not st.get("static_ok_accepted"):
        raise vlib.Inconclusive("no well-formed jump script passed the static check: nothing was probed")
    if (st.get("behaviours_replayed_to_the_end", 0) * 10) < 9 * max(1, st.get("behaviours", 0) - cex_found):
        raise vlib.Inconclusive("fewer than 90%% of the model behaviours could be replayed to their end (%s of %s)" % (
            st.get("behaviours_replayed_to_the_end"), st.get("behaviours")))

    # 4. TLC judges every recorded observation against the abstract specification (one file at a time)
    files = sorted(f for f in os.listdir(res["_out"]) if f.startswith("trace-") and f.endswith(".ndjson"))
    if len(files) != st.get("trace_files"):
        raise vlib.Inconclusive("trace files missing: %s of %s" % (len(files), st.get("trace_files")))
    bad_runs = set()
    for f in files:
        trace = os.path.join(res["_out"], f)
        fails = ctx.trace_judge("vmref", "VMTrace.tla", "Trace_VM.cfg", trace, timeout=3000)
        if fails:
            bad_runs |= report(ctx, vlib.read_ndjson(trace), fails)
    ctx.traces_validated += res.get("traces", 0)
    # 5. binding self-test: a corrupted good trace must be rejected (taken from runs without any failure)
    selftest(ctx, os.path.join(res["_out"], files[0]), bad_runs)
    # 6. extension: executions spanning several scripts in one VM (spec/vmxref, harness/c12xscript)
    ep = os.path.join(os.path.dirname(os.path.abspath(__file__)), "c12_xscript.py")
    if os.path.exists(ep):
        import importlib.util
        sp = importlib.util.spec_from_file_location("check_c12_xscript", ep)
        m = importlib.util.module_from_spec(sp)
        sp.loader.exec_module(m)
        m.run_ext(ctx)


COLLECTION_OPS = {"REMOVE", "SETITEM", "APPEND", "PICKITEM", "HASKEY", "POPITEM", "CLEARITEMS", "REVERSEIT", "VALUES", "KEYS",
                  "UNPACK", "SIZE"}


def opname(n):
    return "0x%02X" % n


def report(ctx, events, fails):
    """One violation per (clause, instruction that led to the bad observation, source class)."""
    start = 0
    starts = []
    for i, e in enumerate(events):
        if e["e"] == "i":
            start = i
        starts.append(start)
    names = opnames()
    done = set()
    bad = set()
    for f in sorted(fails, key=lambda x: x["line"]):
        li = f["line"] - 1
        s = starts[li]
        ini, ev = events[s], events[li]
        bad.add(ini["id"])
        for w in sorted(f["what"]):
            if (s, w) in done:
                continue
            done.add((s, w))
            # the instruction that produced the bad state is the one executed before this observation;
            # for OnBoundary it is the offset about to be executed
            prev = events[li - 1] if li - 1 > s else None
            if w == "OnBoundary":
                cause = prev["op"] if prev else ev.get("op", 0)
            elif ev["e"] == "f":
                cause = ev.get("lop", 0)
            else:
                cause = prev["op"] if prev else -1
            cls = re.sub(r"[-/].*", "", ini["src"])
            sig = {"kind": w, "op": names.get(cause, opname(cause)) if cause >= 0 else "load", "cyclic": bool(ev.get("c"))}
            if w in ("NoUnderCount", "ExactAcyclic", "ItemsBounded", "CounterBounded") and prev is not None:
                # types of the (up to 3) top stack items the instruction was executed on, top first
                tt = prev.get("tt", "").split(",")
                cpos = {"REMOVE": 1, "SETITEM": 2, "APPEND": 1, "PICKITEM": 1, "HASKEY": 1}.get(sig["op"], 0)
                if sig["op"] in COLLECTION_OPS:     # type of the collection operand the instruction works on
                    sig["collection"] = tt[cpos] if cpos < len(tt) else ""
                if sig["op"] in ("SETITEM", "APPEND"):
                    sig["item"] = tt[0]
                sig["surplus"] = max(-3, min(3, ev.get("r", 0) - ev.get("w", 0)))
            ctx.violation(sig, {
                "what": "clause %s of VMLimits is false on the real VM after %s (run %s, event %d of the run)" % (
                    w, sig["op"], ini["src"], li - s),
                "class": cls, "script": ini["script"], "gas_limit_limbs": ini["lim"], "price_base": ini.get("base"),
                "observation": {k: v for k, v in ev.items()},
                "previous": [{k: v for k, v in e.items() if k != "script"} for e in events[max(s, li - 6):li]]})
    return bad


def opnames():
    """opcode byte -> mnemonic, read from the harness's own table (names only, for signatures)."""
    p = os.path.join(vlib.VERIF, "harness", "c12vm", "optable.go")
    names = {}
    for m in re.finditer(r"^\t(\w+)\s*=\s*0x([0-9A-Fa-f]{2})$", open(p).read(), re.M):
        if m.group(1).startswith("T") and m.group(1)[1:2].islower():
            continue
        names.setdefault(int(m.group(2), 16), m.group(1))
    for i in range(17):
        names[0x10 + i] = "PUSH%d" % i
    for base, n in ((0x58, "LDSFLD"), (0x60, "STSFLD"), (0x68, "LDLOC"), (0x70, "STLOC"), (0x78, "LDARG"), (0x80, "STARG")):
        for i in range(7):
            names[base + i] = "%s%d" % (n, i)
    return names


def selftest(ctx, trace, bad_runs=()):
    """Corrupt one field of a good recorded run and require the trace specification to reject it."""
    runs, cur = [], []
    with open(trace) as f:
        for line in f:
            if len(line) > 20000:       # skip the few runs with huge scripts
                cur = None
                continue
            e = json.loads(line)
            if e["e"] == "i":
                cur = [e]
            elif cur is not None:
                cur.append(e)
                if e["e"] == "f":
                    if cur[0]["id"] not in bad_runs:
                        runs.append(cur)
                    cur = None
            if len(runs) > 3000:
                break

    def find(pred):
        for r in runs:
            for i, e in enumerate(r):
                if pred(r, i, e):
                    return r, i
        raise vlib.Inconclusive("self-test could not find a place to corrupt the trace")

    cases = []
    r, i = find(lambda r, i, e: e["e"] == "s" and e["r"] >= 3 and not e["c"] and i > 3)
    cases.append(("refs-1", r, i, {"r": r[i]["r"] - 1}, {"NoUnderCount", "ExactAcyclic"}))
    r, i = find(lambda r, i, e: e["e"] == "s" and e["r"] >= 3 and not e["c"] and i > 3)
    cases.append(("refs+1", r, i, {"r": r[i]["r"] + 1}, {"ExactAcyclic"}))
    r, i = find(lambda r, i, e: e["e"] == "s" and r[0]["chk"] and i > 2)
    cases.append(("off-boundary", r, i, {"k": False}, {"OnBoundary"}))
    r, i = find(lambda r, i, e: e["e"] == "f" and e["st"] == "HALT")
    cases.append(("state-break", r, i, {"st": "BREAK"}, {"Total"}))
    r, i = find(lambda r, i, e: e["e"] == "f" and e["st"] == "HALT")
    cases.append(("gas-over", r, i, {"g": [r[0]["lim"][0], r[0]["lim"][1], r[0]["lim"][2] + 1]}, {"GasBounded"}))
    r, i = find(lambda r, i, e: e["e"] == "s" and i > 2)
    cases.append(("trydepth", r, i, {"t": 17}, {"TryBounded"}))
    r, i = find(lambda r, i, e: e["e"] == "s" and i > 2)
    cases.append(("bigint", r, i, {"b": 257}, {"IntBounded"}))
    r, i = find(lambda r, i, e: e["e"] == "f" and e["st"] == "FAULT")
    cases.append(("panic", r, i, {"p": True}, {"Total"}))
    r, i = find(lambda r, i, e: e["e"] == "s" and i > 2)
    cases.append(("halt-midway", r, i, {"st": "HALT"}, {"RunningIsNone"}))
    r, i = find(lambda r, i, e: e["e"] == "s" and i > 2)
    cases.append(("items", r, i, {"w": 2049, "r": 2049}, {"ItemsBounded"}))
    r, i = find(lambda r, i, e: e["e"] == "s" and i > 2)
    cases.append(("itemsize", r, i, {"z": 131071}, {"SizeBounded"}))
    r, i = find(lambda r, i, e: e["e"] == "s" and i > 2)
    cases.append(("invocations", r, i, {"i": 1025}, {"InvocBounded"}))
    evs, expect = [], []
    for name, r, i, ch, exp in cases:
        seg = [dict(e) for e in r[:i + 1]]
        seg[i].update(ch)
        if seg[-1]["e"] != "f":   # close the run so that the file stays a sequence of whole runs
            pass
        line0 = len(evs)
        evs += seg
        expect.append((name, line0 + i + 1, exp))
    path = os.path.join(ctx.work, "selftest.ndjson")
    vlib.write_ndjson(path, evs)
    stt, trr = ctx.states, ctx.transitions
    fails = ctx.trace_judge("vmref", "VMTrace.tla", "Trace_VM.cfg", path, timeout=600)
    ctx.states, ctx.transitions = stt, trr
    byline = {f["line"]: set(f["what"]) for f in fails}
    for name, line, exp in expect:
        if not (exp & byline.get(line, set())):
            raise vlib.Inconclusive("binding self-test %s: corrupted observation was not rejected (%s expected, got %s)" % (
                name, sorted(exp), sorted(byline.get(line, []))))
        ctx.extra["binding_selftests"] = ctx.extra.get("binding_selftests", 0) + 1
    extra = [l for l in byline if l not in [x[1] for x in expect]]
    if extra:
        raise vlib.Inconclusive("binding self-test: uncorrupted observations were rejected at lines %s" % extra[:5])
