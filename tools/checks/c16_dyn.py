"""Extension of the C16 check: call flags and manifest permissions while the CONTRACT TABLE CHANGES inside a transaction
and between the transactions of a block (ContractManagement.update / destroy / deploy made by contracts of the call chain:
self-updates that change permissions, safe marks, parameter counts, groups and the NEF with its method tokens; callees
updated / destroyed / deployed earlier in the transaction or block; re-deployment of a destroyed hash; ContractManagement
itself called with restricted flags; the _deploy callback).  Called from c16.py:

    ext = _load_ext('c16_dyn'); ext.run_ext(ctx)

Model: spec/flagsdyn  FlagsDyn (abstract clauses, evaluated against the table AT THE TIME OF EACH CALL), FlagsDynAbs (abstract
state machine), FlagsDynImpl (shaped like interop/contract/call.go + native/management.go + native/interop.go; nine named
deviations), MCFlagsDyn (universes), FlagsDynSim (generator), FlagsDynTrace (judge).
Real code: harness/c16dyn - real signed transactions in real blocks of neotest chains (with and without hardfork Domovoi),
each observed instruction by instruction on the real engine."""
import concurrent.futures
import json
import os
import random

import vlib

PART = "dyn"
RULE_EXT = ("dyn: cases = real vm.Contexts created (System.Contract.Call, CALLT, _deploy callbacks, ContractManagement frames), "
            "storage / notification effects and management operations observed instruction by instruction while real "
            "transactions (the same ones are then put into real blocks and their application logs compared) change the contract "
            "table under the running invocation; histories are TLC-generated behaviours of FlagsDynSim (both protocol versions of "
            "the permission rule), 3,516 scripted situations enumerated over TLC's universe (self-update then call, callee updated / "
            "destroyed / deployed earlier, re-deployment of a destroyed hash, ContractManagement with restricted flags, _deploy "
            "callbacks) and seeded random ones over a larger universe; every event is judged by FlagsDynTrace with the abstract "
            "clauses of FlagsDyn over the table the specification tracks")

RULE = RULE_EXT
# (cfg, deviation, the clause that must refute it)
BUGS = (("MC_bug_perm_stored.cfg", "PermWrongManifest/stored"), ("MC_bug_perm_loaded.cfg", "PermWrongManifest/loaded"),
        ("MC_bug_safe.cfg", "SafeFromTxStart"), ("MC_bug_dead.cfg", "DeadCallable"),
        ("MC_bug_blockdeploy.cfg", "NoBlocklistOnDeploy"), ("MC_bug_destroynoblock.cfg", "DestroyNoBlock"),
        ("MC_bug_cbflags.cfg", "DeployCbAllFlags"), ("MC_bug_token.cfg", "TokenCached"),
        ("MC_bug_groups.cfg", "UpdateKeepsGroups"), ("MC_bug_deploynowrite.cfg", "DeployNoWrite"))
KIND = {"FlagsShrink": "FlagsShrink", "CallImpliesAllowCall": "EffectImpliesFlag", "NoCallToDead": "NoCallToDead",
        "SafeStripped": "SafeNeverWrites", "CallImpliesPermission": "CallImpliesPermission",
        "EffectImpliesFlag": "EffectImpliesFlag", "SafeNeverWrites": "SafeNeverWrites",
        "BlockedHashRedeployed": "BlockedHashRedeployed"}
# Binding failures.  An event the abstract machine has no step for, or a transaction that left another application log in
# the real block than in the observed run: nothing is judged from the start of that transaction on.  A table read back
# after a block that is not the table the specification tracks: nothing is judged AFTER that block (what happened before
# it was judged against the table the completed management operations ask for - if the chain stores something else,
# that is exactly what makes these clauses fail).  The other names are reported as drift only.
CUT_TX = ("ModelStep", "BlockConfirms")
CUT_AFTER = ("TableStored", "TableCache")
MAX_SIGS = 8


def run_ext(ctx):
    q = ctx.quick()
    d = ctx.spec_scratch("flagsdyn")
    # ---------------------------------------------------------------- 1. + 2. models (in the background, concurrently)
    mcs = [("MC_abs.cfg", 2), ("MC_q_loaded.cfg", 3), ("MC_q_stored.cfg", 3), ("MC_two2.cfg", 3)] if q else \
          [("MC_abs.cfg", 2), ("MC_full_loaded.cfg", 4), ("MC_full_stored.cfg", 4), ("MC_two2.cfg", 3), ("MC_three2.cfg", 4)]
    pool = concurrent.futures.ThreadPoolExecutor(max_workers=8 if q else 6)
    simf = [pool.submit(lambda cfg=cfg, sd=sd: (cfg, ctx.tlc_sim("flagsdyn", "FlagsDynSim.tla", cfg, num=100 if q else 2000, depth=120,
                                                                 timeout=300 if q else 1800, seed=sd)))
            for cfg, sd in (("Sim_dyn.cfg", ctx.seed), ("Sim_dyn_stored.cfg", ctx.seed + 7919))]
    bugf = [pool.submit(lambda cfg=cfg: ctx.tlc(d, "MCFlagsDyn.tla", cfg, 600, workers=1)) for cfg, _ in BUGS]
    mcf = [pool.submit(lambda cfg=cfg, wk=wk: ctx.tlc(d, "MCFlagsDyn.tla", cfg, 900 if q else 3000, workers=wk)) for cfg, wk in mcs]
    try:
        _run(ctx, q, [f.result() for f in simf], bugf, mcf, mcs)
    finally:
        pool.shutdown(wait=True)


def models_done(ctx, bugf, mcf, mcs, q):
    for (cfg, name), f in zip(BUGS, bugf):
        r = f.result()
        if r["timed_out"]:
            raise vlib.Inconclusive("dyn: TLC timed out on %s" % cfg)
        if not (r["error"] and vlib.is_property_failure(r["out"])):
            raise vlib.Inconclusive("dyn: named deviation %s not refuted by the abstract clauses (vacuous model): %s" % (name, r["error"]))
        ctx.extra["dyn_model_selftests"] = ctx.extra.get("dyn_model_selftests", 0) + 1
    for (cfg, _), f in zip(mcs, mcf):
        r = f.result()
        if r["timed_out"]:
            raise vlib.Inconclusive("dyn: TLC timed out on %s" % cfg)
        if r["error"]:
            raise vlib.ModelError("dyn: TLC reported an error on MCFlagsDyn/%s: %s" % (cfg, r["error"]), r)
        ctx.states += r["states"]
        ctx.transitions += r["transitions"]
        vlib.log("MC MCFlagsDyn/%s: %d distinct states, %d generated, %.1fs" % (cfg, r["states"], r["transitions"], r["wall_s"]))
    ctx.extra["dyn_constants"] = ("2-3 contracts x 2 manifests, 2 methods (q with 2 or 3 parameters), 1 group, 2-3 method tokens, "
                                  "%s requested flag sets, call depth <= 3, <= 2 management operations per transaction, 1-2 transactions, "
                                  "both permission rules" % ("2-3" if q else "3-4"))


def _run(ctx, q, sims, bugf, mcf, mcs):
    # ---------------------------------------------------------------- 3. behaviours of the implementation-shaped model
    rnd = random.Random(ctx.seed)
    behaviours = []
    for cfg, hs in sorted(sims):
        groups = {}
        for h in hs:      # TLC prints every finished successor: keep two histories per common prefix
            groups.setdefault(json.dumps(h[:-1], sort_keys=True), {})[json.dumps(h[-1], sort_keys=True)] = h
        sel = []
        for k in sorted(groups):
            alts = [groups[k][a] for a in sorted(groups[k])]
            rnd.shuffle(alts)
            sel += alts[:2]
        rnd.shuffle(sel)
        behaviours += sel[:250 if q else 4000]
    if len(behaviours) < 40:
        raise vlib.Inconclusive("dyn: too few behaviours generated (%d)" % len(behaviours))
    ind = os.path.join(ctx.work, "in-c16dyn")
    os.makedirs(ind, exist_ok=True)
    json.dump(behaviours, open(os.path.join(ind, "behaviours.json"), "w"))
    ctx.extra["dyn_tlc_histories"] = len(behaviours)
    # ---------------------------------------------------------------- 4. the real chain
    res = ctx.go_driver("c16dyn", "TestDriver", env={"VERIF_IN": ind, "VERIF_RANDOM": 400 if q else 25000, "VERIF_SCRIPTED_EVERY": 1},
                        timeout=3000)
    stats = res.pop("stats", None) or {}
    for k, v in stats.items():
        ctx.extra["dyn_" + k] = v
    ctx.absorb(res)
    # ---------------------------------------------------------------- 5. TLC judges the recorded trace
    trace = os.path.join(res["_out"], "trace.ndjson")
    events = vlib.read_ndjson(trace)
    fails = ctx.trace_judge_parts("flagsdyn", "FlagsDynTrace.tla", "Trace_FlagsDyn.cfg", events, max_events=30000, timeout=3000,
                                  workers=4)
    ctx.traces_validated += res.get("traces", 0)
    models_done(ctx, bugf, mcf, mcs, q)
    if not q:
        # vacuity guard: every action of the implementation-shaped model is taken
        ctx.tlc_mc("flagsdyn", "MCFlagsDyn.tla", "MC_q_stored.cfg", timeout=1800, workers=4, coverage=True)
    report(ctx, events, fails)
    coverage(ctx, events)
    ctx.assumptions.append("dyn: what a transaction did is observed on an interop.Context of the real chain whose DAO is layered "
                           "the way blockchain.storeBlock layers it (block layer, transaction layer persisted on HALT), with an "
                           "OnExecHook; the same transaction inside the real block must leave the same application log (state, "
                           "fault, stack with the probes' own markers and GetCallFlags readings, notifications, GAS) - histories "
                           "where it does not are not judged")
    ctx.assumptions.append("dyn: 'one of its manifest permissions' is read per protocol version: from hardfork Domovoi on the "
                           "manifest of the executing contract VERSION (docs/node-configuration.md, neo-project/neo#3290), before "
                           "it the manifest stored in the table at the time of the call (no claim when the caller destroyed itself)")
    # ---------------------------------------------------------------- 6. binding self-tests
    if not fails:
        selftest(ctx, events)


# ------------------------------------------------------------------------------------------------ reporting
def history_of(events, li):
    s = li
    while events[s]["event"] != "init":
        s -= 1
    e = li
    while e + 1 < len(events) and events[e + 1]["event"] != "init":
        e += 1
    return s, e


def last_change(events, s, li):
    """The management operation that completed most recently before line li (in the running transaction, or in an earlier
    transaction of the history that HALTed)."""
    what, cur = "none", []
    for e in events[s:li]:
        k = e["event"]
        if k == "begintx":
            cur = []
        elif k == "mgmt":
            cur.append(e["op"])
        elif k == "endtx":
            if e["how"] == "HALT" and cur:
                what = cur[-1]
            cur = []
    return cur[-1] if cur else what


def violation(ctx, sig, detail):
    """ctx.violation, except that a stand-alone run of the extension honours the known findings listed for C16."""
    if ctx.pid != "C16":
        for kf in ctx.known.get("findings", []):
            if kf.get("property") == "C16" and vlib.sig_match(kf.get("signature", {}), sig):
                if kf not in ctx.known_hits:
                    ctx.known_hits.append(kf)
                    print("KNOWN-FINDING: property=C16 %s" % kf.get("what", json.dumps(kf.get("signature"))), flush=True)
                return
    ctx.violation(sig, detail)


def signature(events, li, name):
    ev = events[li]
    s, _ = history_of(events, li)
    if name == "CallImpliesAllowCall" and ev.get("kind") == "n":
        # a native method running without AllowCall made a call into a contract: the listed finding of C16
        return {"kind": "native-calls-contract-without-allowcall", "method": ev.get("nm") or "ContractManagement"}
    via = {"enter": ev.get("kind"), "eff": ev.get("e"), "mgmt": ev.get("op")}.get(ev["event"], ev["event"])
    return {"part": PART, "kind": KIND[name], "clause": name, "after": {"update": "update", "destroy": "destroy", "deploy": "deploy"}.get(
        last_change(events, s, li), "none"), "via": via, "rule": events[s].get("rule")}


def report(ctx, events, fails):
    """C16 failures -> violations (at most MAX_SIGS signatures); binding failures -> drift, and they bound what is judged of
    their history (CUT_TX / CUT_AFTER)."""
    by_hist = {}
    for f in sorted(fails, key=lambda f: f["line"]):
        s, _ = history_of(events, f["line"] - 1)
        by_hist.setdefault(s, []).append(f)
    sigs = {}
    nbind, unjudged = 0, 0
    for s, fs in sorted(by_hist.items()):
        binding = [f for f in fs if not set(f["what"]) & set(KIND)]
        if binding:
            nbind += 1
            if len(ctx.spec_drift) < 20:
                f = binding[0]
                ctx.spec_drift.append({"part": PART, "kind": "table-model-mismatch", "what": sorted(f["what"]),
                                       "history": events[s].get("h"), "event": events[f["line"] - 1]})
        cut = None
        for f in fs:
            li = f["line"] - 1
            if set(f["what"]) & set(CUT_TX):
                while events[li]["event"] not in ("begintx", "init"):
                    li -= 1
            elif not set(f["what"]) & set(CUT_AFTER):
                continue
            cut = li if cut is None else min(cut, li)
        if cut is not None:
            unjudged += 1
        for f in fs:
            li = f["line"] - 1
            if cut is not None and li >= cut:
                continue
            for name in sorted(set(f["what"]) & set(KIND)):
                sig = signature(events, li, name)
                k = json.dumps(sig, sort_keys=True)
                if k not in sigs and len(sigs) >= MAX_SIGS:
                    ctx.extra["dyn_further_violation_signatures"] = ctx.extra.get("dyn_further_violation_signatures", 0) + 1
                    continue
                sigs[k] = sigs.get(k, 0) + 1
                t0 = li
                while events[t0]["event"] not in ("begintx", "init"):
                    t0 -= 1
                violation(ctx, sig, {"what": "FlagsDynTrace: clause %s false on a step of the real engine" % name,
                                     "event": events[li], "judge": f["ctx"],
                                     "history": {"init": {k: v for k, v in events[s].items() if k != "toks"},
                                                 "management operations before, in this history":
                                                     [e for e in events[s:t0] if e["event"] in ("mgmt", "endtx")],
                                                 "this transaction": events[t0:li + 1]},
                                     "how": "harness/c16dyn: contract table, frames' flags, manifests and effects are read from the "
                                            "real interop.Context / vm.Context objects at every instruction (monitor_test.go)"})
    ctx.extra["dyn_trace_events"] = len(events)
    ctx.extra["dyn_histories_with_binding_mismatch"] = nbind
    ctx.extra["dyn_histories_judged_only_in_part"] = unjudged
    ctx.extra["dyn_trace_lines_rejected"] = len(fails)
    nh = sum(1 for e in events if e["event"] == "init")
    if unjudged > max(2, nh // 20) and not ctx.violations:
        raise vlib.Inconclusive("dyn: %d of %d histories could not be judged entirely (binding): %s" % (unjudged, nh, ctx.spec_drift[:2]))
    ctx.samples.append({"part": PART, "history": events[0].get("h"),
                        "events": [{k: v for k, v in e.items() if k not in ("cat", "toks")} for e in events[:8]]})


def coverage(ctx, events):
    """What the histories reached (evidence + vacuity guard): computed from the recorded events only."""
    c = {}

    def inc(k):
        c[k] = c.get(k, 0) + 1
    stack, changed, deployed_blk, fresh = [], {}, set(), set()
    for e in events:
        k = e["event"]
        if k == "init":
            deployed_blk, fresh = set(), set()
        elif k == "begintx":
            stack, changed, fresh = [{"id": 0, "c": "E", "since": 0}], {}, set()
        elif k == "enter":
            par = stack[-1] if stack else {"c": "?", "since": 0}
            if e["c"] != "M":
                if changed.get(e["c"], (0, ""))[1] == "update":
                    inc("calls_of_a_callee_updated_in_this_transaction")
                if e["c"] in fresh:
                    inc("calls_of_a_contract_deployed_in_this_transaction")
                elif e["c"] in deployed_blk:
                    inc("calls_of_a_contract_deployed_by_an_earlier_transaction")
            if e["kind"] in ("c", "t") and par["c"] not in ("E", "M") and changed.get(par["c"], (0, ""))[0] > par["since"]:
                inc("calls_made_by_a_frame_older_than_its_contracts_%s" % changed[par["c"]][1])
            if e["kind"] == "n":
                inc("deploy_callbacks")
            if e["c"] == "M" and e["fl"] != 15:
                inc("management_frames_with_restricted_flags")
            stack.append({"id": e["id"], "c": e["c"], "since": len(changed) and max(v[0] for v in changed.values())})
        elif k == "ret" and stack:
            stack.pop()
        elif k == "mgmt":
            changed[e["c"]] = (max([v[0] for v in changed.values()] + [0]) + 1, e["op"])
            if e["op"] == "deploy":
                fresh.add(e["c"])
        elif k == "refused":
            f = e.get("fault", "")
            for pat, name in (("has been blocked", "redeploy_of_a_blocked_hash_refused"), ("missing call flags for native", "management_refused_for_missing_flags"),
                              ("disallowed method call", "calls_refused_by_permission"), ("not found", "calls_refused_callee_or_method_missing"),
                              ("is blocked", "calls_of_a_blocked_contract_refused"), ("missing call flags", "system_calls_refused_for_missing_flags")):
                if pat in f:
                    inc(name)
                    break
        elif k == "endtx":
            if e["how"] == "HALT":
                deployed_blk |= fresh
    ctx.extra["dyn_reached"] = c
    for need in ("calls_of_a_callee_updated_in_this_transaction", "calls_of_a_contract_deployed_in_this_transaction",
                 "calls_made_by_a_frame_older_than_its_contracts_update", "deploy_callbacks", "redeploy_of_a_blocked_hash_refused",
                 "management_refused_for_missing_flags", "calls_refused_by_permission"):
        if not c.get(need):
            raise vlib.Inconclusive("dyn: vacuous binding: the histories never reached '%s' (%s)" % (need, c))


# ------------------------------------------------------------------------------------------------ self-tests (guide rule 6)
def can_call(perms, callee, groups, method):
    for p in perms:
        m = p["kind"] == "wild" or (p["kind"] == "hash" and p["target"] == callee) or (p["kind"] == "group" and p["target"] in groups)
        if m and (p["wild"] or method in p["methods"]):
            return True
    return False


def selftest(ctx, events):
    """Corrupt one recorded field of a good history and require the judge to object at exactly that line:
    shrink   a new context's flags read back larger than its parent's            -> FlagsShrink
    safe     a context entered through a method marked safe read back with WriteStates -> SafeStripped
    effect   the context that wrote read back without WriteStates                -> EffectImpliesFlag at the effect
    perm     the callee of a call replaced by one the caller's manifest does not permit -> CallImpliesPermission
    stale    a completed update dropped from the record                          -> something later in that history
    """
    want = {}
    starts = [i for i, e in enumerate(events) if e["event"] == "init"]
    for s in starts:
        _, en = history_of(events, s)
        cat, tbl = events[s]["cat"], events[s]["tbl"]
        frames, nomgmt = {}, True
        for li in range(s + 1, en + 1):
            e = events[li]
            k = e["event"]
            if k == "begintx":
                frames = {0: {"fl": e["fl"], "c": "E", "lmv": 0}}
            elif k == "mgmt":
                nomgmt = False
            elif k == "enter":
                par = frames.get(e["par"])
                if par and "shrink" not in want and par["fl"] != 15 and e["kind"] in ("c", "t"):
                    want["shrink"] = (li, dict(e, fl=15), "FlagsShrink", li)
                if par and e["c"] != "M" and e["cs"]["st"] == "live" and e["cs"]["mv"] > 0 and "safe" not in want:
                    ms = cat[e["c"]][e["cs"]["mv"] - 1]["meths"]
                    if any(x["n"] == e["m"] and x["a"] == e["a"] and x["s"] for x in ms) and par["fl"] & 2 and e["req"] & 2:
                        want["safe"] = (li, dict(e, fl=e["fl"] | 2), "SafeStripped", li)
                if par and "perm" not in want and nomgmt and e["kind"] in ("c", "t") and par["c"] not in ("E", "M") and par["lmv"] > 0 \
                        and events[s]["rule"] == "loaded":
                    perms = cat[par["c"]][par["lmv"] - 1]["perms"]
                    for c2 in sorted(tbl):
                        t2 = tbl[c2]
                        if t2["st"] != "live" or c2 == e["c"]:
                            continue
                        m2 = cat[c2][t2["mv"] - 1]
                        if any(x["n"] == e["m"] and x["a"] == e["a"] and not x["s"] for x in m2["meths"]) and \
                                not can_call(perms, c2, m2["groups"], e["m"]):
                            want["perm"] = (li, dict(e, c=c2, cs=t2, lmv=t2["mv"], lnef=t2["nef"]), "CallImpliesPermission", li)
                            break
                frames[e["id"]] = {"fl": e["fl"], "c": e["c"], "lmv": e["lmv"], "line": li}
            elif k == "eff" and e["e"] == "w" and "effect" not in want and e["f"] in frames and "line" in frames[e["f"]]:
                fl = frames[e["f"]]["line"]
                if events[fl]["c"] != "M":
                    want["effect"] = (fl, dict(events[fl], fl=events[fl]["fl"] & ~2), "EffectImpliesFlag", li)
        if len(want) == 4:
            break
    done = 0
    names = ("shrink", "safe", "effect", "perm")
    for name in names:
        if name not in want:
            raise vlib.Inconclusive("dyn: binding self-test: nothing to corrupt for %s" % name)

    # one TLC run over the four corrupted histories, one after the other
    allp, offs = [], {}
    for name in names:
        li, bad, expect, at = want[name]
        s, e = history_of(events, li)
        offs[name] = len(allp)
        allp += events[s:li] + [bad] + events[li + 1:e + 1]
    offs["<end>"] = len(allp)
    allf = judge_small(ctx, allp, "dyn-selftest.ndjson")
    for i, name in enumerate(names):
        li, bad, expect, at = want[name]
        s, e = history_of(events, li)
        lo, hi = offs[name], offs[names[i + 1]] if i + 1 < len(names) else offs["<end>"]
        fails = [dict(f, line=f["line"] - lo) for f in allf if lo < f["line"] <= hi]
        if not any(f["line"] == at - s + 1 and expect in f["what"] for f in fails) or any(f["line"] < li - s + 1 for f in fails):
            raise vlib.Inconclusive("dyn: binding self-test %s: corrupted record not rejected as expected (%s at line %d): %s" % (
                name, expect, at - s + 1, [(f["line"], f["what"]) for f in fails[:4]]))
        done += 1
    # stale: drop a completed update after which the history goes on
    ok = False
    for li, e in enumerate(events):
        if e["event"] != "mgmt" or e["op"] != "update":
            continue
        s, en = history_of(events, li)
        part = events[s:li] + events[li + 1:en + 1]
        fails = judge_small(ctx, part, "dyn-selftest-stale.ndjson")
        if fails and all(f["line"] >= li - s + 1 for f in fails):
            ok = True
            done += 1
            break
        if fails:
            raise vlib.Inconclusive("dyn: binding self-test stale: failure before the dropped update: %s" % fails[:3])
    if not ok:
        raise vlib.Inconclusive("dyn: binding self-test stale: dropping an update from the record was never noticed")
    ctx.extra["dyn_binding_selftests"] = done


def judge_small(ctx, part, name):
    p = os.path.join(ctx.work, name)
    vlib.write_ndjson(p, part)
    st, tr = ctx.states, ctx.transitions
    fails = ctx.trace_judge("flagsdyn", "FlagsDynTrace.tla", "Trace_FlagsDyn.cfg", p, timeout=600)
    ctx.states, ctx.transitions = st, tr
    return fails
