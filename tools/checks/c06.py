"""C06 - only valid chain extensions are accepted; a rejected block changes nothing.
Model: spec/accept (Accept abstract judge; AcceptCode/AcceptImpl code-shaped AddBlock/AddHeaders checked exhaustively
against it; AcceptCases case table with specified and predicted outcome; AcceptTrace validator).
Real code: core.Blockchain.AddBlock / AddHeaders on real nodes prepared by harness/c06accept."""
import json
import os

import vlib

RULE = ("cases = blocks/headers offered to real nodes (core.Blockchain, fresh node per offer): every row of the TLC case table "
        "(chain-state kind x StateRootInHeader x VerifyTransactions x AddBlock/AddHeaders x corruption kind x raw/resealed family) "
        "built from a generated valid next block, plus seeded single-bit corruptions of the wire form; distinct = distinct "
        "(source, way, state kind, settings, kind, family, measured description, result, error class, observed changes); "
        "non-trivial: every offer is judged by TLC (AcceptTrace) with the abstract predicates on the difference between the "
        "observation before and after (heights, tip, header chain, 13-component ledger digest, state-root module, mempool incl. "
        "witnesses, full store dump after a forced flush), followed by the correct block which must be accepted and reproduce the "
        "reference digest")

JUDGED = ["Sound", "AcceptEffect", "AcceptedMatchesReference", "RejectKeepsLedger", "RejectKeepsPool", "HeaderRule",
          "RejectKeepsStore", "Complete", "HdrSound", "HdrEffect", "HdrKeepsLedger", "HdrKeepsStore",
          "CorrectStillAccepted", "CorrectMatchesReference"]
INFRA = ["CaseRealised", "DescriptionWF"]
DRIFT = ["ImplPrediction", "SameHashSameState"]
DEVIATIONS = ["quirk_shortcut", "quirk_evict", "quirk_known", "bug_hdr", "bug_ts", "bug_pool"]
QUICK_STATES = {"mid", "hdr_ahead", "pool_has", "epoch", "fresh", "hdr_ahead_badroot", "hdr_ahead_badroot2"}


def expect_model_error(ctx, cfg):
    st, tr = ctx.states, ctx.transitions
    try:
        ctx.tlc_mc("accept", "AcceptImpl.tla", cfg, timeout=600, workers=4)
    except vlib.ModelError as e:
        if "@@BAD@@" not in (e.res or {}).get("out", ""):
            raise vlib.Inconclusive("deviation config %s failed for another reason: %s" % (cfg, e))
        ctx.extra["model_selftests"] = ctx.extra.get("model_selftests", 0) + 1
        return
    finally:
        ctx.states, ctx.transitions = st, tr
    raise vlib.Inconclusive("deviation %s not detected by the abstract judgement (vacuous model)" % cfg)


def classify(what, ev):
    """coarse class of a violated predicate on an offer: which clause of the statement is concerned"""
    a = ev.get("attrs") or {}
    if what in ("Sound", "HdrSound"):
        if what == "Sound" and ev.get("pre", {}).get("hdrs") and not a.get("wit", True) and a.get("hid") == "c":
            return "block-witness-altered-header-known"
        td = a.get("txdef")
        if td == "mutual_evict":
            return "in-block-conflict-replaced"
        if td == "wit_same":
            return "tx-witness-altered" + ("-pooled" if ev.get("state") == "pool_has" else "")
        if td and td != "none":
            return "tx-" + td
        for k in ("idx", "prev", "ts", "merkle", "srflag", "prevroot", "wit"):
            v = a.get(k)
            if v is False or (k == "idx" and v != "next") or (k == "ts" and v != "later"):
                return "header-" + k
        return "not-linked"
    if what in ("RejectKeepsLedger", "HdrKeepsLedger"):
        return ",".join(sorted(c.split(".")[-1] for c in ev.get("obs", {}).get("led_changed", []))[:4]) or "height"
    if what in ("RejectKeepsStore", "HdrKeepsStore"):
        return ",".join(ev.get("obs", {}).get("db_changed", [])[:4])
    if what == "Complete":
        return ev.get("kind")
    return ev.get("err") or ""


def run(ctx):
    q = ctx.quick()
    # ---------------------------------------------------------------- 1. exhaustive: Impl => Abstract
    ctx.tlc_mc("accept", "AcceptImpl.tla", "MC_Accept_q.cfg" if q else "MC_Accept.cfg", timeout=1500, workers=8)
    if not q:
        ctx.tlc_mc("accept", "AcceptImpl.tla", "MC_Accept_novt.cfg", timeout=900, workers=8)
    for d in DEVIATIONS:
        expect_model_error(ctx, "MC_Accept_%s.cfg" % d)
    ctx.extra["constants"] = {"AcceptImpl": "MaxH=%d accepted blocks, <=2 headers ahead, pool subsets of {t,u}, ALL well-formed offer "
                                            "descriptions (5 idx x 3 ts x 6 txdef x 3 hid x 2^7 flags) in every state" % (1 if q else 2),
                              "AcceptCases": "9 chain-state kinds x SRIH x VT x {block,header} x 52 kinds x {raw,resealed} (applicable ones)"}
    ctx.extra["exhaustive"] = True
    # ---------------------------------------------------------------- 2. case table with specified / predicted outcome
    rows = ctx.tlc_dump("accept", "AcceptCases.tla", "Cases_full.cfg", timeout=600)
    if len(rows) < 1400:
        raise vlib.Inconclusive("unexpected number of enumerated cases: %d" % len(rows))
    if not all(r["abstract_ok"] or r["pred"]["acc"] for r in rows):
        raise vlib.Inconclusive("case table: a predicted rejection contradicts the abstract level")
    ctx.extra["case_table_rows"] = len(rows)
    ctx.extra["case_table_predicted_violations"] = sum(1 for r in rows if not r["abstract_ok"])
    st0, tr0 = ctx.states, ctx.transitions
    drows = ctx.tlc_dump("accept", "AcceptCases.tla", "Cases_design.cfg", timeout=600)
    ctx.states, ctx.transitions = st0, tr0
    if not all(r["abstract_ok"] for r in drows):
        raise vlib.Inconclusive("case table: the design model's prediction contradicts the abstract level")
    design = {json.dumps(r["case"], sort_keys=True): r["pred"] for r in drows}
    for r in rows:
        r["pred_design"] = design[json.dumps(r["case"], sort_keys=True)]
    rows.sort(key=lambda r: json.dumps(r["case"], sort_keys=True))
    if q:
        rows = [r for r in rows if r["case"]["state"] in QUICK_STATES or r["case"]["kind"] == "valid"]
    ind = os.path.join(ctx.work, "in-c06")
    os.makedirs(ind)
    json.dump(rows, open(os.path.join(ind, "cases.json"), "w"))
    # ---------------------------------------------------------------- 3. real code
    res = ctx.go_driver("c06accept", "TestDriver", timeout=3000,
                        env={"VERIF_IN": ind, "VERIF_WORLDS": 1 if q else 6, "VERIF_RANDOM": 120 if q else 1500,
                             "VERIF_WORKERS": 8 if q else 12})
    ctx.absorb(res)
    st = res.get("stats") or {}
    if res.get("violations") and not st.get("offers"):
        # the real node refused the generated correct blocks in every world: nothing else can be offered
        ctx.samples.append({"violation": res["violations"][0]})
        return
    if st.get("offers", 0) < 0.9 * len(rows) or not st.get("offers_accepted") or not st.get("good_offers"):
        raise vlib.Inconclusive("vacuous binding: %s" % st)
    # ---------------------------------------------------------------- 4. TLC judges the recorded trace
    trace = os.path.join(res["_out"], "trace.ndjson")
    events = vlib.read_ndjson(trace)
    fails = ctx.trace_judge("accept", "AcceptTrace.tla", "Trace_Accept.cfg", trace, timeout=3000)
    ctx.traces_validated += res.get("traces", 0)
    ctx.extra["trace_events"] = len(events)
    report(ctx, events, fails)
    if not ctx.samples:
        ctx.samples.append({k: events[1].get(k) for k in ("state", "kind", "family", "attrs", "acc", "msg", "obs")})
    # ---------------------------------------------------------------- 5. binding self-test
    selftest(ctx, events, fails)
    ctx.assumptions.append("transaction-level clauses are judged with VerifyTransactions=true (and SkipBlockVerification=false); in the "
                           "VerifyTransactions=false worlds only the header / Merkle clauses and 'a rejected block changes nothing' are judged")
    ctx.assumptions.append("a block whose header is valid but differs from the correct block's may get its header recorded (the statement "
                           "allows it); the correct block of that height can then not be accepted any more and is not required to")
    ctx.assumptions.append("acceptance is REQUIRED for the correct block and for re-sealed pure reorderings / omissions of its transactions; "
                           "for re-sealed changes of Version, Nonce, PrimaryIndex, NextConsensus it is not specified (only judged if rejected)")
    ctx.assumptions.append("the description of each offered block (index, link, time, Merkle root, witness, header identity) is measured by "
                           "the harness' own code; transaction defects inserted by the harness are known by construction")


def report(ctx, events, fails):
    by_line = {}
    for f in fails:
        by_line.setdefault(f["line"], set()).update(f["what"])
    infra = []
    drift = {}
    for line in sorted(by_line):
        what = by_line[line]
        ev = events[line - 1]
        off = ev
        if ev.get("event") == "good":       # the offer this good block followed
            k = line - 2
            while k >= 0 and events[k].get("id") != ev.get("id"):
                k -= 1
            off = events[k] if k >= 0 else ev
        bad = [w for w in INFRA if w in what]
        if bad:
            infra.append((bad, ev.get("id"), ev.get("kind"), ev.get("family"), ev.get("state"), ev.get("attrs"), ev.get("decl")))
            continue
        for w in DRIFT:
            if w in what:
                key = (w, ev.get("kind"), ev.get("family"), ev.get("vt"))
                d = drift.setdefault(key, {"what": w, "kind": ev.get("kind"), "family": ev.get("family"), "vt": ev.get("vt"),
                                           "count": 0, "states": [], "predicted": ev.get("pred"),
                                           "observed": {"acc": ev.get("acc"), "err": ev.get("err"), "msg": ev.get("msg"),
                                                        "hdrs_after": ev.get("obs", {}).get("hdrs_after")}})
                d["count"] += 1
                if ev.get("state") not in d["states"]:
                    d["states"].append(ev.get("state"))
        for w in JUDGED:
            if w not in what:
                continue
            sig = {"kind": w, "via": off.get("via"), "class": classify(w, off)}
            ctx.violation(sig, {"what": "abstract predicate %s false on the real node" % w, "corruption": off.get("kind"),
                                "family": off.get("family"), "state": off.get("state"), "srih": off.get("srih"), "vt": off.get("vt"),
                                "world": off.get("world"), "height": off.get("h"), "seed": ctx.seed, "offer": off,
                                "event": ev if ev is not off else None})
    for k in sorted(drift, key=str):
        if len(ctx.spec_drift) < 20:
            ctx.spec_drift.append(drift[k])
    if infra:
        raise vlib.Inconclusive("harness did not realise %d case(s) as declared, e.g. %s" % (len(infra), json.dumps(infra[0], default=str)[:900]))


def selftest(ctx, events, fails):
    """corrupt single fields of good recorded steps: TLC must report exactly the concerned predicate"""
    failing = {f["line"] for f in fails}
    want = {}
    for i, e in enumerate(events):
        if (i + 1) in failing or e.get("event") != "offer" or e.get("via") != "block" or e.get("src") != "table":
            continue
        o = e["obs"]
        if not e["acc"] and not o["db_changed"] and "pool" not in want:
            want["pool"] = (e, {"obs": dict(o, pool_changed=True)}, "RejectKeepsPool")
        elif not e["acc"] and not o["db_changed"] and "store" not in want:
            want["store"] = (e, {"obs": dict(o, db_changed=["storage"])}, "RejectKeepsStore")
        elif not e["acc"] and not o["db_changed"] and "ledger" not in want:
            want["ledger"] = (e, {"obs": dict(o, led_changed=["digest.storage"])}, "RejectKeepsLedger")
        elif not e["acc"] and not e["attrs"]["wit"] and e["attrs"]["hid"] == "f" and not e["pre"]["hdrs"] and "header" not in want:
            want["header"] = (e, {"obs": dict(o, hdrs_after=["o"], db_changed=["cur_header", "hdr_record"])}, "HeaderRule")
        elif not e["acc"] and e["attrs"]["ts"] == "equal" and e["attrs"]["wit"] and "sound" not in want:
            want["sound"] = (e, {"acc": True, "obs": dict(o, blk_plus=1, tip_is_offer=True, led_changed=["digest.height"])}, "Sound")
        elif e["acc"] and e["kind"] == "valid" and "complete" not in want:
            want["complete"] = (e, {"acc": False, "obs": dict(o, blk_plus=0, tip_is_offer=False, led_changed=[], hdrs_after=e["pre"]["hdrs"])}, "Complete")
    if len(want) < 6:
        raise vlib.Inconclusive("self-test could not find places to corrupt (%s)" % sorted(want))
    init = [e for e in events if e["event"] == "init"][0]
    ev, expect = [init], []
    for name, (e, patch, pred) in sorted(want.items()):
        ev.append(dict(e, **patch))
        expect.append((len(ev), name, pred))
    path = os.path.join(ctx.work, "selftest.ndjson")
    vlib.write_ndjson(path, ev)
    st, tr = ctx.states, ctx.transitions
    got = ctx.trace_judge("accept", "AcceptTrace.tla", "Trace_Accept.cfg", path, timeout=300)
    ctx.states, ctx.transitions = st, tr
    for line, name, pred in expect:
        if not any(f["line"] == line and pred in f["what"] for f in got):
            raise vlib.Inconclusive("binding self-test %s: corrupted step was not rejected (%s expected)" % (name, pred))
    ctx.extra["binding_selftests"] = len(expect)
