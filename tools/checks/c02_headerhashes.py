"""C02 extension - HEADER-HASH PAGING (pkg/core/headerhashes.go) under crashes, restarts, GC, trusted start and Reset.

Model: spec/headerhashes (HeaderHashes = abstract judge, clauses of the C02 statement quoted in its header;
HeaderHashesImpl = code-shaped model checked exhaustively by TLC with page size 3; HeaderHashesSim = schedule
generator; HeaderHashesTrace = total reporting judge of traces of the real node).
Real code: harness/c02hdrhashes drives core.Blockchain only (AddHeaders / AddBlock / VerifPersist / Close /
NewBlockchain on database images / Reset / GetHeaderHash / HeaderHeight / CurrentHeaderHash) on chains of up to
6140 empty blocks; EVERY atomic batch boundary of every world is a crash probe.

Use from the C02 check:   ext = load('c02_headerhashes'); ext.run_ext(ctx)
Violation signatures carry "part": "headerhashes"."""
import concurrent.futures
import json
import os
import random
import re

import vlib

PAGE = 2000
MTB = 24
CHAIN = 6140

MC_QUICK = ["MC_arch_q.cfg", "MC_gc_q.cfg", "MC_trusted.cfg", "MC_retrust_q.cfg"]
MC_THOROUGH = ["MC_arch_t.cfg", "MC_gc_t.cfg", "MC_gc_p2.cfg", "MC_trusted_t.cfg", "MC_arch_p4.cfg", "MC_retrust_t.cfg"]
# named deviations of the model: checked on HeaderHashesImpl (an invariant must catch them) ...
DEVIATIONS = ["MC_gc_dev_GCLastPage.cfg"]
DEVIATIONS_T = ["MC_trusted_dev_TrustedInit.cfg", "MC_arch_dev_ResetKeepsPages.cfg", "MC_arch_dev_ResetKeepsLRU.cfg",
                "MC_arch_dev_NoPrevCopy.cfg", "MC_arch_dev_StoredFromBlock.cfg", "MC_retrust_dev_FixV1.cfg", "MC_retrust_dev_TrustedInit.cfg"]
# ... or on HeaderHashesSim, which also prints the schedule of the counterexample: it is replayed on the real node
CE = [("CE_trusted_TrustedInit.cfg", "trusted"), ("CE_arch_ResetKeepsPages.cfg", "arch"), ("CE_arch_ResetKeepsLRU.cfg", "arch"),
      ("CE_arch_NoPrevCopy.cfg", "arch"), ("CE_arch_StoredFromBlock.cfg", "arch"),
      ("CE_retrust_FixV1.cfg", "retrust"), ("CE_retrust_TrustedInit.cfg", "retrust")]

PRIORITY = ["Restarted", "ResetOK", "NoPanic", "Extends", "HeightBound", "ForeignFree", "Retained", "NothingBeyondTip", "TipOK",
            "ResetDone", "HeightsStable"]

RULE_EXT = ("headerhashes extension: cases = operations (AddHeaders batches of 1..2500 headers crossing the 2000 boundary in every "
            "phase, AddBlock runs, flush+GC, clean stop, crash at a chosen batch, Reset across a page boundary, lookup sweeps) "
            "executed on a real core.Blockchain plus one crash probe per atomic batch the node wrote (image reopened with "
            "core.NewBlockchain, swept over every index up to one page above the tip, continued with further headers/blocks); "
            "distinct = distinct (world kind, operation, heights, RAM shape, stored pages, answer segments) tuples")


def real(m):
    """model height (Page = 3) -> real height (Page = 2000): page start, start + 1, last of the page"""
    return PAGE * (m // 3) + (0, 1, PAGE - 1)[m % 3]


def to_real(hist, kind):
    """a behaviour of HeaderHashesSim -> world specification in real heights"""
    ini = hist[0]
    sched = []
    for s in hist[1:]:
        op = s["op"]
        if op in ("hdr", "blk"):
            st = {"op": op, "to": real(s["to"])}
        elif op == "reset":
            st = {"op": op, "h": real(s["h"])}
        elif op == "look":
            st = {"op": op, "i": real(s["i"])}
        elif op == "retrust":
            st = {"op": op, "t": real(s["t"])}
        elif op == "crash":
            st = {"op": op, "at": s.get("at", "")}
        else:
            st = {"op": op}
        # consecutive block runs are one run
        if sched and op == "blk" and sched[-1]["op"] == "blk":
            sched[-1] = st
        else:
            sched.append(st)
    return {"kind": kind, "t": real(ini["t"]) if ini["t"] else 0, "gcp": 5, "src": "tlc", "sched": sched}


GC_SUFFIX = [{"op": "hdr", "to": 6100}, {"op": "blk", "to": 6060}, {"op": "flush"}, {"op": "crash", "at": "gc"},
             {"op": "blk", "to": 6100}, {"op": "flush"}, {"op": "stop"}, {"op": "look", "i": 0}]


def random_world(rnd, kind, nops, maxblk):
    """seeded random schedule directly in real heights (larger universe than the model: arbitrary phases and sizes)"""
    t = 0
    if kind == "trusted":
        t = rnd.choice([1999, 2000, 2001, 3999, 4000, 4001, rnd.randrange(30, 1999), rnd.randrange(2002, 3999), rnd.randrange(4002, 5900)])
    hh, bh = (t - 1 if t else 0), 0
    sched = []
    sizes = [1, 2, 3, 1998, 1999, 2000, 2001, 2002]
    for _ in range(nops):
        r = rnd.random()
        if r < 0.38 and hh < CHAIN - 60:
            n = rnd.choice(sizes) if rnd.random() < 0.7 else rnd.randrange(1, 2500)
            hh = min(CHAIN - 40, hh + n)
            sched.append({"op": "hdr", "to": hh})
        elif r < 0.55 and kind != "trusted" and bh < maxblk:
            n = rnd.choice([1, 2, 30, 400, 1999, 2000, 2001]) if rnd.random() < 0.6 else rnd.randrange(1, 2200)
            bh = min(maxblk, bh + n)
            hh = max(hh, bh)
            sched.append({"op": "blk", "to": bh})
        elif r < 0.72:
            sched.append({"op": "flush"})
            if rnd.random() < 0.3:
                sched.append({"op": "crash", "at": "gc"})
                # what was flushed survives; the model does not track it here: the driver works with what the node reports
        elif r < 0.80:
            sched.append({"op": "stop"})
        elif r < 0.88:
            sched.append({"op": "crash", "at": ""})
            hh, bh = None, None
        elif r < 0.94 and kind == "arch" and bh and bh > 3:
            edge = (bh // PAGE) * PAGE
            cands = [bh - 1, bh - rnd.randrange(1, min(bh, 2100) + 1), max(0, edge - 1), edge, max(0, edge - 2), rnd.randrange(0, bh)]
            h = max(0, min(bh, rnd.choice(cands)))
            sched.append({"op": "reset", "h": h})
            if rnd.random() < 0.4:
                sched.append({"op": "crash", "at": rnd.choice(["r1", "r2", "r3"])})
                hh, bh = None, None
            else:
                hh = bh = h
        else:
            sched.append({"op": "look", "i": 0})
        if hh is None:
            # after a crash the generator does not know the heights: continue relative to a pessimistic guess;
            # "to" targets below the real height are skipped by the driver, so aim high
            hh = max((s.get("to", 0) for s in sched if s["op"] == "hdr"), default=0)
            bh = max((s.get("to", 0) for s in sched if s["op"] == "blk"), default=0)
    if kind == "retrust":
        # a database synchronised from genesis gets a TrustedHeader configured in a later page, then lives on
        top = max([x.get("to", 0) for x in sched if x["op"] == "hdr"] + [0])
        if top < PAGE + 10:
            top = rnd.choice([PAGE + 700, 2 * PAGE, 2 * PAGE + 1, 3 * PAGE - 1, 5000])
            sched.append({"op": "hdr", "to": top})
        pg = rnd.randrange(1, top // PAGE + 1) * PAGE
        tt = min(top, rnd.choice([pg, pg + 1, pg + PAGE - 1, pg + rnd.randrange(2, PAGE - 1), top]))
        tail = [{"op": "retrust", "t": tt}, {"op": "look", "i": 0}]
        h = top
        for _ in range(rnd.randrange(3, 8)):
            r = rnd.random()
            if r < 0.4 and h < CHAIN - 60:
                h = min(CHAIN - 40, h + rnd.choice([1, 2, 1999, 2000, 2001, rnd.randrange(1, 1500)]))
                tail.append({"op": "hdr", "to": h})
            elif r < 0.6:
                tail.append({"op": "flush"})
            elif r < 0.8:
                tail.append({"op": "stop"})
            else:
                tail.append({"op": "crash", "at": ""})
        sched = [x for x in sched if x["op"] not in ("reset",)] + tail + [{"op": "stop"}, {"op": "look", "i": 0}]
    return {"kind": kind, "t": t, "gcp": rnd.choice([5, 7]), "src": "random", "sched": sched}


def hand_worlds():
    """boundary schedules: batches of exactly 1999 / 2000 / 2001 headers from each phase, flushed and crashed at each edge"""
    ws = []
    for start in (0, 1, 1999):
        sched = []
        if start:
            sched.append({"op": "hdr", "to": start})
        h = start
        for n in (1999, 2000, 2001):
            h += n
            sched += [{"op": "hdr", "to": h}, {"op": "flush"}, {"op": "crash", "at": ""}]
        sched += [{"op": "blk", "to": 40}, {"op": "flush"}, {"op": "stop"}, {"op": "look", "i": 0}]
        ws.append({"kind": "arch", "t": 0, "gcp": 5, "src": "hand", "sched": sched})
    # reset across a page boundary with headers ahead, crashed inside the reset
    ws.append({"kind": "arch", "t": 0, "gcp": 5, "src": "hand", "sched": [
        {"op": "blk", "to": 2003}, {"op": "hdr", "to": 4002}, {"op": "flush"}, {"op": "look", "i": 0},
        {"op": "reset", "h": 1999}, {"op": "hdr", "to": 2001}, {"op": "flush"}, {"op": "crash", "at": ""},
        {"op": "blk", "to": 2001}, {"op": "hdr", "to": 4001}, {"op": "flush"}, {"op": "reset", "h": 2000}, {"op": "crash", "at": "r2"},
        {"op": "hdr", "to": 2100}, {"op": "stop"}]})
    # trusted start in the middle of a page: restarted before and after the page is completed
    ws.append({"kind": "trusted", "t": 2500, "gcp": 5, "src": "hand", "sched": [
        {"op": "stop"}, {"op": "hdr", "to": 2500}, {"op": "flush"}, {"op": "crash", "at": ""}, {"op": "hdr", "to": 2600}, {"op": "stop"},
        {"op": "hdr", "to": 3999}, {"op": "flush"}, {"op": "crash", "at": ""}, {"op": "hdr", "to": 4100}, {"op": "flush"}, {"op": "stop"},
        {"op": "look", "i": 0}]})
    # an existing database synchronised from genesis gets a TrustedHeader configured afterwards (inside / at the start /
    # at the end of a later page; header height equal to it, in its page, at the end of its page, pages above it)
    for top, tt in ((5000, 4500), (4000, 4000), (3999, 3999), (4600, 4001), (5999, 4500), (6000, 2500), (4001, 4001), (4500, 4000),
                    (2000, 2000), (3999, 2000), (4000, 3999)):
        ws.append({"kind": "retrust", "t": 0, "gcp": 5, "src": "hand", "sched": [
            {"op": "hdr", "to": top}, {"op": "blk", "to": 30}, {"op": "flush"}, {"op": "retrust", "t": tt}, {"op": "look", "i": 0},
            {"op": "hdr", "to": top + 1}, {"op": "flush"}, {"op": "crash", "at": ""}, {"op": "look", "i": 0},
            {"op": "hdr", "to": min(CHAIN - 40, top + 2001)}, {"op": "stop"}, {"op": "look", "i": 0}]})
    return ws


def dedupe(hs, key_len):
    seen, out = set(), []
    for h in hs:
        k = json.dumps(h[:key_len], sort_keys=True)
        if k not in seen:
            seen.add(k)
            out.append(h)
    return out


def interesting(h):
    ops = [s["op"] for s in h]
    return -(min(2, ops.count("crash")) + min(1, ops.count("reset")) + min(2, ops.count("flush")) + min(1, ops.count("stop")))


def cause(ev):
    t = str(ev.get("err") or "") + " " + str((ev.get("cont") or {}).get("err") or "") + " " + str((ev.get("obs") or {}).get("panic") or "")
    if "failed to retrieve header hash page" in t:
        return "header-page-missing"
    if "could not get header" in t:
        return "header-walk"
    if "slice bounds out of range" in t:
        return "panic-slice-bounds"
    if "index out of range" in t:
        return "panic-index"
    if "panic" in t:
        return "panic"
    t = re.sub(r"[0-9a-f]{16,}", "#", t)
    t = re.sub(r"\d+", "N", t).strip()
    return t[:50]


def is_ours(replay_path):
    """True if a replay file was written by this extension (the C02 check hands such replays over to run_ext)"""
    try:
        return (json.load(open(replay_path)).get("signature") or {}).get("part") == "headerhashes"
    except Exception:
        return False


def run_ext(ctx):
    q = ctx.quick()
    rnd = random.Random(ctx.seed * 7919 + 4)
    if ctx.replay:
        # re-execute the world of a recorded violation: tools/vcheck C02 --replay replays/C02-<seed>-<n>.json
        if not is_ours(ctx.replay):
            return
        rp = json.load(open(ctx.replay))
        ctx.seed = int(rp.get("seed", ctx.seed))
        w = dict(rp["detail"]["world"], probe=1)
        ctx.tlc_mc("headerhashes", "HeaderHashesImpl.tla", "MC_trusted.cfg", timeout=600, workers=4)
        return drive_and_judge(ctx, [w], q, selftests=False)
    pool = concurrent.futures.ThreadPoolExecutor(max_workers=6)
    # 1. exhaustive runs of the implementation-shaped model (started now, joined below: they run next to the Go driver)
    nw = 4 if q else 8

    def mc(cfg):
        return ctx.tlc_mc("headerhashes", "HeaderHashesImpl.tla", cfg, timeout=600 if q else 3000, workers=nw)

    def dev(cfg):
        try:
            r = ctx.tlc("%s" % ctx.spec_scratch("headerhashes"), "HeaderHashesImpl.tla", cfg, 600, workers=2, tag="dev-" + cfg.replace(".cfg", ""))
        except Exception as e:  # pragma: no cover
            return cfg, None, str(e)
        m = re.search(r"Invariant (\w+) is violated", r["out"])
        return cfg, (m.group(1) if m else None), r.get("error")

    def ce(cfg):
        r = ctx.tlc(ctx.spec_scratch("headerhashes"), "HeaderHashesSim.tla", cfg, 600, workers=2, tag="ce-" + cfg.replace(".cfg", ""))
        out = []
        for line in r["out"].splitlines():
            i = line.find("@@CE@@")
            if i >= 0:
                js = vlib.extract_tla_string(line[i + 6:])
                if js:
                    out.append(json.loads(js))
        return cfg, out, r.get("error")

    ctx.spec_scratch("headerhashes")
    ce_futs = [(pool.submit(ce, cfg), kind) for cfg, kind in CE]
    # 2. schedules generated by TLC
    worlds = []
    n_each = {"arch": 2, "gc": 2, "trusted": 3, "retrust": 2} if q else {"arch": 36, "gc": 16, "trusted": 32, "retrust": 24}
    for i, kind in enumerate(("arch", "gc", "trusted", "retrust")):
        hs = ctx.tlc_sim("headerhashes", "HeaderHashesSim.tla", "Sim_%s.cfg" % kind, num=30 if q else 600, depth=70,
                         timeout=300, seed=ctx.seed * 10 + i)
        hs = dedupe(hs, 11)
        if kind == "retrust":
            hs = [h for h in hs if any(x["op"] == "retrust" for x in h[:8])]
        hs.sort(key=lambda h: (interesting(h), json.dumps(h)))
        head = hs[: n_each[kind] * 4]
        rnd.shuffle(head)
        if kind == "trusted":
            # one world per distinct trusted index first
            byt = {}
            for h in head + hs:
                byt.setdefault(h[0]["t"], h)
            head = list(byt.values()) + head
        for h in head[: n_each[kind]]:
            w = to_real(h, kind)
            if kind == "gc":
                w["sched"] = w["sched"] + GC_SUFFIX
            worlds.append(w)
    if not worlds:
        raise vlib.Inconclusive("no schedules generated")
    # counterexamples of the named deviations, as schedules (shortest first; for the trusted start a few per trusted index)
    caught = {}
    for f, kind in ce_futs:
        cfg, ces, err = f.result()
        name = cfg.replace("CE_", "").replace(".cfg", "")
        if not ces:
            raise vlib.Inconclusive("named deviation %s not detected by the HeaderHashesImpl invariants (vacuous model): %s" % (cfg, err))
        caught[name] = sorted({b for c in ces for b in c["bad"]})
        ces.sort(key=lambda c: (len(c["hist"]), json.dumps(c["hist"])))
        per, taken = {}, []
        for c in ces:
            t = (c["hist"][0]["t"], [x["t"] for x in c["hist"] if x["op"] == "retrust"][:1])
            t = json.dumps(t)
            if per.get(t, 0) < (1 if q else 12):
                per[t] = per.get(t, 0) + 1
                taken.append(c)
        for c in taken:
            w = to_real(c["hist"], kind)
            w["src"] = "ce:" + name
            top = max([x.get("to", 0) for x in w["sched"]] + [w["t"]])
            w["sched"] = w["sched"] + [{"op": "flush"}, {"op": "crash", "at": ""}, {"op": "look", "i": 0},
                                       {"op": "hdr", "to": min(CHAIN - 40, top + 2100)}, {"op": "flush"}, {"op": "stop"}]
            worlds.append(w)
    mc_futs = [pool.submit(mc, cfg) for cfg in (MC_QUICK if q else MC_THOROUGH)]
    dev_futs = [pool.submit(dev, cfg) for cfg in (DEVIATIONS if q else DEVIATIONS + DEVIATIONS_T)]
    # 3. seeded random and hand-made worlds
    hw = hand_worlds()
    worlds += hw[:2] + hw[3:9] if q else hw
    for i in range(2 if q else 60):
        kind = ("arch", "gc", "trusted", "retrust")[i % 4] if not q else ("arch", "trusted")[i % 2]
        worlds.append(random_world(rnd, kind, 14 if q else 22, 2300 if q else 6100))
    if not q:
        for kind in ("gc", "gc"):
            w = random_world(rnd, kind, 12, 4200)
            w["sched"] += GC_SUFFIX
            worlds.append(w)
    for i, w in enumerate(worlds):
        w["wi"] = i
        w["probe"] = 1
        w["cont_long"] = 5 if q else 2

    def join():
        for f in mc_futs:
            f.result()
        for f in dev_futs:
            cfg, inv, err = f.result()
            if not inv:
                raise vlib.Inconclusive("named deviation %s not detected by the HeaderHashesImpl invariants (vacuous model): %s" % (cfg, err))
            caught[cfg.replace("MC_", "").replace(".cfg", "")] = inv
        ctx.extra.setdefault("deviations_caught", {}).update(caught)
        ctx.extra["model_selftests"] = ctx.extra.get("model_selftests", 0) + len(caught)

    try:
        drive_and_judge(ctx, worlds, q, join=join)
    finally:
        pool.shutdown()
    ctx.assumptions.append("headerhashes: crash points are the PutChangeSet / SeekGC commits of the backend (MemoryStore images replayed from the recorded "
                           "batches, checked against the backend's content at the end of every world); the RAM shape (storedHeaderCount, len(latest)) is read "
                           "with reflect and only compared at model level (drift)")


def drive_and_judge(ctx, worlds, q, join=None, selftests=True):
    ind = os.path.join(ctx.work, "in-c02hh")
    os.makedirs(ind, exist_ok=True)
    json.dump({"n": CHAIN, "mtb": MTB, "worlds": worlds}, open(os.path.join(ind, "worlds.json"), "w"))
    # 4. the real node
    res = ctx.go_driver("c02hdrhashes", "TestDriver", env={"VERIF_IN": ind, "VERIF_WORKERS": 6 if q else 8}, timeout=900 if q else 5000)
    ctx.absorb(res)
    # join the model runs
    if join:
        join()
    # 5. TLC judges the recorded observations
    trace = os.path.join(res["_out"], "trace.ndjson")
    events = vlib.read_ndjson(trace)
    fails = ctx.trace_judge("headerhashes", "HeaderHashesTrace.tla", "Trace_HeaderHashes.cfg", trace, timeout=1800)
    ctx.traces_validated += res.get("traces", 0)
    kinds = {}
    for e in events:
        k = e["event"] + (":" + e["op"] if e["event"] == "step" else "")
        kinds[k] = kinds.get(k, 0) + 1
    ctx.extra["hh_event_kinds"] = kinds
    byw = {w["wi"]: w for w in worlds}
    ndrift = {}
    first = {}     # world -> (line, names): the first falsified step of a world is the violation
    for f in fails:
        ev = events[f["line"] - 1]
        names = []
        for w in sorted(f["what"]):
            if w.startswith("drift:"):
                ndrift[w] = ndrift.get(w, 0) + 1
                if len(ctx.spec_drift) < 12:
                    ctx.spec_drift.append({"part": "headerhashes", "what": w, "world": ev["world"], "ctx": f.get("ctx")})
            elif w in ("UnknownOp", "UnknownEvent"):
                raise vlib.Inconclusive("trace spec could not read event %s" % ev)
            else:
                names.append(w)
        if names and (ev["world"] not in first or f["line"] < first[ev["world"]][0]):
            first[ev["world"]] = (f["line"], names, f.get("ctx"))
    for wi in sorted(first):
        line, names, fctx = first[wi]
        ev = events[line - 1]
        wd = byw[wi]
        w = min(names, key=lambda n: PRIORITY.index(n) if n in PRIORITY else len(PRIORITY))
        sig = {"part": "headerhashes", "kind": w, "node": wd["kind"], "at": ev["event"] if ev["event"] != "step" else ev["op"],
               "cause": cause(ev) if w in ("Restarted", "Extends", "ResetOK", "NoPanic") else ""}
        rt = [x["t"] for x in wd["sched"] if x["op"] == "retrust"]
        if wd["kind"] == "trusted" or rt:
            t = wd["t"] if wd["kind"] == "trusted" else rt[0]
            sig["trusted_phase"] = {0: "page-start", 1: "page-start+1", PAGE - 1: "page-end"}.get(t % PAGE, "inside") + ("" if t >= PAGE else "/page0")
        small = {k: v for k, v in ev.items() if k != "obs"}
        obs = ev.get("obs") or {}
        # the shortest prefix of the world's schedule that reaches the failing step
        wmin = dict(wd, sched=wd["sched"][: max(1, int(ev.get("step") or 0))])
        ctx.violation(sig, {"what": "%s false on the real node (%s world %d, step %s, %s): %s" % (
            "+".join(names), wd["kind"], wi, ev.get("step"), ev.get("op") or "crash probe after batch %s" % ev.get("batch"),
            ev.get("err") or (ev.get("cont") or {}).get("err") or obs.get("panic") or ""),
            "event": small, "obs": obs, "ctx": fctx, "world": wmin, "chain": CHAIN, "mtb": MTB})
    ctx.extra["hh_drift_counts"] = ndrift
    pr = [e for e in events if e["event"] == "probe" and e.get("ok")]
    if pr:
        e = pr[len(pr) // 2]
        ctx.samples.append({"headerhashes_crash_probe": {"world": e["world"], "kind": byw[e["world"]]["kind"], "step": e["step"], "batch": e["batch"],
                                                         "hh": e["obs"]["hh"], "bh": e["obs"]["bh"], "segs": e["obs"]["segs"][:6],
                                                         "mem": e["obs"]["mem"], "pages": e["obs"]["pages"], "cont": {k: v for k, v in e["cont"].items() if k != "obs"}}})
    # 6. binding self-test on the worlds the judge accepted
    if selftests:
        selftest(ctx, [e for e in events if e["world"] not in first])


def selftest(ctx, events):
    """corrupt single fields of good observations: every abstract predicate must reject its corruption"""
    out, want, done = [], {}, set()
    for e in events:
        e = json.loads(json.dumps(e))
        o = e.get("obs") or {}
        segs = o.get("segs") or []
        if e["event"] == "step" and e.get("ok") and segs:
            cs = [s for s in segs if s["k"] == "c" and s["b"] >= o["hh"] - 1]
            zs = [s for s in segs if s["k"] == "z" and s["a"] > o["hh"]]
            if "retained" not in done and cs:
                cs[-1]["k"] = "z"
                done.add("retained")
                want[len(out) + 1] = "Retained"
            elif "beyond" not in done and zs:
                zs[0]["k"] = "c"
                done.add("beyond")
                want[len(out) + 1] = "NothingBeyondTip"
            elif "foreign" not in done and cs:
                cs[0]["k"] = "o"
                done.add("foreign")
                want[len(out) + 1] = "ForeignFree"
            elif "tip" not in done and o.get("tip") == "c":
                o["tip"] = "z"
                done.add("tip")
                want[len(out) + 1] = "TipOK"
            elif "extends" not in done and e["op"] == "hdr":
                o["hh"] -= 1
                done.add("extends")
                want[len(out) + 1] = "Extends"
        elif e["event"] == "probe" and e.get("ok"):
            if "restart" not in done:
                e["ok"] = False
                done.add("restart")
                want[len(out) + 1] = "Restarted"
            elif "bound" not in done and o.get("hh", 0) > 0:
                # the probe claims a height above everything accepted
                o["hh"] += 100000
                done.add("bound")
                want[len(out) + 1] = "HeightBound"
        out.append(e)
        if len(done) >= 7 and len(out) > 30:
            break
    if len(done) < 6:
        raise vlib.Inconclusive("headerhashes self-test: not enough events to corrupt (%s)" % sorted(done))
    # cut the copy at the end of the current world (the judge needs whole lines only)
    path = os.path.join(ctx.work, "hh-selftest.ndjson")
    vlib.write_ndjson(path, out)
    st, tr = ctx.states, ctx.transitions
    fails = ctx.trace_judge("headerhashes", "HeaderHashesTrace.tla", "Trace_HeaderHashes.cfg", path, timeout=600)
    ctx.states, ctx.transitions = st, tr
    got = {}
    for f in fails:
        got.setdefault(f["line"], set()).update(f["what"])
    for line, name in want.items():
        if name not in got.get(line, set()):
            raise vlib.Inconclusive("headerhashes binding self-test: corruption %s at line %d was not rejected" % (name, line))
    ctx.extra["binding_selftests"] = ctx.extra.get("binding_selftests", 0) + len(want)
