"""Extension of C07 - the LIFE of the memory pool across blocks (the last clause of the statement: whatever is taken from
the pool in pool order and packed into a block is accepted by the ledger - at EVERY height, although transactions were
pooled at various earlier heights and blocks accepted in between changed what admission depends on).
Model: spec/poollife (PoolLife abstract judge: chain state = the facts admissibility depends on, Admissible, BlockOK,
Proposable, PoolSound; PoolLifeImpl code-shaped model of verifyAndPoolTx / mempool.Add / storeBlock -> RemoveStale with
IsTxStillRelevant, named deviations; MCPoolLife universes; PoolLifeSim generator; PoolLifeTrace validator).
Real code: a proposer core.Blockchain + an independent replica fed the same serialized blocks, driven by
harness/c07poollife (TLC behaviours and seeded random lives); after every block the block proposed from the pool is
sealed, encoded, decoded and judged by an independent node.

Call from the registered check of C07:   ext = _load_ext('c07_poollife'); ext.run_ext(ctx)
Violations carry "part": "poollife"; a refused proposal has the signature
  {"part": "poollife", "kind": "Proposable", "ground": <which admissibility fact a block changed>}
with one signature per ground (blocked-signer | expired | fee-per-byte | fee-per-byte-ratchet | fee-per-byte-filter | exec-fee |
attribute-fee | conflict-on-chain | committee-changed | oracle-answered | oracle-nodes-changed | notary-nodes-changed |
notary-deposit | witness-contract | balance | on-chain | unexplained), the ground being derived by the driver from the scenario step after which an independent node first refused
the transaction (not from error texts).  Predicates named "i:..." are informational (drift)."""
import json
import os
import random

import vlib

PART = "poollife"
UNIVERSES = ("U1", "U1b", "U2", "U3")
# NoFeeRecheck / NoFeeRecheckAttr = the code before c8f704d (FeeRecheck = "asis") in U1 (fee per byte, execution fee factor)
# and U2 (attribute fee); NoFpbFilter is checked together with "asis" (since c8f704d the pool's own filter is redundant)
DEVIATIONS = ("NoPolicyRecheck", "StaleHeight", "NoAttrRecheck", "NoWitnessRecheck", "NoFeeRecheck", "NoFeeRecheckAttr", "NoFpbFilter")
SIMS = ("U1", "U2", "U3")
SUB = "poollife"


def run_ext(ctx):
    q = ctx.quick()
    suffix = "" if q else "_t"
    # 1. exhaustive: Impl => Abstract (Proposable in every state, PoolSound on every admission)
    for u in UNIVERSES:
        ctx.tlc_mc(SUB, "MCPoolLife.tla", "MC_%s%s.cfg" % (u, suffix), timeout=1500, coverage=not q, must_cover=False)
    # model-level non-vacuity: every named deviation must be refuted
    for d in DEVIATIONS:
        try:
            ctx.tlc_mc(SUB, "MCPoolLife.tla", "MC_dev_%s.cfg" % d, timeout=600)
            raise vlib.Inconclusive("deviation %s not refuted by the PoolLifeImpl invariants (vacuous model)" % d)
        except vlib.ModelError as e:
            if "ProposableInv" not in (e.res or {}).get("out", ""):
                raise vlib.Inconclusive("deviation %s: TLC failed for another reason than Proposable: %s" % (d, e))
            ctx.extra["poollife_model_selftests"] = ctx.extra.get("poollife_model_selftests", 0) + 1
    # 2. behaviours
    behaviours, seen = [], set()
    for i, u in enumerate(SIMS):
        for h in ctx.tlc_sim(SUB, "PoolLifeSim.tla", "Sim_%s.cfg" % u, num=12 if q else 400, depth=12,
                             timeout=300 if q else 1500, seed=ctx.seed * 10 + i):
            k = json.dumps(h, sort_keys=True)
            if k not in seen:
                seen.add(k)
                behaviours.append(h)
    random.Random(ctx.seed).shuffle(behaviours)
    behaviours = behaviours[: (240 if q else 6000)]
    if not behaviours:
        raise vlib.Inconclusive("no PoolLifeImpl behaviours generated")
    ind = os.path.join(ctx.work, "in-c07poollife")
    os.makedirs(ind, exist_ok=True)
    json.dump(behaviours, open(os.path.join(ind, "behaviours.json"), "w"))
    # 3. real code
    res = ctx.go_driver("c07poollife", "TestDriver", env={"VERIF_IN": ind, "VERIF_RANDOM": 200 if q else 6000}, timeout=3000)
    ctx.absorb(res)
    stats = res.get("stats", {})
    if stats.get("poollife_worlds_failed", 0) > max(2, (len(behaviours) + (200 if q else 6000)) // 50):
        raise vlib.Inconclusive("%s chain worlds could not be prepared: %s" % (stats["poollife_worlds_failed"], (res.get("drift") or [None])[0]))
    if stats.get("poollife_lives_crashed"):
        raise vlib.Inconclusive("%s lives crashed in the driver: %s" % (stats["poollife_lives_crashed"], (res.get("drift") or [None])[0]))
    # 4. TLC judges the recorded traces against the abstract specification
    trace = os.path.join(res["_out"], "trace.ndjson")
    events = vlib.read_ndjson(trace)
    fails = []
    CH = 30000
    lo = 0
    while lo < len(events):   # cut at init events: every chunk is a sequence of whole lives
        hi = min(lo + CH, len(events))
        while hi < len(events) and events[hi]["event"] != "init":
            hi += 1
        part = trace
        if lo != 0 or hi != len(events):
            part = os.path.join(ctx.work, "trace-pl-%d.ndjson" % lo)
            vlib.write_ndjson(part, events[lo:hi])
        for f in ctx.trace_judge(SUB, "PoolLifeTrace.tla", "Trace_PoolLife.cfg", part, timeout=3000):
            f["line"] += lo
            fails.append(f)
        lo = hi
    ctx.traces_validated += res.get("traces", 0)
    ctx.extra["poollife_trace_events"] = len(events)
    start, starts = 0, []
    for i, e in enumerate(events):
        if e["event"] == "init":
            start = i
        starts.append(start)
    info, grounds_seen, judged_fail = {}, {}, False
    for f in fails:
        li = f["line"] - 1
        ev, s = events[li], starts[li]
        for w in f["what"]:
            if w.startswith("i:"):
                info[w] = info.get(w, 0) + 1
                if len(ctx.spec_drift) < 20 and info[w] <= 3:
                    ctx.spec_drift.append({"part": PART, "informational": w, "event": brief(ev), "src": events[s].get("src"),
                                           "tlc": f.get("ctx", {}).get("grounds") or f.get("ctx", {}).get("predicted")})
        if "Proposable" in f["what"]:
            judged_fail = True
            tlc_grounds = f.get("ctx", {}).get("grounds")
            for g in ev.get("grounds") or ["unexplained"]:
                grounds_seen[g] = grounds_seen.get(g, 0) + 1
                sig = {"part": PART, "kind": "Proposable", "ground": g}
                T = {t["id"]: t for t in events[s]["txs"]}
                ctx.violation(sig, {
                    "what": "the block proposed from the memory pool (pool order, ApplyPolicyToTxSet, sealed, encoded, decoded) is refused "
                            "by an independent node: the refresh after a block kept a transaction that is no longer admissible",
                    "ground": g, "replica_error": ev.get("err"), "selected": ev.get("sel"), "culprits": [T.get(c) for c in ev.get("culprits", [])],
                    "failing_facts_by_TLC": tlc_grounds, "state": ev.get("st"), "src": events[s].get("src"),
                    "history": json.loads(ev["history"]) if ev.get("history") else None, "universe": events[s]["txs"], "initial_state": events[s]["st"]})
        if "PoolSound" in f["what"]:
            judged_fail = True
            g = "+".join(sorted(f.get("ctx", {}).get("grounds") or ["?"]))
            ctx.violation({"part": PART, "kind": "PoolSound", "ground": g},
                          {"what": "a transaction entered the pool although the recorded facts make it inadmissible", "event": ev,
                           "tx": next((t for t in events[s]["txs"] if t["id"] == ev.get("tx")), None), "src": events[s].get("src"),
                           "history": brief_history(events[s:li + 1])})
    ctx.extra["poollife_informational_failures"] = info
    ctx.extra["poollife_refused_by_ground"] = grounds_seen
    ctx.assumptions.append(
        "pool life: universes of 3-15 transactions (plain, cosigned, NotValidBefore, Conflicts, HighPriority by committee 1/2, oracle "
        "responses, NotaryAssisted with a plain sender or paid from a notary deposit, contract-based witness K as cosigner / sender) over 4 "
        "poor payers; one scenario operation per foreign "
        "block (block / unblock, fee per byte, execution fee factor (integral), attribute fees, vote -> committee change at the epoch "
        "boundary, foreign oracle response, oracle / notary node re-designation, contract storage / update / destroy, GAS drained, foreign "
        "transaction naming a pooled one, notary deposit withdrawn, foreign inclusion of a universe transaction); independent node = throw-away core.Blockchain on a "
        "private layer over the replica's database (VerifyTransactions on, empty pool)")
    # 5. binding self-test: corrupted good traces must be rejected
    if not judged_fail:
        selftest(ctx, events)
    if not ctx.samples:
        ctx.samples.append(brief(events[1]) if len(events) > 1 else {"events": len(events)})


def brief(ev):
    d = {k: v for k, v in ev.items() if k not in ("history", "txs")}
    return d


def brief_history(evs):
    return [{k: v for k, v in e.items() if k not in ("history", "txs", "st")} for e in evs][-40:]


def need(t, st):
    return t["size"] * st["fpb"] + sum(st["afee"][k] * t["amult"].get(k, 0) for k in st["afee"]) + t["wk"] * st["exec"]


def selftest(ctx, events):
    """Each corrupted segment = one life cut right after the corrupted event; all segments in one TLC run."""
    segs, expect_at, done = [], {}, set()

    def add(name, seg, expect):
        segs.extend(seg)
        expect_at[len(segs)] = (name, expect)
        done.add(name)

    start = 0
    state_changed = False
    for i, e in enumerate(events[:40000]):
        if e["event"] == "init":
            start, state_changed = i, False
            continue
        if e["event"] in ("block",) or (e["event"] == "propose" and e.get("commit") and e.get("accepted")):
            state_changed = True
        life = [json.loads(json.dumps(x)) for x in events[start:i + 1]]
        T = {t["id"]: t for t in life[0]["txs"]}
        if "refused" not in done and e["event"] == "propose" and e["accepted"] and e["sel"]:
            life[-1]["accepted"] = False
            add("refused", life, "Proposable")
        elif e["event"] == "pool" and e["ok"] and not state_changed:
            t = T[e["tx"]]
            payer = t["signers"][0]
            if "blocked" not in done and payer in ("A", "B", "C", "D"):
                life[0]["st"]["blocked"] = sorted(set(life[0]["st"]["blocked"]) | {payer})
                add("blocked", life, "PoolSound")
            elif "underpaid" not in done and t["netfee"] == need(t, life[0]["st"]):
                for x in life[0]["txs"]:
                    if x["id"] == e["tx"]:
                        x["netfee"] -= 1
                add("underpaid", life, "PoolSound")
            elif "expired" not in done:
                for x in life[0]["txs"]:
                    if x["id"] == e["tx"]:
                        x["vub"] = life[0]["st"]["h"]
                add("expired", life, "PoolSound")
        if len(done) == 4:
            break
    if not {"refused", "blocked", "expired"} <= done:
        raise vlib.Inconclusive("pool life self-test could not find places to corrupt the trace (%s)" % sorted(done))
    path = os.path.join(ctx.work, "selftest-pl.ndjson")
    vlib.write_ndjson(path, segs)
    st, tr = ctx.states, ctx.transitions
    fails = ctx.trace_judge(SUB, "PoolLifeTrace.tla", "Trace_PoolLife.cfg", path, timeout=600)
    ctx.states, ctx.transitions = st, tr
    for line, (name, expect) in expect_at.items():
        if not any(f["line"] == line and expect in f["what"] for f in fails):
            raise vlib.Inconclusive("pool life binding self-test %s: corrupted trace was not rejected (%s expected)" % (name, expect))
        ctx.extra["poollife_binding_selftests"] = ctx.extra.get("poollife_binding_selftests", 0) + 1
