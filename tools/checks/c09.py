"""C09 - the layered key-value store behaves as one ordered map on every backend.

Model: spec/kvstore
  KVStore.tla        abstract judge (one ordered map over layers; range semantics; concurrent-reader predicates)
  KVSeekImpl.tla     code-shaped model of MemoryStore.seek / seekRangeToPrefixes / boltSeek / LevelDB seek /
                     MemCachedStore.Get / prepareSeekMemSnapshot / performSeek / persist; TLC checks
                     Result = Ref for every range over every stack of the universe
  KVPersistConc.tla  writer / Persist in three steps / readers in two steps; TLC checks the concurrent-reader
                     predicates over all interleavings
  KVSim, KVConcSim   behaviour generators (tlc -simulate)
  KVTrace, KVConcTrace  trace judges (abstract level only)
Real code: harness/c09kv (TestDriver: sequential histories on MemCachedStore stacks x 3 backends, also through
dao.Simple and System.Storage.Find; TestConcDriver: schedules replayed through a gating backend)."""
import concurrent.futures
import json
import os
import queue
import random

import vlib

RULE = ("cases = answers of Get / Seek / SeekAsync / SeekGC / dao.Seek / dao.SeekAsync / System.Storage.Find obtained from real "
        "MemCachedStore stacks (depth 1-5, shared / private / dao-wrapped) over MemoryStore, BoltDB and LevelDB, and answers of "
        "readers interleaved with Persist through a gating backend; sources: model-level counterexamples of KVSeekImpl / "
        "KVPersistConc printed by TLC, TLC simulation behaviours, seeded random histories; every answer is recomputed by TLC from "
        "the abstract specification (KVTrace / KVConcTrace); distinct = distinct (api, range, answer) resp. (schedule prefix, "
        "answer) tuples; a case is non-trivial in that the full ordered answer is compared")

SUB = "kvstore"


# ------------------------------------------------------------------------------------------- model stage
def model_stage(ctx):
    q = ctx.quick()
    ctx.spec_scratch(SUB)
    out = {}

    def cfg_variant(name, base, repl):
        """derive a cfg in the scratch dir from a committed one (constants of the thorough tier)"""
        d = ctx.spec_scratch(SUB)
        s = open(os.path.join(d, base)).read()
        for a, b in repl:
            if a not in s:
                raise vlib.Inconclusive("cfg %s has no line %r" % (base, a))
            s = s.replace(a, b)
        open(os.path.join(d, name), "w").write(s)
        return name

    asis = "MC_seek_asis.cfg"   # thorough only
    fix = "MC_seek_fix.cfg"
    stack = "MC_stack.cfg"
    conc = "MC_conc.cfg"
    if not q:
        asis = cfg_variant("MC_seek_asis_T.cfg", asis, [("MaxLayers = 2", "MaxLayers = 3"), ("MaxEntries = 3", "MaxEntries = 4"),
                                                       ("Keys <- K8", "Keys <- K6"), ("DepthSet <- D012", "DepthSet <- D0123"),
                                                       ("StartSet <- ST7", "StartSet <- ST4"), ("PrefixSet <- P4", "PrefixSet <- P2")])
        fix = cfg_variant("MC_seek_fix_T.cfg", fix, [("Keys <- K6", "Keys <- K13"), ("PrefixSet <- P2", "PrefixSet <- P4"),
                                                     ("StartSet <- ST4", "StartSet <- ST13")])
        stack = cfg_variant("MC_stack_T.cfg", stack, [("MaxLayers = 2", "MaxLayers = 3")])
        conc = cfg_variant("MC_conc_T.cfg", conc, [("CKeys <- CK2", "CKeys <- CK3")])
    w = max(2, ctx.ncpu // 3)

    def run_mc(name, module, cfg, timeout, workers):
        return name, ctx.tlc_mc(SUB, module, cfg, timeout=timeout, workers=workers)

    def run_dump(name, module, cfg, timeout, workers):
        return name, ctx.tlc_dump(SUB, module, cfg, timeout=timeout, workers=workers)

    def run_expect_fail(name, module, cfg, timeout, what):
        try:
            ctx.tlc_mc(SUB, module, cfg, timeout=timeout, workers=2)
        except vlib.ModelError as e:
            o = e.res["out"] if e.res else ""
            if what not in o or "is violated" not in o:
                raise vlib.Inconclusive("self-test %s: TLC failed for another reason than %s:\n%s" % (name, what, vlib.tail(o, 20)))
            return name, True
        raise vlib.Inconclusive("deviation %s not detected by the model invariants (vacuous model)" % name)

    def run_sim(name, module, cfg, num, depth, seed):
        return name, ctx.tlc_sim(SUB, module, cfg, num=num, depth=depth, timeout=300, seed=seed)

    T = 900 if q else 3000
    jobs = [
        (run_mc, ("tables", "MCKVSeek.tla", "MC_tables.cfg", T, 2)),
        (run_mc, ("tables_fix", "MCKVSeek.tla", "MC_tables_fix.cfg", T, 2)),
        (run_mc, ("stack", "MCKVSeek.tla", stack, T, w)),
        (run_dump, ("div", "MCKVSeek.tla", "Enum_div.cfg", T, w)),      # code as it is: SeekExact outside the known classes + counterexamples inside
        (run_mc, ("fix", "MCKVSeek.tla", fix, T, w)),
        (run_dump, ("conc", "MCKVConc.tla", conc, T, w)),
        (run_expect_fail, ("bugtail", "MCKVSeek.tla", "MC_seek_bugtail.cfg", T, "SeekExact")),
        (run_expect_fail, ("bugnotemp", "MCKVConc.tla", "MC_conc_bugnotemp.cfg", T, "Invariant")),
        (run_sim, ("sim_seq", "KVSim.tla", "Sim_seq.cfg", 60 if q else 700, 14, ctx.seed * 10 + 1)),
        (run_sim, ("sim_seq2", "KVSim.tla", cfg_variant("Sim_seq_b.cfg", "Sim_seq.cfg", [("Depth = 14", "Depth = 22")]),
                   40 if q else 500, 22, ctx.seed * 10 + 2)),
        (run_sim, ("sim_conc", "KVConcSim.tla", "Sim_conc.cfg", 120 if q else 2500, 16, ctx.seed * 10 + 3)),
    ]
    if not q:
        jobs += [(run_mc, ("asis", "MCKVSeek.tla", "MC_seek_asis.cfg", T, w)),        # larger key / range universe, 2 layers
                 (run_mc, ("asis_deep", "MCKVSeek.tla", asis, T, w))]                 # 3 layers, 4 entries, depth 0..3
    with concurrent.futures.ThreadPoolExecutor(max_workers=4) as ex:
        futs = [ex.submit(f, *a) for f, a in jobs]
        errs = []
        for fu in futs:
            try:
                k, v = fu.result()
                out[k] = v
            except Exception as e:      # first error wins, but let the others finish (no stray JVMs)
                errs.append(e)
        if errs:
            raise errs[0]
    ctx.extra["model_selftests"] = 2
    return out


def dedupe(hs):
    seen, out = set(), []
    for h in hs:
        k = json.dumps(h, sort_keys=True)
        if k not in seen:
            seen.add(k)
            out.append(h)
    return out


# ------------------------------------------------------------------------------------------- classification
def full_key(e, k):
    return list(e["prefix"][:e["cutlen"]]) + list(k)


def has_prefix(k, p):
    return len(k) >= len(p) and list(k[:len(p)]) == list(p)


def classify_seek(e, exp, backend):
    """Name the failure class of a wrong Seek answer (for the violation signature)."""
    obs = [(tuple(full_key(e, k)), tuple(v)) for k, v in e["res"]]
    ex = [(tuple(full_key(e, k)), tuple(v)) for k, v in exp]
    store = "memory" if e["at"] == 0 and backend == "memory" else "memcached"
    ps = list(e["prefix"]) + list(e["start"])
    sig_a = {"kind": "seek-backwards-start-extension", "store": store, "backend": backend}
    sig_b = {"kind": "seek-trimmed-key-collision", "site": "performSeek cutPrefix"}

    def class_a(obs_, ex_):
        # backward seek from a start point; only keys properly extending prefix++start are affected
        diff = set(obs_) ^ set(ex_)
        return bool(e["back"] and e["start"] and diff and all(has_prefix(k, ps) and list(k) != ps for k, _ in diff)
                    and [x for x in obs_ if x not in diff] == [x for x in ex_ if x not in diff])

    if class_a(obs, ex):
        return sig_a
    # class B: trimmed keys; a missing key K is such that prefix++K was delivered (from the cache) just before it
    if e["cutlen"] == len(e["prefix"]) and e["cutlen"] > 0:
        exkeys = {k for k, _ in ex}
        hidden = {x for x in set(ex) - set(obs) if tuple(list(e["prefix"]) + list(x[0])) in exkeys}
        if hidden:
            ex2 = [x for x in ex if x not in hidden]
            if ex2 == obs:
                return sig_b
            if class_a(obs, ex2):      # both known classes in one answer
                return sig_a
    return {"kind": "seek-mismatch", "store": store, "backend": backend}


def judge_chunks(ctx, module, cfg, events, first, size=60000):
    """TLC judges the trace in chunks cut at history boundaries (bounded memory, three JVMs at a time);
    line numbers of the returned failure records refer to the whole trace."""
    cuts = [0]
    for i, e in enumerate(events):
        if e["event"] == first and i - cuts[-1] >= size:
            cuts.append(i)
    cuts.append(len(events))
    chunks = [(a, b) for a, b in zip(cuts, cuts[1:]) if b > a]

    # concurrent judges need a scratch copy and a cfg of their own each (the runner derives the scratch directory from the
    # subdir name and TLC's metadir from the cfg name): "kvstore/." names the same directory, Trace_KV_<j>.cfg are copies
    par = 3 if all(os.path.exists(os.path.join(vlib.VERIF, "spec", SUB, cfg.replace(".cfg", "_%d.cfg" % j))) for j in (1, 2)) else 1
    slots = queue.Queue()
    for j in range(par):
        slots.put(j)

    def one(n, a, b):
        path = os.path.join(ctx.work, "chunk-%s-%d.ndjson" % (module, n))
        vlib.write_ndjson(path, events[a:b])
        j = slots.get()
        try:
            fs = ctx.trace_judge(SUB + "/." * j, module, cfg if j == 0 else cfg.replace(".cfg", "_%d.cfg" % j), path, timeout=3000)
        finally:
            slots.put(j)
        os.remove(path)
        for f in fs:
            f["line"] += a
        return fs

    fails = []
    with concurrent.futures.ThreadPoolExecutor(max_workers=par) as ex:
        futs = [ex.submit(one, n, a, b) for n, (a, b) in enumerate(chunks)]
        errs = []
        for fu in futs:
            try:
                fails += fu.result()
            except Exception as e:
                errs.append(e)
        if errs:
            raise errs[0]
    return fails


WRITE_EVENTS = ("init", "push", "drop", "put", "del", "batch", "persist", "seekgc")

reconfirm = {}


def events_to_ops(hist):
    ops = []
    for e in hist:
        if e["event"] == "init":
            continue
        o = {k: v for k, v in e.items() if k in ("at", "kind", "key", "val", "items", "prefix", "start", "back", "depth", "api", "pop", "limit")}
        o["op"] = e["event"]
        ops.append(o)
    return ops


def reproduces(ctx, init, hist):
    d = os.path.join(ctx.work, "in-confirm-%d" % reconfirm["n"])
    os.makedirs(d)
    json.dump({"backend": init["backend"], "dao": bool(init.get("dao")), "ops": events_to_ops(hist)}, open(os.path.join(d, "replay.json"), "w"))
    r = ctx.go_driver("c09kv", "TestDriver", env={"VERIF_IN": d}, timeout=600)
    st, tr = ctx.states, ctx.transitions
    fails = ctx.trace_judge(SUB, "KVTrace.tla", "Trace_KV.cfg", os.path.join(r["_out"], "trace.ndjson"), timeout=600)
    ctx.states, ctx.transitions = st, tr
    return bool(fails) or bool(r.get("violations"))


def judge_sequential(ctx, res):
    trace = os.path.join(res["_out"], "trace.ndjson")
    events = vlib.read_ndjson(trace)
    fails = judge_chunks(ctx, "KVTrace.tla", "Trace_KV.cfg", events, "init")
    ctx.traces_validated += res.get("traces", 0)
    ctx.extra["trace_events"] = ctx.extra.get("trace_events", 0) + len(events)
    starts, start = [], 0
    for i, e in enumerate(events):
        if e["event"] == "init":
            start = i
        starts.append(start)
    for f in fails:
        li = f["line"] - 1
        e = events[li]
        s = starts[li]
        init = events[s]
        exp = (f.get("ctx") or {}).get("exp")
        hist = [x for x in events[s:li] if x["event"] in WRITE_EVENTS] + [e]
        if e["event"] == "seek":
            sig = classify_seek(e, exp or [], init["backend"])
        elif e["event"] == "get":
            sig = {"kind": "get-mismatch", "store": "backend" if e["at"] == 0 else "memcached", "backend": init["backend"]}
        else:
            sig = classify_seek(dict(e, at=0, cutlen=0, res=e["visited"]), exp or [], init["backend"])
            if sig["kind"] == "seek-mismatch":
                sig = {"kind": "seekgc-mismatch", "backend": init["backend"]}
        if init["backend"] == "leveldb" and sig["kind"] in ("seek-mismatch", "get-mismatch", "seekgc-mismatch"):
            # An unclassified disagreement on LevelDB only counts if it reproduces on a fresh database: the pinned goleveldb
            # was seen to return stale data nondeterministically (background compaction) under transaction churn - see the
            # report of C09 and TestLevelDBChurn; a defect of the code under test is deterministic and reproduces.
            # Decided once per history (first disagreement), for at most 8 (quick) / 60 (thorough) histories per run.
            if s not in reconfirm.setdefault("hist", {}) and len(reconfirm["hist"]) < (8 if ctx.quick() else 60):
                reconfirm["n"] = reconfirm.get("n", 0) + 1
                reconfirm["hist"][s] = reproduces(ctx, init, hist)
                if not reconfirm["hist"][s]:
                    ctx.spec_drift.append({"what": "LevelDB answers differed and did not reproduce on a fresh database (goleveldb nondeterminism)",
                                           "src": init.get("src"), "observed": e.get("res"), "expected": exp, "history": hist})
            if reconfirm["hist"].get(s) is False:
                ctx.extra["leveldb_unreproduced"] = ctx.extra.get("leveldb_unreproduced", 0) + 1
                continue
        ctx.violation(sig, {"what": "%s on the real store differs from the ordered-map answer (%s)" % (e["event"], ",".join(f["what"])),
                            "src": init.get("src"), "backend": init["backend"], "dao": init.get("dao"),
                            "observed": e.get("res", e.get("visited")), "expected": exp, "history": hist})
    return events, fails


def events_to_schedule(evs):
    sched = []
    for e in evs:
        ev = e["event"]
        if ev == "cwrite":
            sched.append({"a": "write", "r": 0, "batch": e["items"]})
        elif ev == "cp":
            sched.append({"a": e["step"], "r": 0, "batch": []})
        elif ev in ("cr1", "cr2"):
            sched.append({"a": ev[1:], "r": e["r"], "batch": []})
        elif ev == "cget":
            sched.append({"a": "get", "r": 0, "batch": [[e["key"], e["res"]]]})
    return sched


def reproduces_conc(ctx, evs):
    """re-run one schedule on a fresh LevelDB (see judge_sequential: goleveldb nondeterminism)"""
    reconfirm["cn"] = reconfirm.get("cn", 0) + 1
    d = os.path.join(ctx.work, "in-cconfirm-%d" % reconfirm["cn"])
    os.makedirs(d)
    json.dump([events_to_schedule(evs)], open(os.path.join(d, "conc.json"), "w"))
    r = ctx.go_driver("c09kv", "TestConcDriver", env={"VERIF_IN": d, "VERIF_BACKENDS": "leveldb"}, timeout=600)
    st, tr = ctx.states, ctx.transitions
    fails = ctx.trace_judge(SUB, "KVConcTrace.tla", "Trace_KVConc.cfg", os.path.join(r["_out"], "trace.ndjson"), timeout=600)
    ctx.states, ctx.transitions = st, tr
    return any(w for f in fails for w in f["what"] if not w.startswith("info:")) or bool(r.get("violations"))


def judge_concurrent(ctx, res):
    trace = os.path.join(res["_out"], "trace.ndjson")
    events = vlib.read_ndjson(trace)
    fails = judge_chunks(ctx, "KVConcTrace.tla", "Trace_KVConc.cfg", events, "cinit")
    ctx.traces_validated += res.get("traces", 0)
    ctx.extra["conc_trace_events"] = len(events)
    starts, start = [], 0
    for i, e in enumerate(events):
        if e["event"] == "cinit":
            start = i
        starts.append(start)
    hard = []
    info = 0
    bad_src = {events[starts[f["line"] - 1]].get("src") for f in fails
               if events[starts[f["line"] - 1]]["backend"] != "leveldb" and any(not w.startswith("info:") for w in f["what"])}
    failing_elsewhere = {i for i, e in enumerate(events) if e["event"] == "cinit" and e.get("src") in bad_src}
    for f in fails:
        what = [w for w in f["what"] if not w.startswith("info:")]
        if not what:
            info += 1
            continue
        hard.append(f)
        li = f["line"] - 1
        e = events[li]
        s = starts[li]
        init = events[s]
        if init["backend"] == "leveldb" and s not in failing_elsewhere:
            # only the LevelDB run of this schedule disagrees: it counts if it reproduces on a fresh database
            if s not in reconfirm.setdefault("chist", {}) and len(reconfirm["chist"]) < (8 if ctx.quick() else 60):
                reconfirm["chist"][s] = reproduces_conc(ctx, events[s:li + 1])
                if not reconfirm["chist"][s]:
                    ctx.spec_drift.append({"what": "LevelDB-only disagreement of a gated schedule did not reproduce (goleveldb nondeterminism)",
                                           "src": init.get("src"), "schedule": events[s:li + 1]})
            if reconfirm["chist"].get(s) is False:
                ctx.extra["leveldb_unreproduced"] = ctx.extra.get("leveldb_unreproduced", 0) + 1
                hard.remove(f)
                continue
        if e["event"] == "cget":
            sig = {"kind": "get-during-persist", "what": what[0]}
        else:
            k = {"NoHalfBatch": "seek-half-batch", "NeverMissing": "seek-committed-key-missing", "NoStale": "seek-stale-value",
                 "OrderedNoDup": "seek-order-or-duplicate"}
            w0 = [w for w in ("OrderedNoDup", "NeverMissing", "NoStale", "NoHalfBatch") if w in what][0]
            sig = {"kind": k[w0], "window": "Persist between the reader's top-layer snapshot and its lower scan"
                   if w0 == "NoHalfBatch" else "concurrent Persist / writer"}
        ctx.violation(sig, {"what": "reader concurrent with Persist/writer: %s false on the real MemCachedStore" % ",".join(what),
                            "src": init.get("src"), "backend": init["backend"], "schedule": events[s:li + 1], "judge_ctx": f.get("ctx")})
    # information only: answers that are not a snapshot of one instant although no batch is torn
    ctx.extra["conc_non_snapshot_answers"] = info
    return events, hard


# ------------------------------------------------------------------------------------------- self-tests
def selftest_seq(ctx, events):
    """corrupt single fields of a good recorded trace: each must be rejected by KVTrace"""
    ev = events[:6000]
    done = {}
    hist_start = 0
    for i, e in enumerate(ev):
        if e["event"] == "init":
            hist_start = i
        if e["event"] == "seek" and len(e["res"]) >= 2:
            if "swap" not in done:
                r = list(e["res"])
                r[0], r[1] = r[1], r[0]
                done["swap"] = (hist_start, i, dict(e, res=r), "SeekMatches")
            elif "dropitem" not in done and i > done["swap"][1]:
                done["dropitem"] = (hist_start, i, dict(e, res=e["res"][:-1]), "SeekMatches")
            elif "value" not in done and "dropitem" in done and i > done["dropitem"][1]:
                r = [list(x) for x in e["res"]]
                r[-1] = [r[-1][0], list(r[-1][1]) + [7]]
                done["value"] = (hist_start, i, dict(e, res=r), "SeekMatches")
        if e["event"] == "get" and e["res"] != [-2] and "get" not in done:
            done["get"] = (hist_start, i, dict(e, res=[-2]), "GetMatches")
        if e["event"] == "persist" and "lostpersist" not in done:
            # dropping a write event (a put) makes later answers inexplicable
            pass
    # remove one effective put event: some later answer of that history must be rejected
    for i, e in enumerate(ev):
        if e["event"] == "put" and "lostput" not in done:
            s = i
            while ev[s]["event"] != "init":
                s -= 1
            t = i + 1
            while t < len(ev) and ev[t]["event"] != "init":
                t += 1
            seg = ev[s:i] + ev[i + 1:t]
            if any(x["event"] == "get" and x["key"] == e["key"] and x["res"] == e["val"] for x in seg[i - s:]):
                done["lostput"] = (None, None, seg, "GetMatches")
    if len(done) < 5:
        if ctx.violations or ctx.known_hits:     # little of the trace is left to corrupt when the code under test is broken
            ctx.extra["binding_selftests_skipped"] = "sequential: only %s found in the accepted part of the trace" % sorted(done)
            return
        raise vlib.Inconclusive("self-test could not find places to corrupt the trace: %s" % sorted(done))
    for name, (s, i, bad, expect) in done.items():
        seg = bad if s is None else ev[s:i] + [bad]
        path = os.path.join(ctx.work, "selftest-%s.ndjson" % name)
        vlib.write_ndjson(path, seg)
        st, tr = ctx.states, ctx.transitions
        fails = ctx.trace_judge(SUB, "KVTrace.tla", "Trace_KV.cfg", path, timeout=300)
        ctx.states, ctx.transitions = st, tr
        if not any(expect in f["what"] for f in fails):
            raise vlib.Inconclusive("binding self-test %s: corrupted trace was not rejected (%s expected)" % (name, expect))
        ctx.extra["binding_selftests"] = ctx.extra.get("binding_selftests", 0) + 1


def selftest_conc(ctx, events, hard):
    """a reader answer with one committed key removed / an old value must be rejected by KVConcTrace"""
    bad_lines = {f["line"] - 1 for f in hard}
    done = {}
    s = 0
    for i, e in enumerate(events):
        if e["event"] == "cinit":
            s = i
        if i in bad_lines:
            continue
        if e["event"] == "cr2" and len(e["res"]) >= 1 and "missing" not in done:
            # remove a key that was present during the whole interval: take a reader without writes in its interval
            j = i - 1
            while j > s and not (events[j]["event"] == "cr1" and events[j]["r"] == e["r"]):
                j -= 1
            if not any(x["event"] == "cwrite" for x in events[j:i]):
                done["missing"] = (s, i, dict(e, res=e["res"][1:]), "NeverMissing")
        if e["event"] == "cr2" and len(e["res"]) >= 1 and "stale" not in done:
            r = [list(x) for x in e["res"]]
            r[0] = [r[0][0], [99]]
            done["stale"] = (s, i, dict(e, res=r), "NoStale")
        if e["event"] == "cget" and "cget" not in done:
            done["cget"] = (s, i, dict(e, res=[98]), "GetMatches")
    if len(done) < 3:
        if ctx.violations or ctx.known_hits:
            ctx.extra["binding_selftests_skipped_conc"] = "only %s found in the accepted part of the trace" % sorted(done)
            return
        raise vlib.Inconclusive("concurrent self-test could not find places to corrupt the trace: %s" % sorted(done))
    for name, (s, i, bad, expect) in done.items():
        path = os.path.join(ctx.work, "selftest-c-%s.ndjson" % name)
        vlib.write_ndjson(path, events[s:i] + [bad])
        st, tr = ctx.states, ctx.transitions
        fails = ctx.trace_judge(SUB, "KVConcTrace.tla", "Trace_KVConc.cfg", path, timeout=300)
        ctx.states, ctx.transitions = st, tr
        if not any(expect in f["what"] for f in fails):
            raise vlib.Inconclusive("binding self-test conc/%s: corrupted trace was not rejected (%s expected)" % (name, expect))
        ctx.extra["binding_selftests"] = ctx.extra.get("binding_selftests", 0) + 1


# ------------------------------------------------------------------------------------------- main
def replay(ctx):
    """tools/vcheck C09 --replay replays/C09-...json : re-executes the recorded history / schedule on the real code
    and judges it again with the trace specifications."""
    det = json.load(open(ctx.replay))["detail"]
    ind = os.path.join(ctx.work, "in-c09")
    os.makedirs(ind)
    if "history" in det:
        json.dump({"backend": det["backend"], "dao": bool(det.get("dao")), "ops": events_to_ops(det["history"])},
                  open(os.path.join(ind, "replay.json"), "w"))
        res = ctx.go_driver("c09kv", "TestDriver", env={"VERIF_IN": ind}, timeout=600)
        ctx.absorb(res)
        judge_sequential(ctx, res)
    else:
        json.dump([events_to_schedule(det["schedule"])], open(os.path.join(ind, "conc.json"), "w"))
        cres = ctx.go_driver("c09kv", "TestConcDriver", env={"VERIF_IN": ind, "VERIF_BACKENDS": det.get("backend", "")}, timeout=600)
        ctx.absorb(cres)
        judge_concurrent(ctx, cres)
    if not ctx.samples:
        ctx.samples.append({"replayed": os.path.basename(ctx.replay)})


def run(ctx):
    if ctx.replay:
        return replay(ctx)
    q = ctx.quick()
    rnd = random.Random(ctx.seed)
    m = model_stage(ctx)

    # model-level counterexamples of the code-as-it-is models: to be decided on the real code
    cases = m["div"]
    by_cls = {}
    for c in cases:
        by_cls.setdefault((c["cls"], c["backend"], c["cut"], c["depth"]), []).append(c)
    ctx.extra["model_divergent_cases"] = {"%s/%s" % (k[0], k[1]): 0 for k in by_cls}
    for k, v in by_cls.items():
        ctx.extra["model_divergent_cases"]["%s/%s" % (k[0], k[1])] += len(v)
    if not any("A" in k[0] for k in by_cls) or not any("B" in k[0] for k in by_cls):
        raise vlib.Inconclusive("the code-as-it-is model no longer exhibits its two known deviation classes (vacuous model?)")
    pick = []
    per = 6 if q else 40
    for k in sorted(by_cls, key=str):
        v = by_cls[k]
        rnd.shuffle(v)
        pick += v[:per]
    torn = m["conc"]
    ctx.extra["model_torn_schedules"] = len(torn)
    torn.sort(key=len)
    torn_pick = torn[:10] + rnd.sample(torn[10:], min(len(torn) - 10, 40 if q else 300)) if len(torn) > 10 else torn

    sims = dedupe(m["sim_seq"] + m["sim_seq2"])
    rnd.shuffle(sims)
    sims = sims[: (80 if q else 1000)]
    csims = dedupe(m["sim_conc"])
    rnd.shuffle(csims)
    csims = csims[: (150 if q else 2500)]

    ind = os.path.join(ctx.work, "in-c09")
    os.makedirs(ind)
    json.dump(pick, open(os.path.join(ind, "cases.json"), "w"))
    json.dump(sims, open(os.path.join(ind, "behaviours.json"), "w"))
    # three plain schedules (feasible under any locking discipline) so that every run records ordinary reader answers
    k1, k2 = [112, 1], [112, 2]
    W = lambda items: {"a": "write", "r": 0, "batch": items}     # noqa: E731
    S = lambda a, r=0: {"a": a, "r": r, "batch": []}              # noqa: E731
    basic = [[W([[k1, [1]]]), S("r1", 1), S("r2", 1), W([[k1, [2]], [k2, [2]]]), S("r1", 2), S("r2", 2)],
             [W([[k1, [1]], [k2, [1]]]), S("p1"), S("p2"), S("p3"), S("r1", 1), S("r2", 1), {"a": "get", "r": 0, "batch": [[k1, [1]]]}],
             [W([[k1, [1]]]), S("psync"), W([[k2, [2]]]), S("r1", 2), S("r2", 2), S("p1"), S("pfail"), S("r1", 1), S("r2", 1)]]
    json.dump(basic + torn_pick + csims, open(os.path.join(ind, "conc.json"), "w"))

    # real code, sequential
    res = ctx.go_driver("c09kv", "TestDriver", env={"VERIF_IN": ind, "VERIF_RANDOM": 120 if q else 2500,
                                                    "VERIF_READS": 6 if q else 8}, timeout=3000)
    ctx.absorb(res)
    events, fails = judge_sequential(ctx, res)
    # real code, concurrent (gated)
    cres = ctx.go_driver("c09kv", "TestConcDriver", env={"VERIF_IN": ind}, timeout=3000)
    ctx.absorb(cres)
    cevents, chard = judge_concurrent(ctx, cres)

    # binding self-tests (on the parts of the traces the judge accepted)
    bad_hist = set()
    s = 0
    starts = []
    for i, e in enumerate(events):
        if e["event"] == "init":
            s = i
        starts.append(s)
    for f in fails:
        bad_hist.add(starts[f["line"] - 1])
    good = []
    for i, e in enumerate(events):
        if starts[i] not in bad_hist:
            good.append(e)
    selftest_seq(ctx, good)
    selftest_conc(ctx, cevents, chard)
    ctx.assumptions += [
        "TLC (model checker and trace evaluator), the CommunityModules Json/SequencesExt overrides",
        "the harness's split of a batch into the (puts, stores) arguments of PutChangeSet by the first key byte, as MemCachedStore.persist does",
        "reference semantics of a backward seek from a start point = the production backends' prefix-inclusive bound (DESIGN section 4 C09)",
        "the gating backend blocks only at the entry/exit of the backend's PutChangeSet and the entry of the backend's Seek; "
        "finer interleavings inside MemCachedStore critical sections are atomic by its mutex",
    ]
