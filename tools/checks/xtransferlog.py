"""Temporary stand-alone runner of the C01 transfer-log extension (not registered): tools/vcheck Xtransferlog --tier quick"""
RULE = "extension"


def run(ctx):
    import importlib.util
    import os
    p = os.path.join(os.path.dirname(os.path.abspath(__file__)), "c01_transfers.py")
    spec = importlib.util.spec_from_file_location("c01_transfers", p)
    mod = importlib.util.module_from_spec(spec)
    spec.loader.exec_module(mod)
    mod.run_ext(ctx)
