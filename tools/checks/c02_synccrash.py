"""C02 extension - CRASHES DURING THE COLLECTION PHASES OF STATE SYNCHRONISATION (pkg/core/statesync/module.go,
pkg/core/mpt/billet.go, Blockchain.jumpToStateInternal; MPT-based mode).

The C02 check crashes a state-synchronising node only from the first jump batch on, the C20 check restarts it only
cleanly.  This extension crashes it at EVERY atomic-batch boundary in between: while headers are collected, while trie
nodes are restored (partially restored sub-tries, the temporary storage prefix, the pool of wanted nodes rebuilt by a
traversal on restart), while the blocks of the window are stored, across the three stage changes and inside the jump; a flush
may fall between any two deliveries, a crash loses everything delivered since the last one; a sample of the recoveries is
crashed again.

Model: spec/synccrash  (SyncFacts = the size-independent facts start-up and Module.Init read and the stage they imply;
SyncCrash = disk / write cache / module memory, one action per delivery and per jump stage, Crash, Boot = the recovery
function; abstract invariants NoCorruption, Resumable, CrashTransparent + Impl-level PoolSound, Coherent, StageFn;
eight named deviations refuted by TLC; SyncCrashSim = delivery-schedule generator; SyncCrashTrace = total reporting judge).
Real code: harness/c02synccrash (a real sink node on a recording store fed by a real source chain; every prefix of the
recorded batch sequence is materialised, reopened with core.NewBlockchain + statesync.Module.Init, continued to the end and
compared with the source and with an uninterrupted synchronisation).

Use from the C02 check:   ext = _load_ext('c02_synccrash'); ext.run_ext(ctx)
Violation signatures: {"part": "synccrash", "kind": "NoCorruption|Resumable|Lockstep|CrashTransparent|panic",
"stage": "headers|mpt|blocks|jump", "point": "<class of the batch after which the node died>"} (+ "ground" when the failure
is the one a pinned-behaviour deviation of the model predicts)."""
import concurrent.futures
import json
import os
import random

import vlib

RULE = ("synccrash: cases = atomic batches of recorded synchronisations (projected onto the model's disk) + crash points "
        "(database image of a batch prefix reopened, Module.Init, stage reported, delivery continued to the end in random order "
        "with duplicates, root / storage / lockstep / raw database compared) + second crashes during the recovery; distinct = "
        "distinct (class of batch, stage reported, shape of the restored trie, window blocks stored, remote height) tuples")

DEVIATIONS = [  # named deviation of SyncCrash.tla -> the invariant that must refute it
    ("MarkerFirst", "NoCorruption"), ("NoTraverse", "CrashTransparent"), ("EarlyComplete", "Resumable"), ("PtrAhead", "Resumable"),
    ("CleanFirst", "NoCorruption"), ("SpBeforeClean", "CrashTransparent"), ("PinnedTraversal", "Resumable"), ("PinnedNoJump", "Resumable")]
JUDGED = {"NoCorruption": "NoCorruption", "Resumable": "Resumable", "Lockstep": "Lockstep", "CrashTransparent": "CrashTransparent",
          "Panic": "panic"}
GROUNDS = {"Pinned_InitTraversal": "init-traversal-shared-node", "Pinned_NoJump": "no-jump-after-restart"}


def _deviation(ctx, name, inv):
    """the deviation must be refuted by the invariant it is aimed at"""
    try:
        ctx.tlc_mc("synccrash", "MCSyncCrash.tla", "MC_dev_%s.cfg" % name, timeout=600, workers=2)
    except vlib.ModelError as e:
        out = (e.res or {}).get("out", "")
        if "Invariant %s is violated" % inv in out:
            return name
        raise vlib.Inconclusive("deviation %s of SyncCrash is refuted by something else than %s: %s" % (name, inv, e))
    raise vlib.Inconclusive("named deviation %s of SyncCrash is not detected by TLC" % name)


def _schedules(ctx, q):
    hs, seen = [], set()
    for h in ctx.tlc_sim("synccrash", "SyncCrashSim.tla", "Sim_SyncCrash.cfg", num=150 if q else 1400, depth=40, timeout=600,
                         seed=ctx.seed + 11):
        k = json.dumps(h)
        if k not in seen and any(s["op"] == "flush" for s in h):
            seen.add(k)
            hs.append(h)
    # schedules with more flushes first (they make more crash points), the rest shuffled
    random.Random(ctx.seed).shuffle(hs)
    def key(h):
        ops = [s["op"] for s in h]
        nd = [i for i, o in enumerate(ops) if o == "nodes"]
        inmpt = sum(1 for i, o in enumerate(ops) if o == "flush" and nd and nd[0] < i < nd[-1])
        return (-min(3, inmpt), -min(4, ops.count("flush")))
    hs.sort(key=key)
    return hs


def run_ext(ctx):
    q = ctx.quick()
    # 1. the model: exhaustive within small constants; the named deviations are refuted
    r = ctx.tlc_mc("synccrash", "MCSyncCrash.tla", "MC_SyncCrash_q.cfg" if q else "MC_SyncCrash_t.cfg", timeout=900, coverage=not q,
                   must_cover=False)
    if not q:   # vacuity guard; SpAlone exists only under the deviation SpBeforeClean
        un = [a for a in vlib.uncovered_actions(r["out"]) if a != "SpAlone"]
        if un:
            raise vlib.Inconclusive("vacuity guard: actions of SyncCrash never taken: %s" % un)
    if not q:
        ctx.tlc_mc("synccrash", "MCSyncCrash.tla", "MC_SyncCrash_2c.cfg", timeout=900)
        ctx.tlc_mc("synccrash", "MCSyncCrash.tla", "MC_SyncCrash_anc.cfg", timeout=900)
    st, tr = ctx.states, ctx.transitions
    with concurrent.futures.ThreadPoolExecutor(max_workers=4) as ex:
        done = list(ex.map(lambda d: _deviation(ctx, *d), DEVIATIONS))
    ctx.states, ctx.transitions = st, tr     # states of refuted deviations are not coverage of the design
    ctx.extra["synccrash_deviations_refuted"] = done
    # 2. delivery schedules from the model
    scheds = _schedules(ctx, q)
    nw, per = (4, 5) if q else (36, 14)
    scheds = scheds[: nw * per]
    if len(scheds) < nw:
        raise vlib.Inconclusive("synccrash: too few delivery schedules (%d)" % len(scheds))
    ind = os.path.join(ctx.work, "in-c02sc")
    os.makedirs(ind, exist_ok=True)
    json.dump(scheds, open(os.path.join(ind, "schedules.json"), "w"))
    # 3. the real node
    env = {"VERIF_IN": ind, "VERIF_WORLDS": nw, "VERIF_PER_WORLD": per, "VERIF_RANDOM": 3 if q else 6, "VERIF_POINTS": 12,
           "VERIF_LONG_WORLDS": 1 if q else 4, "VERIF_TORN_ROUNDS": 4 if q else 30}
    res = ctx.go_driver("c02synccrash", "TestDriver", env=env, timeout=3400)
    ctx.absorb(res)
    ctx.traces_validated += res.get("traces", 0)
    stats = res.get("stats") or {}
    # 4. TLC judges the trace
    trace = os.path.join(res["_out"], "trace.ndjson")
    events = vlib.read_ndjson(trace)
    fails = ctx.trace_judge("synccrash", "SyncCrashTrace.tla", "Trace_SyncCrash.cfg", trace, timeout=1800)
    nviol = 0
    ckey = lambda e: (e.get("world"), e.get("run"), e.get("at"), e.get("at2"), e.get("depth"))
    crash_ground = {}
    for f in sorted(fails, key=lambda f: f["line"]):
        ev = events[f["line"] - 1]
        names = set(f["what"])
        ground = [GROUNDS[n] for n in sorted(names) if n in GROUNDS]
        if ground and ev["event"] == "recover":
            crash_ground[ckey(ev)] = ground   # what follows this restart (the continuation cannot end) has the same cause
        elif not ground and ev.get("depth"):
            ground = crash_ground.get(ckey(ev), [])
        for n in sorted(names):
            if n.startswith("Drift_"):
                d = {"part": "synccrash", "drift": n, "event": ev["event"], "point": ev.get("point", ev.get("class")),
                     "ctx": f.get("ctx")}
                if len(ctx.spec_drift) < 20 and not any(x.get("drift") == n and x.get("point") == d["point"] for x in ctx.spec_drift
                                                         if isinstance(x, dict)):
                    ctx.spec_drift.append(d)
                continue
            if n not in JUDGED:
                continue
            sig = {"part": "synccrash", "kind": JUDGED[n], "stage": ev.get("stage", "none"), "point": ev.get("point", "none")}
            if ground:
                sig["ground"] = ground[0]
            nviol += 1
            ctx.violation(sig, {"what": "%s false at event %s (crash after a batch of class %s, stage %s, depth %s)" % (
                n, ev["event"], sig["point"], sig["stage"], ev.get("depth")),
                "event": {k: v for k, v in ev.items() if k != "disk"}, "disk": ev.get("disk"), "line": f["line"],
                "world": next((e for e in reversed(events[: f["line"]]) if e["event"] == "world"), None),
                "run": next((e for e in reversed(events[: f["line"]]) if e["event"] == "run" and e.get("run") == ev.get("run")), None),
                "seed": ctx.seed})
    kinds = {}
    for e in events:
        kinds[e["event"]] = kinds.get(e["event"], 0) + 1
    ctx.extra["synccrash_event_kinds"] = kinds
    if not nviol:   # vacuity guards (a failing synchronisation is a verdict, not a reason to be inconclusive)
        if not stats.get("crash_points"):
            raise vlib.Inconclusive("synccrash: the driver probed no crash point")
        for need in ("crash_headers-partial", "crash_mpt-partial", "crash_mpt-complete", "crash_blocks-partial", "crash_blocks-complete",
                     "crash_jump-j1", "crash_jump-j3", "crash_points_on_trapped_trie"):
            if not stats.get(need):
                raise vlib.Inconclusive("synccrash: vacuity guard - no crash point of kind %s" % need)
    # 5. binding self-test: corrupted records of a good trace must be rejected, each by its own predicate
    if not nviol:
        want = {"recover": ("claim_ok", False, "NoCorruption"), "resume": ("completed", False, "Resumable"),
                "lockstep": ("same", False, "Lockstep"), "final": ("raw_equal", False, "CrashTransparent"), "synced": ("root_ok", False, "NoCorruption")}
        ev2, hit = [], {}
        for e in events:
            e = dict(e)
            w = want.get(e["event"])
            if w and e["event"] not in hit and e.get("depth", 0) >= 1:
                e[w[0]] = w[1]
                hit[e["event"]] = len(ev2) + 1
            ev2.append(e)
        # a recover record whose stage is not the one the durable facts imply: drift, not a verdict
        for i, e in enumerate(ev2):
            if e["event"] == "recover" and e.get("booted") and e.get("reported") == "mpt" and i + 1 not in hit.values():
                e["reported"] = "headers"
                hit["stage"] = i + 1
                break
        if len(hit) < 5:
            raise vlib.Inconclusive("synccrash self-test: the trace lacks event kinds %s" % (set(want) - set(hit)))
        path = os.path.join(ctx.work, "selftest-sc.ndjson")
        vlib.write_ndjson(path, ev2)
        st, tr = ctx.states, ctx.transitions
        f2 = ctx.trace_judge("synccrash", "SyncCrashTrace.tla", "Trace_SyncCrash.cfg", path, timeout=900)
        ctx.states, ctx.transitions = st, tr
        got = {(f["line"], w) for f in f2 for w in f["what"]}
        for evn, (fld, val, name) in want.items():
            if (hit[evn], name) not in got:
                raise vlib.Inconclusive("synccrash binding self-test: corrupted %s.%s not rejected by %s" % (evn, fld, name))
        if "stage" in hit and (hit["stage"], "Drift_Stage") not in got:
            raise vlib.Inconclusive("synccrash binding self-test: a wrong reported stage is not noticed")
        extra = {(l, w) for (l, w) in got if l not in hit.values()}
        if extra:
            raise vlib.Inconclusive("synccrash binding self-test: untouched records rejected: %s" % sorted(extra)[:5])
        ctx.extra["synccrash_binding_selftests"] = len(hit)
    ctx.assumptions.append("synccrash: MPT-based state synchronisation only (the contract-storage mode needs the NeoFS fetcher); crash points are "
                           "exactly the atomic batches the node hands to its backend, a flush falls BETWEEN two deliveries (not inside one); the "
                           "final database is compared raw (every key; token-transfer-info values canonicalised) with an uninterrupted "
                           "synchronisation of the same source, after the jump and again after the lockstep blocks")
