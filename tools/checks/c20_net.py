"""Extension of C20 - the P2P SERVER's synchronisation logic (pkg/network/server.go: handshake admission, peer heights from
version / ping / pong, requestBlocks / getRequestBlocksPayload with lastRequestedBlock, the hand-over to the block queues,
inv / getdata, wire-level state exchange; pkg/network/tcp_peer.go: the handshake flags), which no other check observes.

Model: spec/netsync
  NetSync.tla        abstract judge of the block fetch part (in order, at most once, genuine, converged to the highest
                     contiguous block the responsive peers serve)
  NetSyncImpl.tla    code-shaped model of requestBlocks + bqueue.Put/Run (4 named deviations refuted by TLC, one of them -
                     NoResetOnDrop - is the PINNED behaviour of the tree, see FINDINGS below)
  NetSyncSim.tla     behaviour generator (who connects when, what is pushed, where barriers are)
  NetSyncTrace.tla   trace judge
  Handshake.tla / HandshakeImpl.tla / HandshakeTrace.tla   the connection handshake (abstract, code-shaped + exhaustive
                     enumeration of peer scripts, trace judge; 3 named deviations refuted)
Real code: harness/c20net - a REAL started network.Server (loopback listener) on a real chain, fake peers over real TCP.

Call from the registered check of C20:   ext = load('c20_net'); ext.run_ext(ctx)
Violations carry "part": "net".  Predicates named "i:..." (Impl level) are drift; "x:..." mean the harness contradicts itself
(inconclusive)."""
import json
import os
import random
import re

import vlib

PART = "net"
SUB = "netsync"
MC_OK = ("u1", "u2", "u3", "u4", "u5")
MC_DEV = ("dev_noreset", "dev_norunner", "dev_plus2", "dev_nofallback", "dev_ignore")
HS_DEV = ("verackfirst", "dupversion", "earlypayload")
SIMS = ("u1", "u2", "u2b", "u3", "u3b")
SRC_N = 2300
CAP = 2000


# ------------------------------------------------------------------------------------------------ scripts -> scenarios
def units(ks, S):
    """model block indexes -> real index ranges (unit k = real blocks (k-1)*S+1 .. k*S), merged"""
    out = []
    for k in sorted(set(ks)):
        a, b = (k - 1) * S + 1, k * S
        if out and out[-1][1] + 1 == a:
            out[-1][1] = b
        else:
            out.append([a, b])
    return out


def realise(hist, S, rnd, name, far_ok=True):
    """A behaviour of NetSyncSim (model indexes) as a scenario on real blocks."""
    init = hist["steps"][0]
    ids = sorted(init["peers"])
    n = init["n"]
    peers = []
    for pid in ids:
        p = init["peers"][pid]
        adv = p["adv"] * S if p["adv"] <= n else 4000000 + p["adv"]
        g = []
        for k in sorted(p["g"]):
            a, b = (k - 1) * S + 1, k * S
            g.append([a, a] if S == 1 or rnd.random() < 0.5 else [a, min(b, a + 2)])
        peers.append({"kind": p["kind"], "has": units(p["has"], S), "adv": adv, "order": rnd.choice(["asc", "desc", "shuf"]),
                      "dup": rnd.random() < 0.3, "g": g, "gk": rnd.choice(["badsig", "tamper"]), "gmax": p["gmax"]})
    h0 = init["h0"] * S
    maxnear = max([h0] + [r[1] for p in peers for r in p["has"]])
    steps = []
    pushers = []
    for st in hist["steps"][1:]:
        op = st["op"]
        if op in ("connect", "drop"):
            i = ids.index(st["p"]) + 1
            steps.append({"op": op, "p": i})
            if op == "connect":
                pushers.append(i)
            elif i in pushers:
                pushers.remove(i)
        elif op in ("push", "gpush"):
            a, b = (st["k"] - 1) * S + 1, st["k"] * S
            bl = list(range(a, b + 1))
            if len(bl) > 4:
                bl = sorted(rnd.sample(bl, 4) + [a])
            rnd.shuffle(bl)
            if op == "gpush":
                bl = bl[:1]
            if not pushers:
                if op == "push":
                    steps.append({"op": "local", "blocks": bl})
                continue
            p = rnd.choice(pushers)
            if op == "push":
                r = rnd.random()
                if r < 0.2:
                    steps.append({"op": "inv", "p": p, "blocks": bl})
                elif r < 0.3:
                    steps.append({"op": "local", "blocks": bl})
                else:
                    if rnd.random() < 0.3:
                        bl = bl + bl[:1]      # a duplicate
                    if far_ok and rnd.random() < 0.35 and maxnear + CAP + 5 < SRC_N:
                        bl.insert(rnd.randrange(len(bl) + 1), rnd.randrange(maxnear + CAP + 1, SRC_N + 1))   # far ahead of the tip
                    steps.append({"op": "push", "p": p, "blocks": bl})
            else:
                steps.append({"op": "gpush", "p": p, "blocks": bl, "gk": rnd.choice(["badsig", "tamper"])})
        elif op == "sync":
            steps.append({"op": "sync"})
    return {"name": name, "h0": h0, "peers": peers, "steps": steps}


def random_scenario(rnd, name):
    """Seeded random script over a larger universe (up to five peers, holes, overlapping ranges)."""
    M = rnd.randrange(8, 60)
    h0 = rnd.choice([0, 0, rnd.randrange(1, 8), rnd.randrange(1, 30)])
    h0 = min(h0, M - 3)
    peers = []
    for _ in range(rnd.randrange(1, 6)):
        kind = rnd.choice(["honest", "honest", "honest", "garbage", "silent", "liar", "mute"])
        has = []
        if kind in ("honest", "garbage"):
            a = rnd.randrange(1, M)
            while a <= M and len(has) < 3:
                b = min(M, a + rnd.randrange(0, M))
                has.append([a, b])
                a = b + rnd.randrange(2, 9)
            if rnd.random() < 0.5:
                has = [[1, has[-1][1]]]
        adv = 0
        if kind in ("silent", "mute"):
            adv = rnd.randrange(1, M + 20)
        if kind == "liar":
            kind, adv = "silent", rnd.choice([5000, 100000, 4000000])
        g = []
        if kind == "garbage":
            for _ in range(rnd.randrange(1, 3)):
                a = rnd.randrange(max(1, h0), M + 1)
                g.append([a, min(M, a + rnd.randrange(0, 3))])
        peers.append({"kind": kind, "has": has, "adv": adv, "order": rnd.choice(["asc", "desc", "shuf"]), "dup": rnd.random() < 0.25,
                      "g": g, "gk": rnd.choice(["badsig", "tamper"]), "gmax": rnd.randrange(1, 4)})
    steps, conn = [], []
    order = list(range(1, len(peers) + 1))
    rnd.shuffle(order)
    for _ in range(rnd.randrange(2, 14)):
        r = rnd.random()
        if order and (r < 0.35 or not conn):
            p = order.pop()
            steps.append({"op": "connect", "p": p})
            conn.append(p)
        elif r < 0.6 and conn:
            bl = [rnd.randrange(max(1, h0 - 2), M + 1) for _ in range(rnd.randrange(1, 7))]
            if rnd.random() < 0.3:
                bl.append(rnd.randrange(M + CAP + 1, SRC_N + 1))
            steps.append({"op": rnd.choice(["push", "push", "inv"]), "p": rnd.choice(conn), "blocks": bl})
        elif r < 0.68 and conn:
            steps.append({"op": "gpush", "p": rnd.choice(conn), "blocks": [rnd.randrange(max(1, h0), M + 1)], "gk": rnd.choice(["badsig", "tamper"])})
        elif r < 0.76:
            steps.append({"op": "local", "blocks": [rnd.randrange(max(1, h0 - 1), M + 1) for _ in range(rnd.randrange(1, 4))]})
        elif r < 0.92:
            steps.append({"op": "sync"})
        elif conn:
            p = rnd.choice(conn)
            if peers[p - 1]["kind"] in ("silent", "mute"):
                steps.append({"op": "drop", "p": p})
                conn.remove(p)
    for p in order:
        steps.append({"op": "connect", "p": p})
    return {"name": name, "h0": h0, "peers": peers, "steps": steps}


def long_scenarios(rnd, count):
    """Worlds in which the real window (2000) and the real chunk (500) bind: the node starts near genesis, the peers have
    (almost) the whole source chain."""
    out = []
    N = SRC_N
    for i in range(count):
        h0 = rnd.choice([0, 0, rnd.randrange(1, 40), rnd.randrange(40, 260)])
        kinds = [["honest", "silent"], ["honest", "honest"], ["honest", "liar", "silent"], ["garbage", "honest"], ["honest", "honest", "silent"]][i % 5]
        peers = []
        for j, k in enumerate(kinds):
            p = {"kind": k, "has": [], "adv": 0, "order": rnd.choice(["asc", "desc", "shuf"]), "dup": False, "g": [], "gk": "badsig", "gmax": 1}
            if k in ("honest", "garbage"):
                p["has"] = [[1, N]] if j == 0 or rnd.random() < 0.5 else [[1, rnd.randrange(900, N)]]
            if k == "silent":
                p["adv"] = N
            if k == "liar":
                p["kind"], p["adv"] = "silent", 3000000
            if k == "garbage":
                a = rnd.randrange(max(h0, 1) + 300, max(h0, 1) + 1400)
                p["g"], p["gk"] = [[a, a + 1]], rnd.choice(["badsig", "tamper"])
            peers.append(p)
        if kinds == ["honest", "honest"]:   # complementary halves: both are needed
            cut = rnd.randrange(600, 1700)
            peers[0]["has"], peers[1]["has"] = [[1, cut]], [[cut - 3, N]]
        order = list(range(1, len(peers) + 1))
        rnd.shuffle(order)
        steps = []
        for p in order:
            steps.append({"op": "connect", "p": p})
            if rnd.random() < 0.5:
                bl = [rnd.randrange(h0 + 1, h0 + CAP) for _ in range(3)] + [rnd.randrange(h0 + 1, h0 + 30)]
                steps.append({"op": "push", "p": p, "blocks": bl})
            if rnd.random() < 0.3:
                steps.append({"op": "sync"})
        out.append({"name": "long-%d" % i, "h0": h0, "peers": peers, "steps": steps})
    return out


def ss_cases(rnd, count):
    out = []
    for i in range(count):
        ssi = 4 + i % 3
        mtb = 8 + (i % 2) * 4
        n = 3 * ssi + 2 + rnd.randrange(2 * ssi)
        if n % ssi == 0:
            n += 1
        kinds = [["honest", "honest"], ["garbage:hdr", "honest", "honest"], ["honest", "honest", "silent"], ["garbage:mpt", "honest", "honest"],
                 ["garbage:blk", "honest", "honest"]][i % 5]
        peers = []
        for k in kinds:
            kk, _, gk = k.partition(":")
            peers.append({"kind": kk, "gk": gk, "order": rnd.choice(["asc", "desc", "shuf"]), "dup": rnd.random() < 0.3})
        out.append({"name": "ss-%d" % i, "ssi": ssi, "mtb": mtb, "n": n, "peers": peers, "batch": rnd.choice([0, 0, 3, 7]), "order": rnd.choice(["asc", "desc"])})
    return out


# ------------------------------------------------------------------------------------------------ the check
def expect_refuted(ctx, module, cfg, key):
    try:
        ctx.tlc_mc(SUB, module, cfg, timeout=900)
    except vlib.ModelError:
        ctx.extra[key] = ctx.extra.get(key, 0) + 1
        return
    raise vlib.Inconclusive("named deviation %s is not refuted by TLC (vacuous model)" % cfg)


def run_ext(ctx):
    q = ctx.quick()
    rnd = random.Random(ctx.seed * 7 + 20)
    # 1. exhaustive: Impl => Abstract (safety as invariants, convergence as a liveness property under fairness)
    for u in MC_OK:
        ctx.tlc_mc(SUB, "MCNetSync.tla", "MC_%s.cfg" % u, timeout=1200, coverage=not q, must_cover=False)
    for d in MC_DEV:
        expect_refuted(ctx, "MCNetSync.tla", "MC_%s.cfg" % d, "net_model_selftests")
    ctx.tlc_mc(SUB, "HandshakeImpl.tla", "MC_hs_ok.cfg", timeout=1200)
    for d in HS_DEV:
        expect_refuted(ctx, "HandshakeImpl.tla", "MC_hs_%s.cfg" % d, "net_model_selftests")

    # 2. behaviours of the Impl model -> scripts of fake peers
    scenarios, seen = [], set()
    for i, u in enumerate(SIMS):
        hs = ctx.tlc_sim(SUB, "NetSyncSim.tla", "Sim_%s.cfg" % u, num=40 if q else 600, depth=30, timeout=600, seed=ctx.seed * 10 + i)
        fresh = []
        for h in hs:
            env = [s for s in h["steps"][1:]]
            if len(env) < 2:
                continue
            k = json.dumps(h["steps"], sort_keys=True)
            if k not in seen:
                seen.add(k)
                fresh.append(h)
        rnd.shuffle(fresh)
        for j, h in enumerate(fresh[: (14 if q else 250)]):
            scenarios.append(realise(h, rnd.choice([1, 1, 2, 5]), rnd, "tlc-%s-%d" % (u, j)))
        for j, h in enumerate(fresh[: (1 if q else 8)]):
            n = h["steps"][0]["n"]
            scenarios.append(realise(h, SRC_N // n, rnd, "tlcL-%s-%d" % (u, j), far_ok=False))
    if not scenarios:
        raise vlib.Inconclusive("no NetSyncSim behaviours generated")
    ctx.extra["net_tlc_scripts"] = len(scenarios)
    for i in range(60 if q else 2000):
        scenarios.append(random_scenario(rnd, "rnd-%d" % i))
    scenarios += long_scenarios(rnd, 4 if q else 50)

    # 3. handshake scripts: every script up to length 3 (quick) / 4 (thorough) + a sample of longer ones
    cases = ctx.tlc_dump(SUB, "HandshakeImpl.tla", "MC_hs_enum%d.cfg" % (4 if q else 5), timeout=900)
    short = [c for c in cases if len(c["script"]) <= (3 if q else 4)]
    longer = [c for c in cases if len(c["script"]) > (3 if q else 4)]
    rnd.shuffle(longer)
    hs_cases = short + longer[: (250 if q else 6000)]
    handshake = [{"name": "".join(c["script"]) + "#%d" % i, "script": c["script"],
                  "pred": {k: c[k] for k in ("closed", "closedAt", "veracks", "pongs", "answers", "taken", "final")}} for i, c in enumerate(hs_cases)]
    ctx.extra["net_handshake_scripts"] = len(handshake)

    statesync = ss_cases(rnd, 3 if q else 30)

    ind = os.path.join(ctx.work, "in-c20net")
    os.makedirs(ind, exist_ok=True)
    early = [{"name": "early-headers", "ssi": 4, "mtb": 8, "n": 22, "early": True, "batch": 0, "order": "asc",
              "peers": [{"kind": "silent"}, {"kind": "honest"}, {"kind": "honest"}]},
             {"name": "early-mpt", "ssi": 5, "mtb": 12, "n": 23, "early": True, "batch": 0, "order": "desc",
              "peers": [{"kind": "hdronly"}, {"kind": "honest"}, {"kind": "honest"}]}]
    json.dump({"src_n": SRC_N, "scenarios": scenarios, "handshake": handshake, "statesync": statesync, "early": early},
              open(os.path.join(ind, "input.json"), "w"))

    # 4. real code
    res = drive(ctx, "TestDriver", ind)
    if res is None:
        return
    ctx.absorb(res)
    # a block command nobody asked for while the node collects headers / trie nodes: its own process (a crash is the verdict)
    res2 = drive(ctx, "TestEarlyBlock", ind)
    ok_early = True
    if res2 is not None:
        ctx.absorb(res2)
        ok_early = judge_net(ctx, os.path.join(res2["_out"], "ss.ndjson"), "state-exchange-early-block")
        ctx.traces_validated += res2.get("traces", 0)

    # 5. TLC judges the recorded runs against the abstract level
    ok_net = judge_net(ctx, os.path.join(res["_out"], "trace.ndjson"), "blocks")
    ok_ss = judge_net(ctx, os.path.join(res["_out"], "ss.ndjson"), "state-exchange")
    ok_hs = judge_hs(ctx, os.path.join(res["_out"], "hs.ndjson"))
    ctx.traces_validated += res.get("traces", 0)
    ctx.assumptions.append(
        "P2P server: inbound connections only (no seeds / discovery, the node never dials), consensus off, MinPeers 0; peers are "
        "scripted (honest / silent / refusing-garbage / lying about their height), never adaptive; convergence is judged at a "
        "protocol-defined quiescence (ping round trips on every connection), a stall needs >= 40 complete rounds and seconds of "
        "idleness (hundreds of the node's timer periods), anything slower is a time-out = inconclusive; ping time-outs and the "
        "NeoFS fetchers are not bound")
    # 6. binding self-tests
    if ok_net:
        selftest_net(ctx, os.path.join(res["_out"], "trace.ndjson"))
    if ok_hs:
        selftest_hs(ctx, os.path.join(res["_out"], "hs.ndjson"))


def drive(ctx, test, ind):
    """Run one driver function; a crash of the node's own goroutines becomes a violation (returns None then)."""
    try:
        return ctx.go_driver("c20net", test, env={"VERIF_IN": ind, "VERIF_PAR": 8}, timeout=3000)
    except vlib.Inconclusive:
        crash = node_crash(ctx, test)
        if crash is None:
            raise
        # a Go panic inside the node's own goroutines (no harness frame on the panicking stack), provoked by what peers sent
        ctx.samples.append({"node_crash": crash["where"], "driver": test})
        ctx.violation({"part": PART, "kind": "panic", "where": crash["where"]},
                      {"what": "the node's process crashed while fake peers were talking to it (%s)" % test, "panic": crash["panic"],
                       "stack": crash["stack"][:30], "being_played": crash["playing"]})
        return None


def node_crash(ctx, test="TestDriver"):
    """Parse the driver's log: a panic whose goroutine has no harness frame is the node's own crash."""
    log = os.path.join(ctx.work, "go-c20net-%s.log" % test)
    if not os.path.exists(log):
        return None
    lines = open(log, errors="replace").read().splitlines()
    for i, ln in enumerate(lines):
        if ln.startswith("panic:") or ln.startswith("fatal error:"):
            # the first goroutine block after the panic line is the panicking one
            blk, seen = [], False
            for x in lines[i + 1:]:
                if x.startswith("goroutine "):
                    if seen:
                        break
                    seen = True
                if seen:
                    if (not x.strip() and blk) or x.startswith("FAIL") or x.startswith("exit status") or x.startswith("ok "):
                        break
                    blk.append(x)
            if any("verifharness/" in x for x in blk if not x.startswith("created by")):
                return None
            fr = [x for x in blk[1:] if x and not x.startswith("\t") and not x.startswith("created by")]
            where = next((re.sub(r"\((0x[0-9a-f]+|\.\.\.|, |\{|\}|\?)*\)$", "", x.strip()) for x in fr if "nspcc-dev/neo-go" in x), fr[0] if fr else "?")
            where = where.replace("github.com/nspcc-dev/neo-go/", "")
            playing = []
            pf = os.path.join(ctx.work, "out-c20net-%s" % test, "progress.log")
            if os.path.exists(pf):
                playing = open(pf).read().splitlines()[-12:]
            return {"panic": ln, "where": where, "stack": blk, "playing": playing}
    return None


def segments(events, first):
    start, starts = 0, []
    for i, e in enumerate(events):
        if e["event"] == first:
            start = i
        starts.append(start)
    return starts


def judge_net(ctx, trace, what):
    events = vlib.read_ndjson(trace)
    if not events:
        return True
    fails = ctx.trace_judge(SUB, "NetSyncTrace.tla", "Trace_NetSync.cfg", trace, timeout=3000)
    ctx.extra["net_trace_events_" + what] = len(events)
    starts = segments(events, "init")
    clean = True
    bad_harness = []
    reported = set()
    info = ctx.extra.setdefault("net_informational", {})
    for f in fails:
        li = f["line"] - 1
        s = starts[li]
        ev = events[li]
        for w in f["what"]:
            if w.startswith("i:"):
                info[w] = info.get(w, 0) + 1
                if info[w] <= 2 and len(ctx.spec_drift) < 20:
                    ctx.spec_drift.append({"part": PART, "informational": w, "scenario": events[s].get("sc"), "event": ev, "ctx": {k: v for k, v in f.get("ctx", {}).items() if k != "ev"}})
        x = [w for w in f["what"] if w.startswith("x:")]
        if x:
            bad_harness.append((events[s].get("sc"), x, ev))
            continue
        judged = sorted(w for w in f["what"] if not w.startswith("i:"))
        if not judged or s in reported:
            continue
        reported.add(s)
        clean = False
        w = judged[0]
        sig = {"part": PART, "kind": w}
        c = f.get("ctx", {})
        if w in ("Stalled", "NotConverged"):
            ss = "ssp" in events[s]
            sig["sync"] = "state-exchange" if ss else "blocks"
            if c.get("refused_below_lastq") and c.get("lastq_ahead"):
                sig["ground"] = "refused-block-counted-in-lastq"
            elif ss and ev.get("h") == 0 and ev.get("modh", -1) >= 0 and c.get("next_offered") and not any_garbage(events[s:li + 1]):
                sig["ground"] = "state-exchange-blocks-never-applied"
            else:
                sig["ground"] = "other"
        ctx.violation(sig, {"what": "abstract predicate %s false on the real network.Server (%s scenario %s)" % (w, what, events[s].get("sc")),
                            "judge": c, "scenario": events[s], "history": compact(events[s:li + 1])})
    if bad_harness:
        # real TCP and a real server: a rare scenario in which the harness's own bookkeeping disagrees with what it observes (a
        # block still in flight at the end barrier) is dropped and recorded; more than a handful means the harness is broken
        nsc = max(1, len(set(starts)))
        ctx.extra["net_scenarios_dropped_self_contradiction"] = len(bad_harness)
        for bh in bad_harness[:3]:
            if len(ctx.spec_drift) < 20:
                ctx.spec_drift.append({"part": PART, "harness_self_contradiction": bh[1], "scenario": bh[0]})
        if len(bad_harness) > max(2, nsc // 200):
            raise vlib.Inconclusive("the harness contradicts itself in %d of %d scenario(s), first: %s" % (len(bad_harness), nsc, json.dumps(bad_harness[0])[:600]))
    # responsive peers the node dropped (not forbidden, but it shrinks what is judged): information
    lost = 0
    for i, e in enumerate(events):
        if e["event"] == "end" and e.get("closed"):
            lost += 1
    if lost:
        ctx.extra["net_scenarios_with_peers_closed_" + what] = lost
    return clean


def any_garbage(evs):
    for e in evs:
        g = e.get("g")
        if g is True or (isinstance(g, list) and g and e["event"] != "init"):
            return True
    return False


def compact(evs, keep=120):
    if len(evs) <= keep:
        return evs
    return evs[: keep // 2] + [{"event": "...", "skipped": len(evs) - keep}] + evs[-keep // 2:]


def judge_hs(ctx, trace):
    events = vlib.read_ndjson(trace)
    if not events:
        raise vlib.Inconclusive("no handshake cases recorded")
    fails = ctx.trace_judge(SUB, "HandshakeTrace.tla", "Trace_Handshake.cfg", trace, timeout=3000)
    ctx.extra["net_trace_events_handshake"] = len(events)
    starts = segments(events, "hsinit")
    clean, reported, bad_harness = True, set(), []
    info = ctx.extra.setdefault("net_informational", {})
    for f in fails:
        li = f["line"] - 1
        s = starts[li]
        for w in f["what"]:
            if w.startswith("i:"):
                info[w] = info.get(w, 0) + 1
                if info[w] <= 2 and len(ctx.spec_drift) < 20:
                    ctx.spec_drift.append({"part": PART, "informational": w, "script": events[s]["script"], "event": events[li]})
        x = [w for w in f["what"] if w.startswith("x:")]
        if x:
            bad_harness.append((events[s]["script"], x, events[li]))
            continue
        judged = sorted(w for w in f["what"] if not w.startswith("i:"))
        if not judged or s in reported:
            continue
        reported.add(s)
        clean = False
        ctx.violation({"part": PART, "kind": "HandshakeViolation", "rule": judged[0]},
                      {"what": "handshake rule %s broken by the real server" % judged[0], "script": events[s]["script"], "history": events[s:li + 1]})
    if bad_harness:
        raise vlib.Inconclusive("handshake harness contradicts itself in %d case(s), first: %s" % (len(bad_harness), json.dumps(bad_harness[0])[:600]))
    # drift: HandshakeImpl's prediction against the real outcome
    n = 0
    for i, e in enumerate(events):
        if e["event"] != "hsend":
            continue
        init = events[starts[i]]
        pred = init.get("pred") or {}
        seg = events[starts[i]:i + 1]
        real = {"final": e["final"], "taken": e["taken"], "veracks": sum(1 for x in seg if x["event"] == "r" and x["m"] == "verack"),
                "pongs": sum(1 for x in seg if x["event"] == "r" and x["m"] == "pong"),
                "answers": sorted(x["i"] for x in seg if x["event"] == "r" and x["m"] == "block" and x["i"] != 50)}
        exp = {k: (sorted(pred[k]) if k == "answers" else pred[k]) for k in real if k in pred}
        # answers that were still on their way when the node closed are legitimately lost: compare only when connected
        if exp and ((exp != real and e["final"]) or exp["final"] != real["final"] or exp["taken"] != real["taken"]):
            n += 1
            if len(ctx.spec_drift) < 20:
                ctx.spec_drift.append({"part": PART, "model": "HandshakeImpl", "script": init["script"], "predicted": exp, "real": real})
    ctx.extra["net_handshake_impl_drift"] = n
    return clean


# ------------------------------------------------------------------------------------------------ binding self-tests
def selftest_net(ctx, trace):
    ev = vlib.read_ndjson(trace)
    starts = segments(ev, "init")
    done = {}
    for i, e in enumerate(ev):
        s = starts[i]
        seg_has_acc = e["event"] == "acc"
        if "swap" not in done and seg_has_acc and e["to"] >= e["from"] + 2 and e["ok"]:
            m = e["from"] + 1
            done["swap"] = (s, i, [dict(e, to=m - 1), dict(e, **{"from": m + 1, "to": m + 1}), dict(e, **{"from": m, "to": m})], "InOrder", 1)
        if "twice" not in done and seg_has_acc and e["ok"]:
            done["twice"] = (s, i, [e, dict(e, **{"from": e["to"], "to": e["to"]})], "AtMostOnce", 1)
        if "garbage" not in done and seg_has_acc and e["ok"]:
            done["garbage"] = (s, i, [dict(e, ok=False)], "GarbageAccepted", 0)
        if "behind" not in done and e["event"] == "end" and e["outcome"] == "converged" and e["h"] > ev[s]["h0"] + 1 and e["h"] == e["exp"]:
            # the same run, but the ledger stopped one block early
            seg = []
            for x in ev[s:i]:
                if x["event"] == "acc" and x["to"] >= e["h"]:
                    if x["from"] <= e["h"] - 1:
                        seg.append(dict(x, to=e["h"] - 1))
                    continue
                seg.append(x)
            done["behind"] = (None, None, seg + [dict(e, h=e["h"] - 1)], ("NotConverged", "Stalled"), len(seg))
    if len(done) < 4:
        raise vlib.Inconclusive("net self-test: no place to corrupt the trace (%s)" % sorted(done))
    segs, expect_at = [], {}
    for name, (s, i, repl, expect, off) in done.items():
        if s is None:
            base = len(segs)
            segs += repl
            expect_at[base + off + 1] = (name, expect)
        else:
            base = len(segs)
            segs += ev[s:i] + repl
            expect_at[base + (i - s) + off + 1] = (name, expect)
    path = os.path.join(ctx.work, "selftest-net.ndjson")
    vlib.write_ndjson(path, segs)
    st, tr = ctx.states, ctx.transitions
    fails = ctx.trace_judge(SUB, "NetSyncTrace.tla", "Trace_NetSync.cfg", path, timeout=600)
    ctx.states, ctx.transitions = st, tr
    for line, (name, expect) in expect_at.items():
        exp = expect if isinstance(expect, tuple) else (expect,)
        if not any(f["line"] == line and any(x in f["what"] for x in exp) for f in fails):
            raise vlib.Inconclusive("net binding self-test %s: corrupted trace was not rejected at line %d (%s expected; got %s)" % (
                name, line, exp, [(f["line"], f["what"]) for f in fails][:6]))
        ctx.extra["net_binding_selftests"] = ctx.extra.get("net_binding_selftests", 0) + 1


def selftest_hs(ctx, trace):
    ev = vlib.read_ndjson(trace)
    starts = segments(ev, "hsinit")
    done = {}
    for i, e in enumerate(ev):
        s = starts[i]
        if e["event"] != "hsend":
            continue
        script = ev[s]["script"]
        seg = ev[s:i]
        if "notclosed" not in done and e["closed"] and not e["final"]:
            done["notclosed"] = (seg + [dict(e, closed=False, final=True)], "IllegalNotClosed|ConnectedWithoutHandshake")
        if "acted" not in done and "B" in script and e["taken"] == 0:
            done["acted"] = (seg + [dict(e, taken=1)], "ActedBeforeHandshake")
        if "earlyverack" not in done and script[:1] == ["A"]:
            k = next(j for j, x in enumerate(seg) if x["event"] == "s")
            done["earlyverack"] = (seg[:k + 1] + [{"event": "r", "m": "verack"}] + seg[k + 1:] + [e], "VerackWithoutVersion")
        if "earlypong" not in done and script[:2] == ["V", "P"]:
            k = [j for j, x in enumerate(seg) if x["event"] == "s"][1]
            done["earlypong"] = (seg[:k + 1] + [{"event": "r", "m": "pong"}] + seg[k + 1:] + [e], "PayloadBeforeHandshake")
    if len(done) < 4:
        raise vlib.Inconclusive("handshake self-test: no place to corrupt the trace (%s)" % sorted(done))
    segs, expect = [], []
    for name, (seg, exp) in done.items():
        a = len(segs)
        segs += seg
        expect.append((name, exp, a + 1, len(segs)))
    path = os.path.join(ctx.work, "selftest-hs.ndjson")
    vlib.write_ndjson(path, segs)
    st, tr = ctx.states, ctx.transitions
    fails = ctx.trace_judge(SUB, "HandshakeTrace.tla", "Trace_Handshake.cfg", path, timeout=600)
    ctx.states, ctx.transitions = st, tr
    for name, exp, a, b in expect:
        if not any(a <= f["line"] <= b and any(x in f["what"] for x in exp.split("|")) for f in fails):
            raise vlib.Inconclusive("handshake binding self-test %s: corrupted trace was not rejected (%s expected)" % (name, exp))
        ctx.extra["net_binding_selftests"] = ctx.extra.get("net_binding_selftests", 0) + 1
