"""C08 - memory pool invariants.  Model: spec/mempool (Mempool abstract judge, MempoolImpl code-shaped,
MempoolSim generator, MempoolTrace validator).  Real code: mempool.Pool driven by harness/c08mempool."""
import json
import os
import random

import vlib

RULE = ("cases = steps (Add/Remove/RemoveStale) executed on the real mempool.Pool, from TLC simulation behaviours of "
        "MempoolImpl over 4 universes and from seeded random universes of 8-17 transactions; distinct = distinct "
        "(source kind, operation, argument, resulting pool) tuples; every step is non-trivial in that all 8 abstract "
        "predicates + the step's action property are evaluated on it by TLC")


def run(ctx):
    q = ctx.quick()
    # 1. exhaustive: Impl => Abstract on four universes
    for u in ("U1", "U2", "U3", "U4"):
        ctx.tlc_mc("mempool", "MCMempool.tla", "MC_%s.cfg" % u, timeout=600, coverage=not q, must_cover=False)
    # model-level non-vacuity: the two named deviations must be caught by the same invariants
    for u in ("U3bug", "U4bug"):
        try:
            ctx.tlc_mc("mempool", "MCMempool.tla", "MC_%s.cfg" % u, timeout=600)
            raise vlib.Inconclusive("deviation %s not detected by the model invariants (vacuous model)" % u)
        except vlib.ModelError:
            ctx.extra["model_selftests"] = ctx.extra.get("model_selftests", 0) + 1
    # 2. behaviours
    behaviours = []
    seen = set()
    num = 40 if q else 600
    for i, u in enumerate(("U1", "U2", "U3", "U4")):
        for h in ctx.tlc_sim("mempool", "MempoolSim.tla", "Sim_%s.cfg" % u, num=num, depth=14, timeout=300 if q else 1200,
                             seed=ctx.seed * 10 + i):
            k = json.dumps(h, sort_keys=True)
            if k not in seen:
                seen.add(k)
                behaviours.append(h)
    rnd = random.Random(ctx.seed)
    rnd.shuffle(behaviours)
    behaviours = behaviours[: (1500 if q else 30000)]
    ind = os.path.join(ctx.work, "in-c08")
    os.makedirs(ind)
    json.dump(behaviours, open(os.path.join(ind, "behaviours.json"), "w"))
    # 3. real code
    res = ctx.go_driver("c08mempool", "TestDriver", env={"VERIF_IN": ind, "VERIF_RANDOM": 1500 if q else 40000},
                        timeout=3000)
    ctx.absorb(res)
    # 4. TLC judges the recorded traces against the abstract specification
    trace = os.path.join(res["_out"], "trace.ndjson")
    events = vlib.read_ndjson(trace)
    fails = ctx.trace_judge("mempool", "MempoolTrace.tla", "Trace_Mempool.cfg", trace, timeout=3000)
    ctx.traces_validated += res.get("traces", 0)
    ctx.extra["trace_events"] = len(events)
    # group failures per history: the first failing step of a history is the violation
    start = 0
    starts = []
    for i, e in enumerate(events):
        if e["event"] == "init":
            start = i
        starts.append(start)
    reported = set()
    for f in fails:
        li = f["line"] - 1
        s = starts[li]
        if s in reported:
            continue
        reported.add(s)
        ev = events[li]
        for w in sorted(f["what"]):
            sig = {"kind": w, "op": ev["event"]}
            ctx.violation(sig, {"what": "abstract predicate %s false after %s on the real pool" % (w, ev["event"]),
                                "history": events[s:li + 1]})
            break
    # 5. binding self-test: a corrupted good trace must be rejected
    if not fails:
        selftest(ctx, events)
    # 6. extension: the node's second pool (P2P notary requests) - spec/notarypool, harness/c08notary
    ep = os.path.join(os.path.dirname(os.path.abspath(__file__)), "c08_notary.py")
    if os.path.exists(ep):
        import importlib.util
        sp = importlib.util.spec_from_file_location("check_c08_notary", ep)
        m = importlib.util.module_from_spec(sp)
        sp.loader.exec_module(m)
        m.run_ext(ctx)
    # 7. extension: the notary SERVICE above that pool - spec/notarysvc, harness/c08notarysvc
    ep = os.path.join(os.path.dirname(os.path.abspath(__file__)), "c08_notarysvc.py")
    if os.path.exists(ep):
        import importlib.util
        sp = importlib.util.spec_from_file_location("check_c08_notarysvc", ep)
        m = importlib.util.module_from_spec(sp)
        sp.loader.exec_module(m)
        m.run_ext(ctx)


def selftest(ctx, events):
    # corruption 1: swap two adjacent pool entries of different priority in some add event
    # corruption 2: make a failing add drop an element
    ev = [dict(e) for e in events[:4000]]
    done = {}
    T = {}
    for i, e in enumerate(ev):
        if e["event"] == "init":
            T = {t["id"]: t for t in e["txs"]}
            continue
        p = e.get("pool") or []
        if "swap" not in done and len(p) >= 2:
            for j in range(len(p) - 1):
                a, b = T[p[j]], T[p[j + 1]]
                if (a["high"], a["fpb"], a["netfee"]) != (b["high"], b["fpb"], b["netfee"]):
                    q = list(p)
                    q[j], q[j + 1] = q[j + 1], q[j]
                    done["swap"] = (i, dict(e, pool=q), "Sorted")
                    break
        if "faildrop" not in done and e["event"] == "add" and not e["ok"] and len(p) >= 1:
            done["faildrop"] = (i, dict(e, pool=p[1:], keys=sorted(p[1:]), count=len(p) - 1), "FailedAddUnchanged")
    if len(done) < 2:
        raise vlib.Inconclusive("self-test could not find a place to corrupt the trace")
    for name, (i, bad, expect) in done.items():
        # keep only the history containing i
        s = i
        while ev[s]["event"] != "init":
            s -= 1
        t = s + 1
        while t < len(ev) and ev[t]["event"] != "init":
            t += 1
        seg = ev[s:i] + [bad]   # cut right after the corrupted event: later events are not comparable
        path = os.path.join(ctx.work, "selftest-%s.ndjson" % name)
        vlib.write_ndjson(path, seg)
        st, tr = ctx.states, ctx.transitions
        fails = ctx.trace_judge("mempool", "MempoolTrace.tla", "Trace_Mempool.cfg", path, timeout=300)
        ctx.states, ctx.transitions = st, tr
        if not any(expect in f["what"] for f in fails):
            raise vlib.Inconclusive("binding self-test %s: corrupted trace was not rejected (%s expected)" % (name, expect))
        ctx.extra["binding_selftests"] = ctx.extra.get("binding_selftests", 0) + 1
