"""Extension of C08 / C07 - the NOTARY SERVICE of a designated notary node (pkg/services/notary: notary.go, node.go,
request_type.go), the layer above the notary request pool of c08_notary: it hears of P2P notary requests from the pool's
events, collects the co-signers' signatures per main transaction, and hands the completed main transaction - or, from
NotValidBefore on, the fallbacks - to the node's memory pool, from where they go into blocks.

Model: spec/notarysvc (NotarySvc = abstract level in two parts, NotarySvcImpl = code-shaped model of the request map /
witness bookkeeping / newTxs queue / PostPersist / UpdateNotaryNodes with named deviations, MCNotarySvc universes,
NotarySvcSim generator, NotarySvcTrace validator).
Real code: harness/c08notarysvc - the REAL notary.Notary (its mainLoop and newTxCallbackLoop goroutines running) attached to
a real core.Blockchain and the real request pool of a real (never started) network.Server; requests enter through
Server.RelayP2PNotaryRequest, blocks through AddBlock in wire form; what the service sends is examined in its
onTransaction callback with the real ledger and offered to the real memory pool (PoolTx), from which the blocks are made.

Verdicts (ruling of the lead):
  VIOLATION only for PART 1 of the abstract level, i.e. what the statements literally demand on the path
  service -> memory pool -> block: AdmitSound (C07 admission soundness), PoolNoConflict / PoolSolvent (C08 invariants of the
  memory pool incl. notary depositors), Proposable (C07 last sentence), OneOutcome (C07: no on-chain conflict).
  Everything that concerns the service's own intent (PART 2, names "beyond:...") is a named OBSERVATION: drift entries +
  counters `notarysvc_beyond` in the evidence, never a violation.  beyond:Withdrawn and beyond:NothingLost are established
  behaviour of the unchanged tree (signatures of removed requests stay; the pool does not announce its content to a new /
  newly authorised service instance); any other beyond-statement name is listed under `notarysvc_beyond_unexpected`.

Call from the registered check of C08:   ext = load('c08_notarysvc'); ext.run_ext(ctx)
Violations carry "part": "notarysvc" in their signature."""
import concurrent.futures
import json
import os
import random

import vlib

PART = "notarysvc"
SUB = "notarysvc"
MC_QUICK = ("MC_U1q", "MC_U3q", "MC_U4q", "MC_live1", "MC_withdraw")
MC_THOROUGH = ("MC_U1", "MC_U2", "MC_U3", "MC_U4", "MC_U1q", "MC_U2q", "MC_U3q", "MC_U4q", "MC_live1", "MC_live4", "MC_withdraw")
# named deviations of NotarySvcImpl and the invariant that must refute each
DEVIATIONS = {
    "MC_dev_firstcopy": "BeyondInv", "MC_dev_doublecount": "BeyondInv", "MC_dev_onewitness": "BeyondInv",
    "MC_dev_earlyfallback": "BeyondInv", "MC_dev_noverify": "BeyondInv", "MC_dev_stalekey": "BeyondInv",
    "MC_dev_nonkeys": "BeyondInv", "MC_dev_desigrace": "BeyondInv", "MC_dev_maintwice": "MainOnce",
    "MC_dev_nowithdraw": "WithdrawnInv",
}
SIMS = (("Sim_U1", 60), ("Sim_U2", 60), ("Sim_U3", 60), ("Sim_U4", 60), ("Sim_U5", 90))
EXPECTED_BEYOND = ("beyond:Withdrawn", "beyond:NothingLost")   # established behaviour of the unchanged tree
JUDGED = ("AdmitSound", "PoolNoConflict", "PoolSolvent", "Proposable", "OneOutcome")


def violation(ctx, sig, detail):
    """ctx.violation, except that a stand-alone run of the extension (property id C08_NOTARYSVC) honours the known findings
    listed for C08 / C07 the way the registered check does."""
    if ctx.pid not in ("C08", "C07"):
        for kf in ctx.known.get("findings", []):
            if kf.get("property") in ("C08", "C07") and vlib.sig_match(kf.get("signature", {}), sig):
                if kf not in ctx.known_hits:
                    ctx.known_hits.append(kf)
                    print("KNOWN-FINDING: property=%s %s" % (kf.get("property"), kf.get("what", json.dumps(kf.get("signature")))), flush=True)
                return
    ctx.violation(sig, detail)


def _mc_one(ctx, d, cfg, timeout, workers):
    return cfg, ctx.tlc(d, "MCNotarySvc.tla", cfg + ".cfg", timeout, workers=workers)


def model_checks(ctx):
    """Exhaustive runs (Impl => both parts of the abstract level) and the named deviations, several TLC at a time."""
    q = ctx.quick()
    d = ctx.spec_scratch(SUB)
    must = MC_QUICK if q else MC_THOROUGH
    jobs = [(c, 900 if q else 3600, 4) for c in must] + [(c, 600, 2) for c in DEVIATIONS]
    results = {}
    with concurrent.futures.ThreadPoolExecutor(max_workers=4 if q else 3) as ex:
        for cfg, r in ex.map(lambda j: _mc_one(ctx, d, j[0], j[1], j[2]), jobs):
            results[cfg] = r
    for cfg in must:
        r = results[cfg]
        if r["timed_out"]:
            raise vlib.Inconclusive("TLC timed out on MCNotarySvc/%s" % cfg)
        if r["error"] or "states" not in r:
            raise vlib.ModelError("TLC reported an error on MCNotarySvc/%s: %s" % (cfg, r["error"]), r)
        ctx.states += r["states"]
        ctx.transitions += r["transitions"]
        vlib.log("MC MCNotarySvc/%s: %d distinct states, %d generated, depth %s, %.1fs" % (cfg, r["states"], r["transitions"], r.get("depth"), r["wall_s"]))
    for cfg, inv in DEVIATIONS.items():
        r = results[cfg]
        if r["timed_out"]:
            raise vlib.Inconclusive("TLC timed out on deviation %s" % cfg)
        if ("Invariant %s is violated" % inv) not in r["out"]:
            raise vlib.Inconclusive("deviation %s not refuted by %s (vacuous model): %s" % (cfg, inv, vlib.tail(r["out"], 12)))
        ctx.extra["notarysvc_model_selftests"] = ctx.extra.get("notarysvc_model_selftests", 0) + 1
    ctx.extra["notarysvc_deviations_refuted"] = sorted(c[7:] for c in DEVIATIONS)


def behaviours_of(ctx):
    q = ctx.quick()
    out, seen = [], set()

    def one(a):
        i, (cfg, depth) = a
        return ctx.tlc_sim(SUB, "NotarySvcSim.tla", cfg + ".cfg", num=40 if q else 700, depth=depth, timeout=300 if q else 1500,
                           seed=ctx.seed * 10 + i)
    ctx.spec_scratch(SUB)
    with concurrent.futures.ThreadPoolExecutor(max_workers=5) as ex:
        for hs in ex.map(one, enumerate(SIMS)):
            for h in hs:
                if len(h) < 4:
                    continue
                k = json.dumps(h, sort_keys=True)
                if k not in seen:
                    seen.add(k)
                    out.append(h)
    out.sort(key=lambda h: json.dumps(h, sort_keys=True))
    random.Random(ctx.seed).shuffle(out)
    return out[: (220 if q else 5000)]


def run_ext(ctx):
    q = ctx.quick()
    # 1. exhaustive model checking + model-level non-vacuity
    model_checks(ctx)
    # 2. behaviours
    behaviours = behaviours_of(ctx)
    if not behaviours:
        raise vlib.Inconclusive("no NotarySvcImpl behaviours generated")
    ind = os.path.join(ctx.work, "in-c08notarysvc")
    os.makedirs(ind, exist_ok=True)
    json.dump(behaviours, open(os.path.join(ind, "behaviours.json"), "w"))
    # 3. real code
    res = ctx.go_driver("c08notarysvc", "TestDriver", env={"VERIF_IN": ind, "VERIF_RANDOM": 150 if q else 4000, "VERIF_PAR": 6 if q else 8},
                        timeout=3000)
    ctx.absorb(res)
    if res.get("crashed"):
        return
    st = res.get("stats", {})
    if st.get("notarysvc_worlds_failed"):
        raise vlib.Inconclusive("%s chain worlds could not be prepared: %s" % (st["notarysvc_worlds_failed"], (res.get("drift") or [None])[0]))
    # 4. TLC judges the recorded traces against the abstract specification
    trace = os.path.join(res["_out"], "trace.ndjson")
    events = vlib.read_ndjson(trace)
    fails = ctx.trace_judge_parts(SUB, "NotarySvcTrace.tla", "Trace_NotarySvc.cfg", events, max_events=30000, timeout=3000)
    ctx.traces_validated += res.get("traces", 0)
    ctx.extra["notarysvc_trace_events"] = len(events)
    start, starts = 0, []
    for i, e in enumerate(events):
        if e["event"] == "init":
            start = i
        starts.append(start)
    beyond, reported, judged_fail = {}, set(), False
    for f in fails:
        li = f["line"] - 1
        s, ev = starts[li], events[li]
        op = ev["event"] + (":" + ev["kind"] if ev["event"] in ("block", "sent") else "")
        for w in sorted(f["what"]):
            if w.startswith("beyond:"):
                first = w not in beyond
                beyond[w] = beyond.get(w, 0) + 1
                if (first or (w not in EXPECTED_BEYOND and beyond[w] <= 3)) and len(ctx.spec_drift) < 20:
                    ctx.spec_drift.append({"part": PART, "observation": w, "expected_on_unchanged_tree": w in EXPECTED_BEYOND, "op": op,
                                           "src": events[s].get("src"), "event": {k: v for k, v in ev.items() if k != "twin_events"},
                                           "history_ops": [brief(x) for x in events[s + 1:li + 1]][-40:]})
                continue
            judged_fail = True
            if (s, w) in reported:
                continue
            reported.add((s, w))
            sig = {"kind": w, "part": PART, "op": op}
            violation(ctx, sig, {"what": "abstract predicate %s (part 1: demanded by the statements of C07 / C08) false at %s of the real "
                                         "notary service / memory pool / ledger" % (w, op), "history": events[s:li + 1]})
    ctx.extra["notarysvc_beyond"] = beyond
    ctx.extra["notarysvc_beyond_unexpected"] = {k: v for k, v in beyond.items() if k not in EXPECTED_BEYOND}
    for k in ("notarysvc_not_at_rest", "notarysvc_model_drift", "notarysvc_twins_compared", "notarysvc_twin_points"):
        ctx.extra.setdefault(k, st.get(k, 0))
    ctx.assumptions.append(
        "notary service: one service instance per world, wallet with two of three notary keys; single-signature and m-of-n "
        "multisignature signers (no contract / AppCall signers); the driver's steps are taken when the service is at rest (its two "
        "goroutines seen parked after a rendezvous with the pool's and the chain's event dispatchers; bounded wait, a miss ends the "
        "history as drift); designation changes while a finalised transaction waits in newTxs are outside the schedules (model: "
        "DesigRace); judged are only the predicates of part 1 (C07 / C08 on the path service -> memory pool -> block), part 2 is "
        "reported as beyond-statement observations")
    # 5. binding self-test: corrupted good traces must be rejected, predicate by predicate
    if not judged_fail:
        selftest(ctx, events)


def brief(e):
    k = e["event"]
    if k == "submit":
        return "submit %s %s" % (e["req"], "ok" if e["ok"] else "refused")
    if k == "block":
        return "block %s %s h=%s inc=%s" % (e["kind"], e.get("arg"), e["h"], e.get("inc"))
    if k == "sent":
        return "sent %s m%s r%s h=%s admit=%s pooled=%s" % (e["kind"], e["main"], e["req"], e["h"], e["admit"], e["pooled"])
    if k == "relay":
        return "relay %s" % e["ok"]
    return k


def selftest(ctx, events):
    ev = [dict(e) for e in events[:8000]]
    done = {}
    T = {}
    for i, e in enumerate(ev):
        k = e["event"]
        if k == "init":
            T = {r["id"]: r for r in e["reqs"]}
            continue
        if k == "sent" and e["pooled"] and e["wok"]:
            if "admit" not in done:
                done["admit"] = (i, dict(e, wok=[False] + e["wok"][1:]), "AdmitSound")
            if "early" not in done and e["kind"] == "fb":
                done["early"] = (i, dict(e, h=e["nvb"] - 1), "beyond:FallbackNotEarly")
            if "key" not in done:
                done["key"] = (i, dict(e, nkey="K3"), "beyond:ByDesignated")
            if "sigs" not in done and e["kind"] == "main" and e["used"]:
                done["sigs"] = (i, dict(e, used=e["used"] + [{"w": e["used"][0]["w"], "key": ""}]), "beyond:SigsFromRequests")
            if "refused" not in done:
                done["refused"] = (i, dict(e, admit=False, pooled=False), "beyond:Admitted")
        if k in ("submit", "block") and e.get("accepted", True):
            if "conflict" not in done and e["mpm"]:
                r = [x for x in T.values() if x["main"] == e["mpm"][0]]
                if r:
                    done["conflict"] = (i, dict(e, mpf=e["mpf"] + [r[0]["id"]]), "PoolNoConflict")
            if "solvent" not in done and e["mpf"]:
                r = T[e["mpf"][0]]
                done["solvent"] = (i, dict(e, amt=dict(e["amt"], **{r["dep"]: r["cost"] - 1})), "PoolSolvent")
            if "outcome" not in done and e["chm"]:
                r = [x for x in T.values() if x["main"] == e["chm"][0]]
                if r:
                    done["outcome"] = (i, dict(e, chf=e["chf"] + [r[0]["id"]]), "OneOutcome")
        if k == "block" and e["accepted"] and "proposable" not in done and e["inc"]:
            done["proposable"] = (i, dict(e, accepted=False), "Proposable")
    need = {"admit", "early", "key", "sigs", "refused", "conflict", "solvent", "outcome", "proposable"}
    if need - set(done):
        raise vlib.Inconclusive("notary service self-test could not find places to corrupt the trace (missing %s)" % sorted(need - set(done)))
    segs, expect_at = [], {}
    for name, (i, bad, expect) in sorted(done.items()):
        s = i
        while ev[s]["event"] != "init":
            s -= 1
        segs += ev[s:i] + [bad]
        expect_at[len(segs)] = (name, expect)
    path = os.path.join(ctx.work, "selftest-nsvc.ndjson")
    vlib.write_ndjson(path, segs)
    stt, tr = ctx.states, ctx.transitions
    fails = ctx.trace_judge(SUB, "NotarySvcTrace.tla", "Trace_NotarySvc.cfg", path, timeout=600)
    ctx.states, ctx.transitions = stt, tr
    for line, (name, expect) in expect_at.items():
        if not any(f["line"] == line and expect in f["what"] for f in fails):
            raise vlib.Inconclusive("notary service binding self-test %s: corrupted trace was not rejected (%s expected)" % (name, expect))
        ctx.extra["notarysvc_binding_selftests"] = ctx.extra.get("notarysvc_binding_selftests", 0) + 1
