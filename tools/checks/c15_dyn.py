"""Extension of the C15 check: witness scopes / rules while the CONTRACT TABLE CHANGES under a running invocation
(ContractManagement.update / destroy / deploy inside the transaction, re-entrant self-updates seen from older frames,
changes discarded by a FAULT or by a caught exception, transactions of one block and of consecutive blocks).
Called from c15.py:

    ext = _load_ext('c15_dyn'); ext.run_ext(ctx)

Model: spec/witnessdyn  WitnessDynOps + WitnessDyn (abstract: contract table, invocation stack, actions; the answer is
Witness!CheckX over the CURRENT table), WitnessDynImpl (neo-go shaped: stack of DAO layers each owning or inheriting a copy
of ContractManagement's contract cache, VM contexts carrying their own calling hash and load-time manifest; five named
deviations), MCWitnessDyn (invariant ImplAgrees over a family of signer lists), WitnessDynSim (generator), WitnessDynTrace
(judge).  Witness.tla / WitnessImpl.tla in spec/witnessdyn are byte-identical copies of spec/witness (verified at run time).
Real code: harness/c15dyn - real signed transactions in real blocks of a neotest chain."""
import json
import os
import random

import vlib

PART = "dyn"
RULE_EXT = ("dyn: cases = System.Runtime.CheckWitness answers observed inside real transactions (real blocks of a neotest "
            "chain) at every point of histories in which the contract table changes under the running invocation (update / "
            "destroy / deploy, rollback by FAULT or by a caught exception, next transaction / next block); histories are "
            "TLC-generated behaviours of WitnessDynSim plus seeded random ones over a larger universe; every answer is judged "
            "by WitnessDynTrace (Witness!CheckX over the table the specification tracks from the recorded steps) and, for TLC "
            "histories, compared with the answer code TLC printed")

BUGS = (("MC_bug_snapshot.cfg", "GroupsFromFrameSnapshot"), ("MC_bug_callersnap.cfg", "CallerGroupsAtCallTime"),
        ("MC_bug_fault.cfg", "StaleCacheAfterFault"), ("MC_bug_catch.cfg", "StaleCacheAfterCatch"),
        ("MC_bug_destroyed.cfg", "DestroyedStillGrouped"))
C15_NAMES = ("GrantedWhereDenied", "RefusedWhereGranted")
# the specification's table is not the chain's STORED table / a step the abstract actions do not admit: the history is not
# judged.  (TableCache / TableInTx - ContractManagement's cache shows something else than the specification's table - are
# reported as drift but do not stop the judgement: a stale cache is exactly what makes witness checks go wrong.)
UNJUDGEABLE = ("TableStored", "ModelStep")
MAX_SIGS = 6


def same_file(a, b):
    return open(a, "rb").read() == open(b, "rb").read()


def run_ext(ctx):
    q = ctx.quick()
    spec = os.path.join(vlib.VERIF, "spec")
    for f in ("Witness.tla", "WitnessImpl.tla"):
        if not same_file(os.path.join(spec, "witness", f), os.path.join(spec, "witnessdyn", f)):
            raise vlib.Inconclusive("dyn: spec/witnessdyn/%s is not the copy of spec/witness/%s any more" % (f, f))
    # 1. model non-vacuity: every named deviation of the Impl model must be refuted by ImplAgrees
    for cfg, name in BUGS:
        try:
            ctx.tlc_mc("witnessdyn", "MCWitnessDyn.tla", cfg, timeout=300, workers=2)
            raise vlib.Inconclusive("dyn: named deviation %s not detected by ImplAgrees (vacuous model)" % name)
        except vlib.ModelError:
            ctx.extra["dyn_model_selftests"] = ctx.extra.get("dyn_model_selftests", 0) + 1
    # 2. exhaustive: Impl => Abstract in every reachable state, for every signer list of the family and every account
    for cfg in (("MC_q1.cfg", "MC_q2.cfg", "MC_q3.cfg") if q else ("MC_full.cfg", "MC_try.cfg", "MC_try2.cfg", "MC_try3.cfg")):
        ctx.tlc_mc("witnessdyn", "MCWitnessDyn.tla", cfg, timeout=2400, workers=4)
    # 3. behaviours of the implementation-shaped model
    behaviours, seen = [], set()
    for h in ctx.tlc_sim("witnessdyn", "WitnessDynSim.tla", "Sim_dyn.cfg", num=250 if q else 3000, depth=120,
                         timeout=300 if q else 1200, seed=ctx.seed):
        k = json.dumps(h, sort_keys=True)
        if k not in seen:
            seen.add(k)
            behaviours.append(h)
    if not behaviours:
        raise vlib.Inconclusive("dyn: no behaviours generated")
    ind = os.path.join(ctx.work, "in-c15dyn")
    os.makedirs(ind, exist_ok=True)
    json.dump(behaviours, open(os.path.join(ind, "behaviours.json"), "w"))
    ctx.extra["dyn_tlc_histories"] = len(behaviours)
    # 4. the real chain
    res = ctx.go_driver("c15dyn", "TestDriver", env={"VERIF_IN": ind, "VERIF_RANDOM": 150 if q else 3000}, timeout=3000,
                        extra=["-p", "4"])
    stats = res.pop("stats", None) or {}
    for k, v in stats.items():
        ctx.extra["dyn_" + k] = v
    ctx.absorb(res)
    # 5. TLC judges the recorded trace with the abstract specification
    trace = os.path.join(res["_out"], "trace.ndjson")
    events = vlib.read_ndjson(trace)
    fails = judge(ctx, trace, events)
    ctx.traces_validated += res.get("traces", 0)
    report(ctx, events, fails)
    ctx.assumptions.append("dyn: probe contracts are hand-assembled NeoVM code interpreting a program tree; what a transaction "
                           "really did is reconstructed from the markers it left in an array that is part of the application "
                           "log's stack (also of FAULTed transactions)")
    # 6. binding self-test
    if not fails:
        selftest(ctx, events)


def judge(ctx, trace, events, chunk=40000):
    """WitnessDynTrace over the trace, history-aligned chunks. Returns fails with global line numbers (1-based)."""
    fails = []
    starts = [i for i, e in enumerate(events) if e["event"] == "init"] + [len(events)]
    lo = 0
    while lo < len(events):
        hi = max([s for s in starts if s <= lo + chunk and s > lo] or [min(s for s in starts if s > lo)])
        p = os.path.join(ctx.work, "dyn-trace-part.ndjson")
        vlib.write_ndjson(p, events[lo:hi])
        for f in ctx.trace_judge("witnessdyn", "WitnessDynTrace.tla", "Trace_WitnessDyn.cfg", p, timeout=3000):
            f["line"] += lo
            fails.append(f)
        lo = hi
    return fails


def history_of(events, li):
    s = li
    while events[s]["event"] != "init":
        s -= 1
    e = li
    while e + 1 < len(events) and events[e + 1]["event"] != "init":
        e += 1
    return s, e


def last_change(events, s, li):
    """What happened to the contract table most recently before line li of the history starting at s."""
    what = "none"
    for e in events[s:li]:
        k = e["event"]
        if k in ("upd", "destroy", "deploy"):
            what = k
        elif k == "throw":
            what = "rollback-catch"
        elif k == "endtx":
            what = "rollback-fault" if e["how"] == "FAULT" else what
    return what


def signature(events, li, kind):
    s, _ = history_of(events, li)
    ev = events[li]
    sg = {}
    for e in events[s:li]:
        if e["event"] == "begintx":
            sg = e["signers"][-1]
    return {"part": PART, "kind": kind, "acct": ev.get("acct"), "scopes": "+".join(sg.get("scopes", [])) or "None",
            "after": last_change(events, s, li)}


def report(ctx, events, fails):
    """C15 failures -> violations (the first one of a history; at most MAX_SIGS signatures); binding failures -> drift,
    and the history they occur in is not judged."""
    by_hist = {}
    for f in sorted(fails, key=lambda f: f["line"]):
        li = f["line"] - 1
        s, _ = history_of(events, li)
        by_hist.setdefault(s, []).append(f)
    sigs = {}
    nbind = 0
    unjudged = set()
    for s, fs in sorted(by_hist.items()):
        binding = [f for f in fs if not set(f["what"]) & set(C15_NAMES)]
        if binding:
            nbind += 1
            if len(ctx.spec_drift) < 20:
                f = binding[0]
                ctx.spec_drift.append({"part": PART, "kind": "table-model-mismatch", "what": sorted(f["what"]),
                                       "history": events[s].get("h"), "event": events[f["line"] - 1]})
        if any(set(f["what"]) & set(UNJUDGEABLE) for f in fs):
            unjudged.add(s)
            continue
        fs = [f for f in fs if set(f["what"]) & set(C15_NAMES)]
        if not fs:
            continue
        f = fs[0]
        li = f["line"] - 1
        kind = "granted-where-denied" if "GrantedWhereDenied" in f["what"] else "refused-where-granted"
        add_violation(ctx, sigs, signature(events, li, kind), events, li,
                      "WitnessDynTrace: %s - CheckWitness(%s) answered %s where the rule over the current table says code %s"
                      % (kind, events[li].get("acct"), events[li].get("res"), f["ctx"].get("code")), f["ctx"])
    # the direct comparison with the answer codes TLC printed (TLC histories that stayed on plan)
    ndirect = 0
    for li, e in enumerate(events):
        if e["event"] != "check" or "code" not in e:
            continue
        ndirect += 1
        granted, c = e["res"] == 1, e["code"]
        if (granted and c not in (1, 3)) or (not granted and c == 1):
            s, _ = history_of(events, li)
            if s in unjudged:
                continue
            kind = "granted-where-denied" if granted else "refused-where-granted"
            add_violation(ctx, sigs, signature(events, li, kind), events, li,
                          "CheckWitness(%s) answered %s, TLC printed code %s for this point of the behaviour" % (e["acct"], e["res"], c), {})
        elif e.get("imp") and {"T": 1, "F": 0, "X": 2}[e["imp"]] != e["res"] and len(ctx.spec_drift) < 20:
            ctx.spec_drift.append({"part": PART, "kind": "impl-model-answer-differs", "event": e})
    ctx.extra["dyn_trace_events"] = len(events)
    ctx.extra["dyn_checks_compared_with_tlc_codes"] = ndirect
    ctx.extra["dyn_histories_with_binding_mismatch"] = nbind
    ctx.extra["dyn_histories_not_judged"] = len(unjudged)
    ctx.extra["dyn_trace_lines_rejected"] = len(fails)
    kinds = {}
    for e in events:
        k = e["event"]
        if k == "check":
            k += ":%d" % e["res"]
        elif k == "endtx":
            k += ":" + e["how"]
        kinds[k] = kinds.get(k, 0) + 1
    ctx.extra["dyn_event_kinds"] = kinds
    ctx.samples.append({"part": PART, "history": events[0].get("h"), "events": events[:6]})


def add_violation(ctx, sigs, sig, events, li, what, detail):
    k = json.dumps(sig, sort_keys=True)
    if k not in sigs and len(sigs) >= MAX_SIGS:
        ctx.extra["dyn_further_violation_signatures"] = ctx.extra.get("dyn_further_violation_signatures", 0) + 1
        return
    sigs[k] = sigs.get(k, 0) + 1
    s, _ = history_of(events, li)
    ctx.violation(sig, {"what": what, "detail": detail, "history": events[s:li + 1]})


def selftest(ctx, events):
    """Corrupt one recorded field of a good history and require the judge to object at exactly that line:
    grant    - a refused check is turned into a granted one      -> GrantedWhereDenied
    refuse   - a granted check into a refused one                -> RefusedWhereGranted
    stale    - a manifest update is dropped from the record (the recorded answers after it then look like answers
               over the old table)                               -> some C15 name or TableInTx later in that history
    table    - an update counter read inside the execution       -> TableInTx
    """
    done = 0
    want = {}
    for li, e in enumerate(events):
        if e["event"] == "check" and e["res"] == 0 and e.get("code") == 0 and "grant" not in want:
            want["grant"] = (li, dict(e, res=1), "GrantedWhereDenied")
        if e["event"] == "check" and e["res"] == 1 and e.get("code") == 1 and "refuse" not in want:
            want["refuse"] = (li, dict(e, res=0), "RefusedWhereGranted")
        if e["event"] == "tab" and "table" not in want and any(v >= 0 for v in e["uc"].values()):
            c = sorted(k for k, v in e["uc"].items() if v >= 0)[0]
            want["table"] = (li, dict(e, uc=dict(e["uc"], **{c: e["uc"][c] + 1})), "TableInTx")
    for name in ("grant", "refuse", "table"):
        if name not in want:
            raise vlib.Inconclusive("dyn: binding self-test: nothing to corrupt for %s" % name)
        li, bad, expect = want[name]
        s, e = history_of(events, li)
        part = events[s:li] + [bad] + events[li + 1:e + 1]
        p = os.path.join(ctx.work, "dyn-selftest-%s.ndjson" % name)
        vlib.write_ndjson(p, part)
        st, tr = ctx.states, ctx.transitions
        fails = ctx.trace_judge("witnessdyn", "WitnessDynTrace.tla", "Trace_WitnessDyn.cfg", p, timeout=600)
        ctx.states, ctx.transitions = st, tr
        if not any(f["line"] == li - s + 1 and expect in f["what"] for f in fails) or any(f["line"] < li - s + 1 for f in fails):
            raise vlib.Inconclusive("dyn: binding self-test %s: corrupted record not rejected as expected: %s" % (name, fails[:3]))
        done += 1
    # stale: drop an update after which some answer changed
    ok = False
    for li, e in enumerate(events):
        if e["event"] != "upd":
            continue
        s, en = history_of(events, li)
        part = events[s:li] + events[li + 1:en + 1]
        p = os.path.join(ctx.work, "dyn-selftest-stale.ndjson")
        vlib.write_ndjson(p, part)
        st, tr = ctx.states, ctx.transitions
        fails = ctx.trace_judge("witnessdyn", "WitnessDynTrace.tla", "Trace_WitnessDyn.cfg", p, timeout=600)
        ctx.states, ctx.transitions = st, tr
        if fails and all(f["line"] >= li - s + 1 for f in fails):
            ok = True
            done += 1
            break
        if fails:
            raise vlib.Inconclusive("dyn: binding self-test stale: failure before the dropped update: %s" % fails[:3])
    if not ok:
        raise vlib.Inconclusive("dyn: binding self-test stale: dropping an update from the record was never noticed")
    ctx.extra["dyn_binding_selftests"] = done
