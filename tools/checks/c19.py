"""C19 - consensus through the node's dBFT integration: safe, and live under synchrony.
Model: spec/dbft/DBFT.tla (MCDBFT configs), schedules: DBFTSim, judge: DBFTTrace on N real consensus services
(harness/c19dbft: real ledgers, real block queues, real extensible pools, virtual timers, one event at a time)."""
import json
import os
import random

import vlib

RULE = ("cases = events (payload deliveries in any order incl. repeats and late ones, timer firings, transactions reaching only some "
        "validators, block relays, changing silent sets of at most f validators) executed one at a time on 4 (and 7) real consensus.Service "
        "instances on real ledgers; an adversarial phase following a TLC schedule of DBFT.tla plus a seeded random adversary, then an "
        "all-honest fully-delivering phase, twice per run; plus 'starved' runs in which every direct payload of one type (Commit / "
        "PrepareResponse / PrepareRequest / ChangeView) is lost and has to come through recovery messages, with and without a silent "
        "first primary; transactions given to some validators include ones expiring at the next block; distinct = distinct (run, kind, payload/validator) steps; every accepted "
        "block, every feed of a committed block to another ledger and every synchronous round is judged by TLC (DBFTTrace)")


def run(ctx):
    q = ctx.quick()
    cfgs = ["MC_DBFT_q1.cfg", "MC_DBFT_q2.cfg"] if q else ["MC_DBFT_q1.cfg", "MC_DBFT_q2.cfg", "MC_DBFT_v0.cfg"]
    for c in cfgs:
        ctx.tlc_mc("dbft", "MCDBFT.tla", c, timeout=2400, workers=8 if q else None)
    if not q:
        # liveness under synchrony at model level (weak fairness, nobody silent)
        ctx.tlc_mc("dbft", "MCDBFT.tla", "MC_DBFT_live.cfg", timeout=3000)
    try:
        ctx.tlc_mc("dbft", "MCDBFT.tla", "MC_DBFT_bug.cfg", timeout=600)
        raise vlib.Inconclusive("named deviation BugQuorum not detected by the DBFT model")
    except vlib.ModelError:
        ctx.extra["model_selftests"] = 1
    scheds, seen = [], set()
    for h in ctx.tlc_sim("dbft", "DBFTSim.tla", "Sim_DBFT.cfg", num=4 if q else 40, depth=30, timeout=600):
        k = json.dumps(h["hist"])
        if k not in seen:
            seen.add(k)
            scheds.append(h["hist"])
    random.Random(ctx.seed).shuffle(scheds)
    scheds = scheds[: (4 if q else 40)]
    # goal-directed schedules: random walks of the model that reach the situations the safety argument is about
    goals = {}
    for h in ctx.tlc_sim("dbft", "DBFTSim.tla", "Sim_DBFT_goals.cfg", num=4000 if q else 30000, depth=90, timeout=900,
                         seed=ctx.seed + 100):
        goals.setdefault(h["goal"], []).append(h["hist"])
    ctx.extra["goal_hits"] = {g: len(v) for g, v in goals.items()}
    for g, hs in sorted(goals.items()):
        hs.sort(key=len)
        uniq = []
        for x in hs:
            if not any(x[: len(u)] == u for u in uniq):   # keep schedules that are not extensions of a kept one
                uniq.append(x)
        random.Random(ctx.seed).shuffle(uniq)
        keep = (7 if g in ("G1", "G4") else 1) if q else 14
        scheds.extend(uniq[:keep])
    if not scheds:
        raise vlib.Inconclusive("no schedules")
    ind = os.path.join(ctx.work, "in-c19")
    os.makedirs(ind, exist_ok=True)
    json.dump(scheds, open(os.path.join(ind, "schedules.json"), "w"))
    res = ctx.go_driver("c19dbft", "TestDriver", env={"VERIF_IN": ind, "VERIF_EXTRA": 28 if q else 80, "VERIF_N7": 1 if q else 8},
                        timeout=3400)
    ctx.absorb(res)
    trace = os.path.join(res["_out"], "trace.ndjson")
    events = vlib.read_ndjson(trace)
    kinds = {}
    for e in events:
        k = e["event"] + (":" + e.get("type", "") if e["event"] in ("send",) else "")
        kinds[k] = kinds.get(k, 0) + 1
    ctx.extra["event_kinds"] = kinds
    fails = ctx.trace_judge("dbft", "DBFTTrace.tla", "Trace_DBFT.cfg", trace, timeout=1800)
    ctx.traces_validated += res.get("traces", 0)
    for f in fails:
        ev = events[f["line"] - 1]
        for w in sorted(f["what"]):
            # run context: n of the enclosing init
            n = None
            for e in reversed(events[: f["line"]]):
                if e["event"] == "init":
                    n = e.get("n")
                    break
            ctx.violation({"kind": w, "n": n}, {"what": "%s false at event %s" % (w, ev.get("event")), "event": ev, "ctx": f.get("ctx"),
                                                "line": f["line"]})
    if not fails:
        selftest(ctx, events)
    # extension: the extensible payload pool in front of the consensus service (spec/extpool, harness/c19extpool)
    ep = os.path.join(os.path.dirname(os.path.abspath(__file__)), "c19_extpool.py")
    if os.path.exists(ep):
        import importlib.util
        sp = importlib.util.spec_from_file_location("check_c19_extpool", ep)
        m = importlib.util.module_from_spec(sp)
        sp.loader.exec_module(m)
        m.run_ext(ctx)
    # extension: recovery messages as payloads of their own, several heights, future-height cache (spec/dbftrec)
    rp = os.path.join(os.path.dirname(os.path.abspath(__file__)), "c19_recovery.py")
    if os.path.exists(rp):
        import importlib.util
        sp = importlib.util.spec_from_file_location("check_c19_recovery", rp)
        m = importlib.util.module_from_spec(sp)
        sp.loader.exec_module(m)
        m.run_ext(ctx)
    # extension: the consensus service inside the real P2P server (spec/consnet, harness/c19net)
    np_ = os.path.join(os.path.dirname(os.path.abspath(__file__)), "c19_net.py")
    if os.path.exists(np_):
        import importlib.util
        sp = importlib.util.spec_from_file_location("check_c19_net", np_)
        m = importlib.util.module_from_spec(sp)
        sp.loader.exec_module(m)
        m.run_ext(ctx)
    ctx.assumptions.append("silent = late: a silent validator neither receives payloads nor has its timer fired while silent; payloads it sent earlier stay deliverable")
    ctx.assumptions.append("synchrony = every sent payload is delivered to everybody, lagging nodes get peers' blocks through their block queue, and the armed timer with the earliest virtual deadline fires when nothing else can happen; Progress bound = 6*N such rounds per block")
    ctx.assumptions.append("Progress after an asynchronous period: a left-over height is exempt only while it is in dBFT 2.0's dead end (a validator locked by a Commit of view v and another validator already past v), established by TLC from the recorded sends; every other stall is a violation")
    ctx.assumptions.append("wall-clock is used only to detect a dead driver (exit 2), never for a verdict")


def selftest(ctx, events):
    ev, done = [], set()
    for e in events:
        e = dict(e)
        if e["event"] == "accept" and "agree" not in done and e.get("node") == 1:
            e["hash"] = "00" * 32
            done.add("agree")
        elif e["event"] == "feed" and "feed" not in done:
            e["ok"] = False
            done.add("feed")
        ev.append(e)
        if e["event"] == "init" and len(ev) > 1 and "agree" in done:
            break
    if "agree" not in done:
        raise vlib.Inconclusive("self-test: nothing to corrupt")
    path = os.path.join(ctx.work, "selftest.ndjson")
    vlib.write_ndjson(path, ev)
    st, tr = ctx.states, ctx.transitions
    fails = ctx.trace_judge("dbft", "DBFTTrace.tla", "Trace_DBFT.cfg", path, timeout=600)
    ctx.states, ctx.transitions = st, tr
    got = set(w for f in fails for w in f["what"])
    if "Agreement" not in got:
        raise vlib.Inconclusive("binding self-test: corrupted accept not rejected (%s)" % got)
    ctx.extra["binding_selftests"] = len(done)
