"""C04 - failed execution leaves no trace (transaction atomicity, exception rollback).

Model: spec/exec  Exec.tla      abstract judge: the tree language and the nested-transaction semantics Sem
                  ExecImpl.tla  code-shaped machine (VM invocation stack with TRY entries, private DAO layers with lazily
                                copied native caches, notification list) run side by side with the reference machine;
                                TLC: layering-only-under-TRY == nested transactions, for all trees within the bounds
                  ExecSim.tla   generator (simulation) and exhaustive enumerator of trees
                  ExecTrace.tla judges what the real chain shows after each block against Sem
Real code: harness/c04exec compiles every tree into real contracts (exact TRY/CATCH/FINALLY layout), deploys them
on a neotest chain, runs the transactions inside blocks and reads the effects back."""
import json
import os
import random

import vlib

RULE = ("cases = scenario transactions (one call tree each: TLC enumeration of all trees up to 4/5 statements, TLC simulation "
        "walks of ExecImpl over 2 universes, seeded random trees up to call depth 4) compiled to real contracts and executed "
        "in real blocks; distinct = distinct (tree, block position, VM state, resulting storage) tuples; every case is "
        "non-trivial in that TLC evaluates the nested-transaction semantics Sem(tree) and compares VM state, storage of "
        "every scenario contract, notifications (AppExecResult and subscription feed), GAS balances, NEP-17 transfer log, "
        "the cached native setting (cache and storage) and the fee-only rule on what was read back from the chain")

BUGS = ("toponly", "keepnotes", "nocommit", "writeonly")


def model_stage(ctx):
    q = ctx.quick()
    for cfg in (("MC_q1.cfg", "MC_qn.cfg") if q else ("MC_q1.cfg", "MC_qn.cfg", "MC_t1.cfg", "MC_t2.cfg", "MC_t3.cfg", "MC_pending.cfg")):
        ctx.tlc_mc("exec", "ExecImpl.tla", cfg, timeout=1500, coverage=False)
    # non-vacuity: each named deviation of the wrap / unload logic must be caught by the same invariants
    for b in BUGS + ("gen4bug",):
        cfg = "MC_gen4bug.cfg" if b == "gen4bug" else "MC_bug_%s.cfg" % b
        mod = "ExecSim.tla" if b == "gen4bug" else "ExecImpl.tla"
        st, tr = ctx.states, ctx.transitions
        try:
            ctx.tlc_mc("exec", mod, cfg, timeout=600)
            raise vlib.Inconclusive("deviation %s not detected by the model invariants (vacuous model)" % b)
        except vlib.ModelError as e:
            if "Invariant" not in (e.res or {}).get("out", ""):
                raise
            ctx.extra["model_selftests"] = ctx.extra.get("model_selftests", 0) + 1
        ctx.states, ctx.transitions = st, tr


def generation_stage(ctx):
    q = ctx.quick()
    rnd = random.Random(ctx.seed)
    cases = []
    seen = set()

    def add(lst, src, limit):
        lst = list(lst)
        rnd.shuffle(lst)
        n = 0
        for c in lst:
            k = json.dumps(c["tree"], sort_keys=True)
            if k in seen or not c["tree"]:
                continue
            seen.add(k)
            c["src"] = src
            cases.append(c)
            n += 1
            if n >= limit:
                break
        return n

    # exhaustive enumeration (also checks SemInv: recursive semantics == machine, on every tree)
    enum = ctx.tlc_dump("exec", "ExecSim.tla", "MC_gen4.cfg" if q else "MC_gen5.cfg", timeout=1500, workers=4)
    ctx.extra["enumerated_trees"] = len(enum)
    ctx.extra["enumerated_replayed"] = add(enum, "enum", 1500 if q else 60000)
    num = 700 if q else 12000
    for i, cfg in enumerate(("Sim_A.cfg", "Sim_B.cfg")):
        sims = ctx.tlc_sim("exec", "ExecSim.tla", cfg, num=num, depth=80, timeout=200 if q else 1500, seed=ctx.seed * 10 + i)
        ctx.extra["sim_" + cfg[4]] = add(sims, "sim" + cfg[4], 100000)
    return cases


def classify(ev, f, what):
    """Small signature: which observable differs, in which direction, VM state."""
    o = ev.get("obs", {})
    exp = (f.get("ctx") or {}).get("expected") or {}
    sig = {"kind": what}
    if ev.get("event") == "tx":
        sig["vm"] = "HALT" if o.get("halt") else "FAULT"
        if what == "Storage":
            got = sum(len(s) for s in o.get("store", []))
            want = sum(1 for c in (exp.get("st") or {}).values() for v in c if v != 0)
            sig["dir"] = "leak" if got > want else ("lost" if got < want else "value")
        elif what in ("Notifications", "Delivered"):
            got = len(o.get("notes" if what == "Notifications" else "delivered", []))
            want = len(exp.get("notes") or [])
            sig["dir"] = "leak" if got > want else ("lost" if got < want else "value")
    return sig


def replay_cases(ctx):
    """--replay: only the tree of a recorded violation (plus one small exhaustive run so that the evidence is complete)."""
    d = json.load(open(ctx.replay))
    det = d.get("detail") or {}
    tree = (det.get("event") or {}).get("tree")
    if tree is None:
        tree = ((det.get("history") or [{}])[0]).get("tree")
    if tree is None:
        raise vlib.Inconclusive("replay file carries no tree (block-level signature): re-run the tier with the recorded seed %s" % d.get("seed"))
    ctx.tlc_mc("exec", "ExecImpl.tla", "MC_qn.cfg", timeout=600)
    return [{"tree": tree, "src": "replay"}]


def run(ctx):
    q = ctx.quick()
    if ctx.replay:
        cases = replay_cases(ctx)
    else:
        model_stage(ctx)
        cases = generation_stage(ctx)
    ind = os.path.join(ctx.work, "in-c04")
    os.makedirs(ind)
    json.dump(cases, open(os.path.join(ind, "cases.json"), "w"))
    # real code
    res = ctx.go_driver("c04exec", "TestDriver", env={"VERIF_IN": ind, "VERIF_RANDOM": 0 if ctx.replay else (1500 if q else 40000),
                                                      "VERIF_TRACE_EVERY": 1 if ctx.replay else (3 if q else 8)}, timeout=3000)
    ctx.absorb(res)
    trace = os.path.join(res["_out"], "trace.ndjson")
    events = vlib.read_ndjson(trace)
    fails = ctx.trace_judge("exec", "ExecTrace.tla", "Trace_Exec.cfg", trace, timeout=3000)
    ctx.traces_validated += res.get("traces", 0)
    ctx.extra["trace_events"] = len(events)
    for f in fails:
        ev = events[f["line"] - 1]
        for w in sorted(f["what"]):
            if w == "Corner":
                ctx.extra["corner_trees_not_judged"] = ctx.extra.get("corner_trees_not_judged", 0) + 1
                continue
            ctx.violation(classify(ev, f, w), {
                "what": "abstract predicate %s false on the real chain" % w, "event": ev,
                "expected": (f.get("ctx") or {}).get("expected")})
    aborted = res.get("stats", {}).get("aborted")
    if aborted and not ctx.violations:
        raise vlib.Inconclusive("the driver had to stop (%s) and nothing recorded before is a violation" % aborted)
    if not aborted:
        steps_stage(ctx, res, selftests=not ctx.replay)
    ctx.assumptions += [
        "AppExecResult.Events of a FAULTed transaction (diagnostic application log, asserted by the repository's own tests to "
        "retain the notifications emitted before the fault) is not judged; judged instead: nothing is delivered to "
        "notification subscribers and no NEP-17 transfer is logged for a faulted transaction",
        "calls made while an exception is pending (from a FINALLY block entered by an exception) are outside the judged "
        "language: the VM (like the C# reference) does not commit a callee that returns while an exception is pending, which "
        "the statement's 'everything done after the failed call is kept' does not cover; at model level (MC_pending.cfg) the "
        "layered machine still equals the always-snapshot machine there; such trees are counted, not judged",
        "what a CATCH can catch (THROW, VM range errors) and what it cannot (ABORT, syscalls refused for call flags, exceptions "
        "leaving onNEP17Payment) was established on the unchanged tree and is part of the tree language",
    ]
    if not ctx.violations and not ctx.replay:
        selftest(ctx, events)
    # extension: the event stream delivered to subscribers (spec/events, harness/c04events)
    ep = os.path.join(os.path.dirname(os.path.abspath(__file__)), "c04_events.py")
    if os.path.exists(ep) and not ctx.replay:
        import importlib.util
        sp = importlib.util.spec_from_file_location("check_c04_events", ep)
        m = importlib.util.module_from_spec(sp)
        sp.loader.exec_module(m)
        m.run_ext(ctx)


def steps_stage(ctx, res, selftests=True):
    """code -> spec: the statement-level traces recorded by the VM hook, replayed through the ExecImpl machine."""
    path = os.path.join(res["_out"], "steps.ndjson")
    steps = vlib.read_ndjson(path)
    if not steps:
        raise vlib.Inconclusive("no statement-level trace was recorded")
    fails = ctx.trace_judge("exec", "ExecSteps.tla", "Trace_Steps.cfg", path, timeout=3000)
    ctx.extra["step_trace_events"] = len(steps)
    begin = 0
    for f in fails:
        li = f["line"] - 1
        b = li
        while b > 0 and steps[b]["event"] != "begin":
            b -= 1
        run_id = steps[b].get("id")
        for w in sorted(f["what"]):
            if w == "Corner":
                ctx.extra["corner_runs_not_compared"] = ctx.extra.get("corner_runs_not_compared", 0) + 1
            elif w == "Unsupported":    # deploy statements are judged at the abstract level only
                ctx.extra["step_runs_with_unmodelled_statement"] = ctx.extra.get("step_runs_with_unmodelled_statement", 0) + 1
            elif w == "VisibleState":
                # abstract level: what the real objects show differs from the nested-transaction reference
                ctx.violation({"kind": "VisibleState", "at": (steps[li].get("lb") or {}).get("k", steps[li]["event"])},
                              {"what": "state visible through the real interop context differs from the nested-transaction "
                                       "reference at a statement boundary", "run": run_id, "event": steps[li],
                               "reference": f.get("ctx"), "history": steps[b:li + 1]})
            else:
                # Impl level (layer count, stack depth, control flow): drift, never a verdict
                if len(ctx.spec_drift) < 20:
                    ctx.spec_drift.append({"kind": w, "run": run_id, "line": f["line"], "event": steps[li], "model": f.get("ctx")})
                ctx.extra["step_drift_" + w] = ctx.extra.get("step_drift_" + w, 0) + 1
    if ctx.violations or not selftests:
        return
    # binding self-test of the step validator: one more layer / one leaked storage slot must be noticed
    runs = [i for i, e in enumerate(steps) if e["event"] == "begin"]
    segs = []
    for a, b in zip(runs, runs[1:] + [len(steps)]):
        idx = [i for i in range(a + 1, b) if steps[i]["event"] == "step" and steps[i]["obs"]["depth"] >= 2]
        if len(idx) >= 2 and not any(f["line"] - 1 in range(a, b) for f in fails):
            segs.append((a, b, idx[-1]))
            segs.append((a, b, idx[0]))
        if len(segs) >= 12:
            break
    if not segs:
        raise vlib.Inconclusive("step self-test: no suitable run")
    # a corruption is noticed where the validator compares that observation (not in runs it leaves as corner cases, not
    # behind a pending exception): candidates are tried until one is rejected; none rejected = the validator is vacuous
    for name, expect in (("layers", "LayerDiscipline"), ("vis", "VisibleState")):
        ok = False
        for a, b, i in segs:
            bad = json.loads(json.dumps(steps[a:b]))
            o = bad[i - a]["obs"]
            if name == "layers":
                o["layers"] += 1
            else:
                if not o.get("vis") or not o["vis"][0]:
                    continue
                o["vis"][0][1] += 1
            p = os.path.join(ctx.work, "selftest-steps-%s.ndjson" % name)
            vlib.write_ndjson(p, bad)
            st, tr = ctx.states, ctx.transitions
            fs = ctx.trace_judge("exec", "ExecSteps.tla", "Trace_Steps.cfg", p, timeout=600)
            ctx.states, ctx.transitions = st, tr
            if any(expect in f["what"] for f in fs):
                ok = True
                break
        if not ok:
            raise vlib.Inconclusive("step self-test %s: no corrupted trace was rejected (%s expected; %d candidates)" % (name, expect, len(segs)))
        ctx.extra["binding_selftests"] = ctx.extra.get("binding_selftests", 0) + 1


def selftest(ctx, events):
    """Binding self-test: corrupted good traces must be rejected by the judge with the expected predicate."""
    ev = [json.loads(json.dumps(e)) for e in events[:3000]]
    # keep one world only
    cut = [i for i, e in enumerate(ev) if e["event"] == "world"]
    if len(cut) > 1:
        ev = ev[:cut[1]]
    # end on a block boundary
    while ev and ev[-1]["event"] != "block":
        ev.pop()
    done = {}
    for i, e in enumerate(ev):
        if e["event"] == "tx":
            o = e["obs"]
            if "leak" not in done and not o["halt"] and e["used"][0]:
                b = json.loads(json.dumps(e))
                b["obs"]["store"][0] = [[1, 1]]          # a faulted transaction left a storage item behind
                done["leak"] = (i, b, "Storage")
            if "lostnote" not in done and o["halt"] and o["notes"]:
                b = json.loads(json.dumps(e))
                b["obs"]["notes"] = b["obs"]["notes"][:-1]  # a halted transaction lost a notification
                done["lostnote"] = (i, b, "Notifications")
            if "state" not in done and o["halt"]:
                b = json.loads(json.dumps(e))
                b["obs"]["halt"] = False
                done["state"] = (i, b, "VMState")
        elif e["event"] == "block" and "fee" not in done:
            b = dict(e)
            b["payer_delta"] = e["payer_delta"] - 1
            done["fee"] = (i, b, "FeeOnly")
    if len(done) < 4:
        raise vlib.Inconclusive("self-test could not find places to corrupt the trace (%s)" % sorted(done))
    for name, (i, bad, expect) in done.items():
        seg = ev[:i] + [bad] + ev[i + 1:]
        path = os.path.join(ctx.work, "selftest-%s.ndjson" % name)
        vlib.write_ndjson(path, seg)
        st, tr = ctx.states, ctx.transitions
        fails = ctx.trace_judge("exec", "ExecTrace.tla", "Trace_Exec.cfg", path, timeout=600)
        ctx.states, ctx.transitions = st, tr
        if not any(f["line"] == i + 1 and expect in f["what"] for f in fails):
            raise vlib.Inconclusive("binding self-test %s: corrupted trace was not rejected (%s expected)" % (name, expect))
        ctx.extra["binding_selftests"] = ctx.extra.get("binding_selftests", 0) + 1
