"""Extension of C08 - the node's second memory pool (P2P notary requests, network.Server.notaryRequestPool).
Model: spec/notarypool (NotaryPool abstract judge = the C08 invariants instantiated for this pool, NotaryPoolImpl
code-shaped model of verifyAndPoolNotaryRequest + the registered post-block refresh, NotaryPoolSim generator,
NotaryPoolTrace validator).  Real code: a real core.Blockchain with a real (never started) network.Server on it, driven by
harness/c08notary through Server.RelayP2PNotaryRequest and real blocks.

Call from the registered check of C08:   ext = load('c08_notary'); ext.run_ext(ctx)
Violations carry "part": "notarypool" in their signature.  Predicates of the informational part of the specification
(names "i:...": the staleness rule, which the statement of C08 does not imply) are recorded as drift, never as violations."""
import json
import os
import random

import vlib

PART = "notarypool"
UNIVERSES = ("U1", "U2", "U3")
DEVIATIONS = ("U3shared", "U1norecheck")
# The staleness rule ("i:..." predicates) is not implied by the statement of C08: recorded as drift.  The lead may decide
# to judge it (then a falsified informational predicate becomes a violation with kind "i:<name>").
JUDGE_INFORMATIONAL = False


def run_ext(ctx):
    q = ctx.quick()
    sub = "notarypool"
    # 1. exhaustive: Impl => Abstract (judged invariants, exact fee cache, informational staleness rule)
    for u in UNIVERSES:
        ctx.tlc_mc(sub, "MCNotaryPool.tla", "MC_%s%s.cfg" % (u, "q" if q else ""), timeout=900, coverage=not q, must_cover=False)
    # model-level non-vacuity: the named deviations must be caught by the same invariants
    for u in DEVIATIONS:
        try:
            ctx.tlc_mc(sub, "MCNotaryPool.tla", "MC_%s.cfg" % u, timeout=600)
            raise vlib.Inconclusive("deviation %s not detected by the NotaryPoolImpl invariants (vacuous model)" % u)
        except vlib.ModelError:
            ctx.extra["notarypool_model_selftests"] = ctx.extra.get("notarypool_model_selftests", 0) + 1
    # 2. behaviours
    behaviours, seen = [], set()
    for i, u in enumerate(UNIVERSES):
        for h in ctx.tlc_sim(sub, "NotaryPoolSim.tla", "Sim_%s.cfg" % u, num=60 if q else 1500, depth=16,
                             timeout=300 if q else 1200, seed=ctx.seed * 10 + i):
            k = json.dumps(h, sort_keys=True)
            if k not in seen:
                seen.add(k)
                behaviours.append(h)
    random.Random(ctx.seed).shuffle(behaviours)
    behaviours = behaviours[: (400 if q else 9000)]
    if not behaviours:
        raise vlib.Inconclusive("no NotaryPoolImpl behaviours generated")
    ind = os.path.join(ctx.work, "in-c08notary")
    os.makedirs(ind, exist_ok=True)
    json.dump(behaviours, open(os.path.join(ind, "behaviours.json"), "w"))
    # 3. real code
    res = ctx.go_driver("c08notary", "TestDriver", env={"VERIF_IN": ind, "VERIF_RANDOM": 250 if q else 5000}, timeout=3000)
    ctx.absorb(res)
    if res.get("stats", {}).get("notarypool_worlds_failed"):
        raise vlib.Inconclusive("%s chain worlds could not be prepared: %s" % (res["stats"]["notarypool_worlds_failed"], (res.get("drift") or [None])[0]))
    # 4. TLC judges the recorded traces against the abstract specification
    trace = os.path.join(res["_out"], "trace.ndjson")
    events = vlib.read_ndjson(trace)
    fails = ctx.trace_judge(sub, "NotaryPoolTrace.tla", "Trace_NotaryPool.cfg", trace, timeout=3000)
    ctx.traces_validated += res.get("traces", 0)
    ctx.extra["notarypool_trace_events"] = len(events)
    start, starts = 0, []
    for i, e in enumerate(events):
        if e["event"] == "init":
            start = i
        starts.append(start)
    reported = set()
    info = {}
    judged_fail = False
    for f in fails:
        li = f["line"] - 1
        s = starts[li]
        ev = events[li]
        judged = sorted(w for w in f["what"] if JUDGE_INFORMATIONAL or not w.startswith("i:"))
        for w in f["what"]:
            if w.startswith("i:") and not JUDGE_INFORMATIONAL:
                info[w] = info.get(w, 0) + 1
                if len(ctx.spec_drift) < 20:
                    ctx.spec_drift.append({"part": PART, "informational": w, "event": ev, "src": events[s].get("src")})
        if not judged or s in reported:
            continue
        judged_fail = True
        reported.add(s)
        w = judged[0]
        sig = {"kind": w, "part": PART, "op": ev["event"] + (":" + ev["kind"] if ev["event"] == "block" else "")}
        ctx.violation(sig, {"what": "abstract predicate %s false after %s on the real notary request pool" % (w, ev["event"]),
                            "history": events[s:li + 1]})
    ctx.extra["notarypool_informational_failures"] = info
    ctx.assumptions.append(
        "notary request pool: one designated notary node, single-transaction blocks, no policy (fee per byte / attribute fee) "
        "changes during a history, no HighPriority fallbacks; requests enter through Server.RelayP2PNotaryRequest (the P2P "
        "command handler only queues the payload for the same verifyAndPoolNotaryRequest call); the staleness rule (expired, "
        "fallback or main on chain) is informational: the statement of C08 does not imply it")
    # 5. binding self-test: a corrupted good trace must be rejected
    if not judged_fail:
        selftest(ctx, events)


def selftest(ctx, events):
    ev = [dict(e) for e in events[:6000]]
    done = {}
    T = {}
    for i, e in enumerate(ev):
        if e["event"] == "init":
            T = {t["id"]: t for t in e["reqs"]}
            continue
        p = e.get("pool") or []
        if "swap" not in done and len(p) >= 2:
            for j in range(len(p) - 1):
                a, b = T[p[j]], T[p[j + 1]]
                if (a["high"], a["fpb"], a["netfee"]) != (b["high"], b["fpb"], b["netfee"]):
                    x = list(p)
                    x[j], x[j + 1] = x[j + 1], x[j]
                    done["swap"] = (i, dict(e, pool=x), "Sorted")
                    break
        if "faildrop" not in done and e["event"] == "submit" and not e["ok"] and len(p) >= 1:
            done["faildrop"] = (i, dict(e, pool=p[1:], keys=sorted(p[1:]), data=sorted(p[1:]), count=len(p) - 1), "FailedSubmitUnchanged")
        if "deposit" not in done and len(p) >= 1:
            d = T[p[0]]["dep"]
            need = sum(T[x]["cost"] for x in p if T[x]["dep"] == d)
            done["deposit"] = (i, dict(e, amt=dict(e["amt"], **{d: need - 1})), "Solvent")
        if "data" not in done and len(p) >= 1 and e.get("data"):
            done["data"] = (i, dict(e, data=e["data"][1:]), "Listed")
    if len(done) < 4:
        raise vlib.Inconclusive("notary pool self-test could not find places to corrupt the trace (%s)" % sorted(done))
    # all corrupted segments go into one file (each starts with its own init event): one TLC run
    segs, expect_at = [], {}
    for name, (i, bad, expect) in done.items():
        s = i
        while ev[s]["event"] != "init":
            s -= 1
        segs += ev[s:i] + [bad]   # each segment is cut right after the corrupted event
        expect_at[len(segs)] = (name, expect)
    path = os.path.join(ctx.work, "selftest-np.ndjson")
    vlib.write_ndjson(path, segs)
    st, tr = ctx.states, ctx.transitions
    fails = ctx.trace_judge("notarypool", "NotaryPoolTrace.tla", "Trace_NotaryPool.cfg", path, timeout=300)
    ctx.states, ctx.transitions = st, tr
    for line, (name, expect) in expect_at.items():
        if not any(f["line"] == line and expect in f["what"] for f in fails):
            raise vlib.Inconclusive("notary pool binding self-test %s: corrupted trace was not rejected (%s expected)" % (name, expect))
        ctx.extra["notarypool_binding_selftests"] = ctx.extra.get("notarypool_binding_selftests", 0) + 1
