"""C02 - a crash at any flush boundary leaves a consistent, resumable chain prefix.
Model: spec/node/NodeDisk.tla (disk = persisted facts, changed only by atomic batches; crash / restart / reset with
asynchronous stage flushes / GC), schedules: NodeDiskSim, judge: NodeDiskTrace on the real node (harness/c02crash:
recording store, EVERY batch prefix reopened with core.NewBlockchain and compared with the reference node)."""
import json
import os
import random
import re

import vlib

RULE = ("cases = crash points = prefixes of the sequence of atomic batches (PutChangeSet / SeekGC commits) a real core.Blockchain "
        "wrote while executing a TLC schedule of NodeDiskSim (add block / header ahead / flush+GC / clean restart / Reset) over a "
        "seeded generated history; plus the other order of two batches the node issued concurrently, plus second crashes while a "
        "restart was resuming a reset. Each case = materialise the database, core.NewBlockchain, digest of 13 components compared "
        "with the never-restarted reference at the recovered height, trie vs flat storage, all remaining blocks added with digest "
        "comparison, raw database compared with the uninterrupted reset's. distinct = distinct (world, crash point, marker on disk, "
        "recovered height, outcome) tuples; every case is non-trivial: a real node is opened on a real database image")

MC_QUICK = ["MC_NodeDisk.cfg", "MC_NodeDiskGC.cfg", "MC_NodeDiskGC_p3.cfg", "MC_NodeDiskJump.cfg", "MC_NodeDiskJump_short.cfg"]
MC_THOROUGH = ["MC_NodeDisk_t.cfg", "MC_NodeDisk_p3.cfg", "MC_NodeDisk_t7.cfg", "MC_NodeDiskGC_t.cfg", "MC_NodeDiskGC_p3.cfg",
               "MC_NodeDiskJump.cfg", "MC_NodeDiskJump_short.cfg", "MC_NodeDiskJump_t.cfg"]
DEVIATIONS = ["MC_NodeDisk_dev_R2DropsHeaders.cfg", "MC_NodeDisk_dev_R5NoRootInit.cfg", "MC_NodeDisk_dev_MarkerFirst.cfg",
              "MC_NodeDisk_dev_TipAlone.cfg", "MC_NodeDiskGC_dev_GCLastPage.cfg", "MC_NodeDiskJump_dev_JumpDropsGenesis.cfg"]


def dedupe(hs):
    seen, out = set(), []
    for h in hs:
        k = json.dumps(h, sort_keys=True)
        if k not in seen:
            seen.add(k)
            out.append(h)
    return out


def long_sched(n, dense, every, resets=()):
    """hand-made long schedule (chains beyond the header-hash page size): flush inside the dense windows and every `every` blocks"""
    s = []
    rs = dict(resets)
    for h in range(1, n + 1):
        s.append({"op": "add", "n": 0})
        if any(a <= h <= b for a, b in dense) or h % every == 0:
            s.append({"op": "flush", "n": 0})
        if h in rs:
            s.append({"op": "reset", "n": rs[h]})
            for _ in range(rs[h]):
                s.append({"op": "add", "n": 0})
            s.append({"op": "flush", "n": 0})
    return s


def cause(ev):
    t = " ".join(str(ev.get(k) or "") for k in ("err", "panic", "cont_err"))
    if "could not get header" in t:
        return "header-walk"
    if "failed to retrieve header hash page" in t:
        return "header-page-missing"
    if "nil pointer" in t or "panic" in t:
        return "panic"
    if ev.get("cont_diff"):
        return "digest-differs"
    t = re.sub(r"[0-9a-f]{16,}", "#", t).strip()
    return t[:60]


def run(ctx):
    q = ctx.quick()
    rnd = random.Random(ctx.seed)
    if ctx.replay:
        # re-execute the world of a recorded violation (tools/vcheck C02 --replay replays/C02-<seed>-<n>.json)
        rp = json.load(open(ctx.replay))
        world = (rp.get("detail") or {}).get("world")
        if not world or "sched" not in world:
            raise vlib.Inconclusive("replay file carries no world")
        ctx.seed = int(rp.get("seed", ctx.seed))
        ctx.tlc_mc("node", "NodeDisk.tla", "MC_NodeDiskJump.cfg", timeout=300)
        return drive_and_judge(ctx, [world], q)
    # 1. exhaustive: the design (Dev = {}) satisfies the property for every crash point / interleaving of the
    #    asynchronous stage flushes within the stated constants
    for cfg in (MC_QUICK if q else MC_THOROUGH):
        ctx.tlc_mc("node", "NodeDisk.tla", cfg, timeout=600 if q else 2400, coverage=not q, must_cover=False)
    # model non-vacuity: every named deviation is caught by the same invariants
    for cfg in DEVIATIONS:
        try:
            st, tr = ctx.states, ctx.transitions
            ctx.tlc_mc("node", "NodeDisk.tla", cfg, timeout=600)
            raise vlib.Inconclusive("named deviation %s not detected by the NodeDisk invariants (vacuous model)" % cfg)
        except vlib.ModelError as e:
            ctx.states, ctx.transitions = st, tr
            m = re.search(r"Invariant (\w+) is violated", e.res["out"] if e.res else "")
            if not m:
                raise vlib.Inconclusive("deviation config %s failed for another reason than an invariant: %s" % (cfg, e))
            ctx.extra.setdefault("deviations_caught", {})[cfg.replace("MC_", "").replace(".cfg", "")] = m.group(1)
            ctx.extra["model_selftests"] = ctx.extra.get("model_selftests", 0) + 1
    # 2. schedules generated by TLC
    n_arch, n_gc = (3, 2) if q else (72, 30)
    arch = dedupe(ctx.tlc_sim("node", "NodeDiskSim.tla", "Sim_NodeDisk.cfg", num=n_arch * 2, depth=60 if q else 80, timeout=600,
                              env=None, seed=ctx.seed))
    gcs = dedupe(ctx.tlc_sim("node", "NodeDiskSim.tla", "Sim_NodeDiskGC.cfg", num=n_gc * 2, depth=90 if q else 110, timeout=600,
                             seed=ctx.seed + 1000))
    # prefer schedules that contain a reset / several flushes
    arch.sort(key=lambda h: (-min(2, sum(1 for s in h if s["op"] == "reset")), json.dumps(h)))
    head = arch[: n_arch * 3]
    rnd.shuffle(head)
    arch = head[:n_arch]
    rnd.shuffle(gcs)
    gcs = gcs[:n_gc]
    if not arch or not gcs:
        raise vlib.Inconclusive("no schedules generated")
    worlds = []
    for i, s in enumerate(arch):
        worlds.append({"sched": s, "node": "arch", "srih": i % 2 == 1, "mtb": 0, "gcp": 0, "maxtx": 5, "cont": 0, "pick": 0,
                       "backend": ["mem", "bolt", "level"][i % 3] if (not q or i == 1) else "mem"})
    for i, s in enumerate(gcs):
        worlds.append({"sched": s, "node": "gc" if i % 2 == 0 else "latest", "srih": i % 4 >= 2, "mtb": 24, "gcp": 3 if i % 2 == 0 else 2,
                       "maxtx": 4, "cont": 0, "pick": 0, "backend": "mem"})
    # state-sync jump on a chain longer than one header-hash page (a light node collects sync point, headers, trie, last blocks)
    worlds.append({"sched": [], "node": "sink", "srih": True, "mtb": 12, "gcp": 0, "maxtx": 4, "cont": 0, "pick": 0, "backend": "mem",
                   "jump": 2123 + 6 * (ctx.seed % 5), "ssi": 6, "quiet": [31, 2080]})
    if not q:
        # the same on a chain shorter than one page with the sync point beyond MaxTraceableBlocks (test-sized networks)
        worlds.append({"sched": [], "node": "sink", "srih": True, "mtb": 12, "gcp": 0, "maxtx": 4, "cont": 0, "pick": 0, "backend": "mem",
                       "jump": 34, "ssi": 6})
        # chains beyond the header-hash page size (2000): flush around the page boundaries, reset across one
        worlds.append({"sched": long_sched(2100, [(1997, 2003), (2040, 2050), (2095, 2100)], 500, resets=[(2050, 60)]),
                       "node": "arch", "srih": False, "mtb": 0, "gcp": 0, "maxtx": 0, "cont": 4, "pick": 0, "backend": "mem"})
        worlds.append({"sched": long_sched(6100, [(1998, 2002), (3998, 4002), (5998, 6003), (6080, 6100)], 900),
                       "node": "gc", "srih": True, "mtb": 2000, "gcp": 7, "maxtx": 0, "cont": 4, "pick": 0, "backend": "mem"})
        worlds.append({"sched": long_sched(4100, [(1998, 2002), (3998, 4003), (4040, 4060)], 700),
                       "node": "gc", "srih": False, "mtb": 24, "gcp": 5, "maxtx": 0, "cont": 3, "pick": 0, "backend": "mem"})
    for i, wd in enumerate(worlds):
        wd["wi"] = i
    drive_and_judge(ctx, worlds, q)
    ctx.assumptions.append("crash points are exactly the atomicity boundaries of the backend (PutChangeSet / SeekGC commits); no torn batches are fabricated; "
                           "two batches count as unordered only if they were observed in flight at the same time and touch disjoint keys")
    ctx.assumptions.append("database images are materialised by replaying the recorded batches into a fresh MemoryStore (checked against the real backend's content at the "
                           "end of every run); BoltDB worlds additionally reopen copies of the database FILE taken after each commit (content checked against the replay), "
                           "LevelDB worlds reopen a fresh LevelDB holding the replayed image (its directory cannot be copied consistently while open)")
    ctx.assumptions.append("raw database comparison canonicalises token-transfer-info records (state.TokenTransferInfo serialises a Go map in iteration order)")
    ctx.assumptions.append("state-sync: crash points from the first jump batch on are bound (MPT-based mode); crash points of the collection phase "
                           "(headers / trie nodes / blocks arriving) belong to the synchronisation protocol (C20) and are not judged here")


def drive_and_judge(ctx, worlds, q):
    ind = os.path.join(ctx.work, "in-c02")
    os.makedirs(ind, exist_ok=True)
    json.dump(worlds, open(os.path.join(ind, "worlds.json"), "w"))
    # 3. the real node
    res = ctx.go_driver("c02crash", "TestDriver", env={"VERIF_IN": ind, "VERIF_WORKERS": 8}, timeout=1500 if q else 7200)
    ctx.absorb(res)
    # 4. TLC judges the recorded batches and recovery outcomes
    trace = os.path.join(res["_out"], "trace.ndjson")
    events = vlib.read_ndjson(trace)
    kinds = {}
    for e in events:
        kinds[e["event"]] = kinds.get(e["event"], 0) + 1
    ctx.extra["event_kinds"] = kinds
    fails = ctx.trace_judge("node", "NodeDiskTrace.tla", "Trace_NodeDisk.cfg", trace, timeout=3000)
    ctx.traces_validated += res.get("traces", 0)
    world = -1
    worlds_of = []
    for e in events:
        if e["event"] == "init":
            world = e["world"]
        worlds_of.append(world)
    ndrift = {}
    for f in fails:
        ev = events[f["line"] - 1]
        for w in sorted(f["what"]):
            if w.startswith("drift:"):
                ndrift[w] = ndrift.get(w, 0) + 1
                if len(ctx.spec_drift) < 12:
                    ctx.spec_drift.append({"what": w, "world": worlds_of[f["line"] - 1], "ctx": f.get("ctx")})
                continue
            if ev["event"] == "recover":
                sig = {"kind": w, "stage": ev.get("stage"), "cause": cause(ev) if w in ("RestartOK", "Continuation") else "",
                       "op": ("jump" if ev.get("node") == "sink" else "reset") if ev.get("phase") in ("reset", "resume", "jump") else
                             ("after-jump" if ev.get("node") == "sink" else "run")}
                if w == "RestartOK":
                    sig["kind"] = "RestartFails"
                if w == "Continuation":
                    sig["kind"] = "ContinuationFails"
                small = {k: v for k, v in ev.items() if k not in ("pre", "post", "digest")}
                ctx.violation(sig, {"what": "%s false for crash point %s (world %s, %s node): marker on disk %s, last accepted %s, "
                                            "recovered height %s; %s" % (w, ev.get("label"), worlds_of[f["line"] - 1], ev.get("node"),
                                                                         ev.get("stage"), ev.get("acc"), ev.get("h"),
                                                                         ev.get("err") or ev.get("panic") or ev.get("cont_err") or ""),
                                    "event": small, "pre": ev.get("pre"), "ctx": f.get("ctx"),
                                    "world": worlds[worlds_of[f["line"] - 1]], "line": f["line"]})
            elif ev["event"] == "fork":
                ctx.violation({"kind": w, "cause": ",".join(ev.get("diff0") or ev.get("diff") or []) or (ev.get("err") or "")[:40]},
                              {"what": "completed reset to %s differs from a replica synchronised to %s only" % (ev.get("target"), ev.get("target")),
                               "event": ev, "world": worlds[worlds_of[f["line"] - 1]]})
            else:
                raise vlib.Inconclusive("trace spec reported %s on a %s event: %s" % (w, ev["event"], f))
    ctx.extra["drift_counts"] = ndrift
    rec = [e for e in events if e["event"] == "recover"]
    if rec:
        e = rec[len(rec) // 2]
        ctx.samples.append({"crash_point": {k: v for k, v in e.items() if k not in ("pre", "post", "digest")}})
    # 5. binding self-test: corrupted observations must be rejected by the judge
    if not ctx.replay:
        selftest(ctx, events)
        # 6. extension: header-hash paging (spec/headerhashes, harness/c02hdrhashes)
        ext = _load_ext("c02_headerhashes")
        if ext:
            ext.run_ext(ctx)
        # 7. extension: crashes while state synchronisation COLLECTS (spec/synccrash, harness/c02synccrash)
        ext = _load_ext("c02_synccrash")
        if ext:
            ext.run_ext(ctx)


def selftest(ctx, events):
    want = {}
    out = []
    done = set()
    for e in events:
        e = dict(e)
        if e["event"] == "recover" and e.get("ok") and e.get("cont_ok") and e.get("h", 0) >= 2:
            if "digest" not in done:
                d = dict(e["digest"])
                d["storage"] = "corrupted"
                e["digest"] = d
                done.add("digest")
                want[len(out) + 1] = "StateAtHeight"
            elif "height" not in done:
                e["acc"] = e["h"] - 1
                done.add("height")
                want[len(out) + 1] = "HeightBound"
            elif "cont" not in done:
                e["cont_ok"] = False
                done.add("cont")
                want[len(out) + 1] = "Continuation"
            elif "dump" not in done and e.get("dump_eq") == 1:
                e["dump_eq"] = 0
                done.add("dump")
                want[len(out) + 1] = "ResetConfluence"
        elif e["event"] == "batch" and "coh" not in done and e["post"].get("stage") == "none" and e["post"].get("cur", 0) >= 2:
            p = dict(e["post"])
            p["cur"] = p["cur"] + 1          # tip pointer to a block that is not there
            e["post"] = p
            done.add("coh")
            want[len(out) + 1] = "drift:Coherent"
        out.append(e)
        if len(done) >= 5 and len(out) > 50:
            break
    if len(done) < 4:
        raise vlib.Inconclusive("self-test: not enough events to corrupt (%s)" % sorted(done))
    path = os.path.join(ctx.work, "selftest.ndjson")
    vlib.write_ndjson(path, out)
    st, tr = ctx.states, ctx.transitions
    fails = ctx.trace_judge("node", "NodeDiskTrace.tla", "Trace_NodeDisk.cfg", path, timeout=600)
    ctx.states, ctx.transitions = st, tr
    got = {f["line"]: set(f["what"]) for f in fails}
    for line, name in want.items():
        if name not in got.get(line, set()):
            raise vlib.Inconclusive("binding self-test: corruption %s at line %d was not rejected" % (name, line))
    ctx.extra["binding_selftests"] = len(want)


def _load_ext(name):
    import importlib.util
    p = os.path.join(os.path.dirname(os.path.abspath(__file__)), name + ".py")
    if not os.path.exists(p):
        return None
    sp = importlib.util.spec_from_file_location("check_" + name, p)
    m = importlib.util.module_from_spec(sp)
    sp.loader.exec_module(m)
    return m
