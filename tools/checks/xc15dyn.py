"""Standalone runner of the C15 'dynamic contract table' extension while it is developed (not a registered check)."""
RULE = "extension"


def run(ctx):
    import importlib.util
    import os
    p = os.path.join(os.path.dirname(os.path.abspath(__file__)), "c15_dyn.py")
    spec = importlib.util.spec_from_file_location("c15_dyn", p)
    mod = importlib.util.module_from_spec(spec)
    spec.loader.exec_module(mod)
    global RULE
    RULE = mod.RULE_EXT
    mod.run_ext(ctx)
