#!/usr/bin/env python3
"""Development helper: judge recorded c19dbft traces with DBFTTrace.tla.  usage: tools/judge19.py trace.ndjson..."""
import sys, os
sys.path.insert(0, os.path.dirname(os.path.abspath(__file__)))
import vlib
ctx = vlib.Ctx("J19-%d" % os.getpid(), "quick", 1)
try:
    for t in sys.argv[1:]:
        fails = ctx.trace_judge("dbft", "DBFTTrace.tla", "Trace_DBFT.cfg", t, timeout=1800)
        print(t, "fails:", [(f["line"], f["what"]) for f in fails][:5], len(fails))
finally:
    ctx.cleanup()
