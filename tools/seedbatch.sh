#!/bin/sh
# usage: tools/seedbatch.sh <lane> "<outdir> <name> <prop> <checks>" ...   (each arg one seed; where.txt gives dir + regex)
lane=$1; shift
export SEEDEVAL_WT=/tmp/wt-seedeval-$lane
for spec in "$@"; do
  set -- $spec
  d=$1; name=$2; prop=$3; checks=$4
  dir=$(sed -n 1p $d/where.txt | tr -d '\r' | sed 's#^\./##; s#/$##')
  rx=$(sed -n 2p $d/where.txt | tr -d '\r')
  python3 tools/seedeval.py $d $name $prop "$dir" "$rx" $checks --seeds 1,2
done
git -C /repo worktree remove --force $SEEDEVAL_WT 2>/dev/null
