#!/usr/bin/env python3
"""Evaluate one seeded change: confirm its demonstration (fails with the change, passes without) in a scratch worktree
and run the given checks against the changed tree.  Usage:
   tools/seedeval.py <seed_dir> <name> <property> <demo_target_dir> <demo_run_regex> <check>[,<check>...] [--seeds 1,2]
Stores the result under /verif/seeded/<name>/ (patch.diff, demo, meta.json)."""
import glob, json, os, shutil, subprocess, sys, time

V = os.path.dirname(os.path.dirname(os.path.abspath(__file__)))
WT = os.environ.get("SEEDEVAL_WT", "/tmp/wt-seedeval")
ENV = dict(os.environ, GOFLAGS="-mod=mod", GOPROXY="off")


def sh(cmd, cwd=None, env=None, timeout=3600):
    p = subprocess.run(cmd, shell=True, cwd=cwd, env=env or ENV, stdout=subprocess.PIPE, stderr=subprocess.STDOUT, text=True, timeout=timeout)
    return p.returncode, p.stdout


def main():
    seed_dir, name, prop, target, rx, checks = sys.argv[1:7]
    seeds = [1]
    if "--seeds" in sys.argv:
        seeds = [int(x) for x in sys.argv[sys.argv.index("--seeds") + 1].split(",")]
    head = sh("git -C /repo rev-parse HEAD")[1].strip()
    if not os.path.isdir(WT):
        sh("git -C /repo worktree add --detach %s HEAD -q" % WT)
    sh("git checkout -q --detach %s && git checkout -- . && git clean -fdq" % head, cwd=WT)
    patch = os.path.join(seed_dir, "patch.diff")
    demos = [f for f in glob.glob(os.path.join(seed_dir, "*_test.go"))] + [f for f in glob.glob(os.path.join(seed_dir, "*.go")) if not f.endswith("_test.go")]
    meta = {"property": prop, "name": name, "repo_head": head, "checks": {}, "evaluated_at": time.strftime("%Y-%m-%d %H:%M:%S")}
    notes = os.path.join(seed_dir, "notes.md")
    if os.path.exists(notes):
        meta["needs_to_manifest"] = open(notes).read()[:3000]
    rc, out = sh("git apply --check %s" % patch, cwd=WT)
    if rc != 0:
        print("PATCH DOES NOT APPLY:", out)
        meta["applies"] = False
        return finish(name, seed_dir, demos, meta)
    meta["applies"] = True
    for d in demos:
        shutil.copy(d, os.path.join(WT, target))
    # demo on the clean tree
    rc0, out0 = sh("go test -count=1 -run '%s' ./%s" % (rx, target), cwd=WT)
    meta["demo_clean_pass"] = rc0 == 0
    sh("git apply %s" % patch, cwd=WT)
    rcb, outb = sh("go build ./...", cwd=WT)
    meta["builds"] = rcb == 0
    rc1, out1 = sh("go test -count=1 -run '%s' ./%s" % (rx, target), cwd=WT)
    meta["demo_changed_fails"] = rc1 != 0
    meta["demo_changed_tail"] = "\n".join(out1.splitlines()[-12:])
    # remove the demo before running the checks (only the change itself is in the tree)
    for d in demos:
        os.remove(os.path.join(WT, target, os.path.basename(d)))
    for chk in checks.split(","):
        for s in seeds:
            e = dict(ENV, VERIF_REPO=WT, VERIF_SEED=str(s))
            t0 = time.time()
            rc, out = sh("tools/vcheck %s --tier quick" % chk, cwd=V, env=e, timeout=7200)
            viol = [l for l in out.splitlines() if l.startswith("VIOLATION")]
            sigs = []
            for l in viol:
                path = l.split("replay=")[1].strip()
                try:
                    sigs.append(json.load(open(path))["signature"])
                except Exception:
                    pass
            meta["checks"].setdefault(chk, []).append({"seed": s, "exit": rc, "violations": len(viol), "signatures": sigs[:4], "wall_s": round(time.time() - t0)})
            print(name, chk, "seed", s, "exit", rc, "violations", len(viol), sigs[:2])
    sh("git checkout -- . && git clean -fdq", cwd=WT)
    pass
    finish(name, seed_dir, demos, meta)


def finish(name, seed_dir, demos, meta):
    out = os.path.join(V, "seeded", name)
    os.makedirs(out, exist_ok=True)
    shutil.copy(os.path.join(seed_dir, "patch.diff"), out)
    for d in demos:
        shutil.copy(d, out)
    meta["detected_by"] = sorted(c for c, rs in meta.get("checks", {}).items() if any(r["exit"] == 1 for r in rs))
    meta["what_was_run"] = "tools/seedeval.py: demo on clean tree (must pass), demo with the change (must fail), `VERIF_REPO=<worktree with the change> tools/vcheck <check> --tier quick` for the listed checks/seeds"
    json.dump(meta, open(os.path.join(out, "meta.json"), "w"), indent=1)
    print("->", out, "detected_by", meta["detected_by"], "demo_clean_pass", meta.get("demo_clean_pass"), "demo_changed_fails", meta.get("demo_changed_fails"))


if __name__ == "__main__":
    main()
