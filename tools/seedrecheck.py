#!/usr/bin/env python3
"""Re-run checks against already confirmed seeded changes (seeded/<name>/patch.diff) with the CURRENT machinery.
Usage: tools/seedrecheck.py <name>:<check>[+<check>...] ... [--seeds 1,2] [--tier quick]
Each run is appended to seeded/<name>/meta.json under "checks" (tagged with the /verif commit) and detected_by is
recomputed.  The change is applied in a private worktree (SEEDEVAL_WT, default /tmp/wt-seedrecheck), never in /repo."""
import json, os, subprocess, sys, time

V = os.path.dirname(os.path.dirname(os.path.abspath(__file__)))
WT = os.environ.get("SEEDEVAL_WT", "/tmp/wt-seedrecheck")
ENV = dict(os.environ, GOFLAGS="-mod=mod", GOPROXY="off")


def sh(cmd, cwd=None, env=None, timeout=7200):
    p = subprocess.run(cmd, shell=True, cwd=cwd, env=env or ENV, stdout=subprocess.PIPE, stderr=subprocess.STDOUT, text=True, timeout=timeout)
    return p.returncode, p.stdout


def main():
    args = [a for a in sys.argv[1:] if not a.startswith("--")]
    seeds = [1]
    tier = "quick"
    if "--seeds" in sys.argv:
        seeds = [int(x) for x in sys.argv[sys.argv.index("--seeds") + 1].split(",")]
        args.remove(sys.argv[sys.argv.index("--seeds") + 1])
    if "--tier" in sys.argv:
        tier = sys.argv[sys.argv.index("--tier") + 1]
        args.remove(tier)
    head = sh("git -C /repo rev-parse HEAD")[1].strip()
    vhead = sh("git -C %s rev-parse --short HEAD" % V)[1].strip()
    if not os.path.isdir(WT):
        sh("git -C /repo worktree add --detach %s HEAD -q" % WT)
    for a in args:
        name, checks = a.split(":")
        sdir = os.path.join(V, "seeded", name)
        mpath = os.path.join(sdir, "meta.json")
        meta = json.load(open(mpath))
        sh("git checkout -q --detach %s && git checkout -- . && git clean -fdq" % head, cwd=WT)
        rc, out = sh("git apply %s" % os.path.join(sdir, "patch.diff"), cwd=WT)
        if rc != 0:
            print(name, "PATCH DOES NOT APPLY on", head[:7], out)
            meta.setdefault("recheck_notes", []).append("patch does not apply on %s" % head[:7])
            json.dump(meta, open(mpath, "w"), indent=1)
            continue
        for chk in checks.split("+"):
            for s in seeds:
                e = dict(ENV, VERIF_REPO=WT, VERIF_SEED=str(s))
                t0 = time.time()
                rc, out = sh("tools/vcheck %s --tier %s" % (chk, tier), cwd=V, env=e)
                viol = [l for l in out.splitlines() if l.startswith("VIOLATION")]
                sigs = []
                for l in viol:
                    path = l.split("replay=")[1].strip()
                    try:
                        sigs.append(json.load(open(path))["signature"])
                    except Exception:
                        pass
                meta["checks"].setdefault(chk, []).append({"seed": s, "exit": rc, "violations": len(viol), "signatures": sigs[:4],
                                                           "wall_s": round(time.time() - t0), "verif_commit": vhead, "repo_head": head[:7], "tier": tier})
                print(name, chk, "seed", s, "exit", rc, "violations", len(viol), sigs[:2], flush=True)
                if rc not in (0, 1):
                    print("\n".join(out.splitlines()[-15:]))
        meta["detected_by"] = sorted(c for c, rs in meta.get("checks", {}).items() if any(r["exit"] == 1 for r in rs))
        json.dump(meta, open(mpath, "w"), indent=1)
        sh("git checkout -- . && git clean -fdq", cwd=WT)


if __name__ == "__main__":
    main()
