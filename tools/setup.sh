#!/bin/sh
# Offline setup: warm the Go build cache for the harness against /repo and check the TLA+ toolchain.
set -e
cd "$(dirname "$0")/.."
export GOFLAGS=-mod=mod GOPROXY=off
cp /repo/go.sum harness/go.sum
(cd harness && go vet -tags verif ./... >/dev/null 2>&1 || true; go test -tags verif -count=1 -vet=off -run '^$' ./... >/dev/null)
java -cp /opt/veriftools/tla/tla2tools.jar tlc2.TLC -h >/dev/null 2>&1 || true
mkdir -p .work evidence
echo setup-ok
