#!/bin/sh
# Offline setup: warm the Go build cache for the harness against /repo and check the TLA+ toolchain.
set -e
cd "$(dirname "$0")/.."
export GOFLAGS=-mod=mod GOPROXY=off
cp /repo/go.sum harness/go.sum
# cache warm-up only: a package that does not build makes ITS check inconclusive, not the setup fail
(cd harness && go test -tags verif -count=1 -vet=off -run '^$' ./... >/dev/null 2>&1 || echo "setup: harness warm-up incomplete")
java -cp /opt/veriftools/tla/tla2tools.jar tlc2.TLC -h >/dev/null 2>&1 || true
mkdir -p .work evidence
echo setup-ok
