//go:build verif

// Minimal reproductions of what tools/vcheck C17 found on tree 2945f83 (spec/wire, harness/c17wire).
// Copy into /verif/harness/zzprobe and run:  go test -tags verif -run TestC17 -v ./zzprobe
//   TestC17Repaired...  failed on 2945f83, pass once the repairs R1 R2 R3 R4 R5 R7-panic (/verif/.work/c17-fix-*.diff) are in
//   TestC17Known...     known findings (known_findings.json, property C17): they FAIL and say what the statement demands
package zzprobe

import (
	"encoding/binary"
	"encoding/json"
	"runtime"
	"strings"
	"testing"
	"time"

	"verifharness/internal/chainkit"
	"verifharness/internal/histgen"

	"github.com/nspcc-dev/neo-go/pkg/config"
	"github.com/nspcc-dev/neo-go/pkg/config/netmode"
	"github.com/nspcc-dev/neo-go/pkg/consensus"
	"github.com/nspcc-dev/neo-go/pkg/core/state"
	"github.com/nspcc-dev/neo-go/pkg/core/transaction"
	"github.com/nspcc-dev/neo-go/pkg/io"
	"github.com/nspcc-dev/neo-go/pkg/neorpc/result"
	"github.com/nspcc-dev/neo-go/pkg/network/payload"
	"github.com/nspcc-dev/neo-go/pkg/smartcontract/nef"
	"github.com/nspcc-dev/neo-go/pkg/smartcontract/trigger"
	"github.com/nspcc-dev/neo-go/pkg/util"
	"github.com/nspcc-dev/neo-go/pkg/vm/stackitem"
	"github.com/nspcc-dev/neo-go/pkg/vm/vmstate"
)

// 1. Encoding an execution result CHANGES the object that stays in memory (VMState |= 0x80 when invocations are
// recorded); core/blockchain.go compares aer.VMState == vmstate.Halt right after StoreAsTransaction, so with
// SaveInvocations the token transfer log (and the notification feed) loses the transfers of every invoking transaction.
func TestC17RepairedR1EncodeMarksExecutionResult(t *testing.T) {
	a := &state.AppExecResult{Execution: state.Execution{Trigger: trigger.Application, VMState: vmstate.Halt,
		Invocations: []state.ContractInvocation{*state.NewContractInvocation(util.Uint160{1}, "m", []byte{0x40, 0}, 0)}}}
	w := io.NewBufBinWriter()
	a.EncodeBinary(w.BinWriter)
	if a.VMState != vmstate.Halt {
		t.Errorf("EncodeBinary changed the encoded object: VMState = %d (%s), want %d", a.VMState, a.VMState, vmstate.Halt)
	}
	counts := map[bool]int{}
	for _, save := range []bool{false, true} {
		net := chainkit.NewNet(5, 3)
		bc, err := net.NewChain(nil, func(c *config.Blockchain) { c.SaveInvocations = save })
		if err != nil {
			t.Fatal(err)
		}
		chainkit.Start(bc)
		gen := histgen.New(t, net, bc, 77, 8)
		for i := 0; i < 6; i++ {
			if _, err := gen.NextBlock(6); err != nil {
				t.Fatal(err)
			}
		}
		_ = bc.ForEachNEP17Transfer(gen.Accts[0].ScriptHash(), 1<<62, func(*state.NEP17Transfer) (bool, error) { counts[save]++; return true, nil })
		bc.Close()
	}
	if counts[true] != counts[false] {
		t.Errorf("the same history: %d NEP-17 transfers logged without SaveInvocations, %d with it", counts[false], counts[true])
	}
}

func sampleTx() *transaction.Transaction {
	return &transaction.Transaction{Nonce: 1, ValidUntilBlock: 9, Script: []byte{0x11},
		Signers: []transaction.Signer{{Account: util.Uint160{1}, Scopes: transaction.CalledByEntry}}, Attributes: []transaction.Attribute{},
		Scripts: []transaction.Witness{{InvocationScript: []byte{}, VerificationScript: []byte{}}}}
}

// 2. A transaction received with a non-minimal var-int reports the length of the RECEIVED bytes as its size: not the
// length of its encoding, and another size than the same transaction has after any re-encoding; its verbose JSON form
// is refused by the node's own client ("'size' doesn't match").
func TestC17RepairedR2SizeOfReceivedBytes(t *testing.T) {
	raw := sampleTx().Bytes()
	// the witness count (last var-int but two empty scripts) written as fd 01 00
	nc := append(append([]byte{}, raw[:len(raw)-3]...), 0xfd, 1, 0, 0, 0)
	tx, err := transaction.NewTransactionFromBytes(nc)
	if err != nil {
		t.Fatal(err)
	}
	if tx.Size() != len(tx.Bytes()) {
		t.Errorf("Size() = %d, the encoding has %d bytes", tx.Size(), len(tx.Bytes()))
	}
	js, _ := json.Marshal(result.TransactionOutputRaw{Transaction: *tx})
	if err := json.Unmarshal(js, &result.TransactionOutputRaw{}); err != nil {
		t.Errorf("the JSON form of an accepted transaction is refused: %v", err)
	}
}

func noPanic(t *testing.T, what string, f func() error) {
	t.Helper()
	defer func() {
		if r := recover(); r != nil {
			t.Errorf("%s: decoder panics: %v", what, r)
		}
	}()
	if err := f(); err == nil {
		t.Logf("%s: accepted", what)
	}
}

// 3. Stack item decoders panic instead of failing.
func TestC17RepairedR3StackItemDecoderPanics(t *testing.T) {
	des := func(b ...byte) func() error { return func() error { _, err := stackitem.Deserialize(b); return err } }
	noPanic(t, "integer of 33 bytes", des(0x21, 33))
	noPanic(t, "array count 2^64-1", des(0x40, 0xff, 0xff, 0xff, 0xff, 0xff, 0xff, 0xff, 0xff, 0xff))
	noPanic(t, "map with an array key", des(0x48, 1, 0x40, 0, 0x21, 1, 1))
	noPanic(t, "map with a 65-byte key", des(append(append([]byte{0x48, 1, 0x28, 65}, make([]byte, 65)...), 0x20, 1)...))
	noPanic(t, "JSON integer beyond 256 bits", func() error {
		_, err := stackitem.FromJSONWithTypes([]byte(`{"type":"Integer","value":"1` + strings.Repeat("0", 90) + `"}`))
		return err
	})
	noPanic(t, "plain JSON object with a 65-byte key", func() error {
		_, err := stackitem.FromJSON([]byte(`{"`+strings.Repeat("k", 65)+`":1}`), 10, true)
		return err
	})
	noPanic(t, "protected form: map with the invalid-item marker as key", func() error {
		r := io.NewBinReaderFromBuf([]byte{0x48, 1, 0xff, 0x20, 1})
		stackitem.DecodeBinaryProtected(r)
		return r.Err
	})
	noPanic(t, "plain JSON integer beyond 256 bits", func() error {
		_, err := stackitem.FromJSON([]byte(`1`+strings.Repeat("0", 90)), 10, true)
		return err
	})
}

func allocOf(f func()) (mb uint64, d time.Duration) {
	var a, b runtime.MemStats
	runtime.GC()
	runtime.ReadMemStats(&a)
	t0 := time.Now()
	f()
	runtime.ReadMemStats(&b)
	return (b.TotalAlloc - a.TotalAlloc) >> 20, time.Since(t0)
}

// 4. Count fields without a maximum: tens of bytes make a decoder allocate gigabytes (io.BinReader.ReadArray without a
// limit allocates the whole slice and walks it even after the first error).
func TestC17RepairedR4UnboundedAllocation(t *testing.T) {
	n := binary.LittleEndian.AppendUint32(nil, nef.Magic)
	n = append(append(n, make([]byte, 64)...), 0, 0, 0xfe, 0, 0, 0, 1) // source "", reserved, 16M method tokens
	mb, d := allocOf(func() { _, _ = nef.FileFromBytes(n) })
	if mb > 256 {
		t.Errorf("nef.FileFromBytes: %d input bytes -> %d MB allocated in %v (reached by ContractManagement.deploy)", len(n), mb, d)
	}
	w := io.NewBufBinWriter()
	w.WriteB(0x41) // recovery message
	w.WriteU32LE(5)
	w.WriteB(0)
	w.WriteB(0)
	w.WriteBytes([]byte{0xfe, 0, 0, 0, 1}) // 16M change view payloads
	e := payload.Extensible{Category: payload.ConsensusCategory, ValidBlockEnd: 5, Data: w.Bytes()}
	bw := io.NewBufBinWriter()
	e.EncodeBinary(bw.BinWriter)
	raw := bw.Bytes()
	mb, d = allocOf(func() { consensus.NewPayload(netmode.UnitTestNet, false).DecodeBinary(io.NewBinReaderFromBuf(raw)) })
	if mb > 256 {
		t.Errorf("consensus recovery message: %d input bytes -> %d MB allocated in %v", len(raw), mb, d)
	}
	a := append(make([]byte, 32+1+1+8), 0, 0xfe, 0, 0, 0, 1) // container, trigger, state, gas, empty stack, 16M events
	mb, d = allocOf(func() { (&state.AppExecResult{}).DecodeBinary(io.NewBinReaderFromBuf(a)) })
	if mb > 256 {
		t.Errorf("AppExecResult: %d input bytes -> %d MB allocated in %v", len(a), mb, d)
	}
}

// 5. result.ProofWithKey.DecodeBinary loops `count` times whatever happens to the reader: the argument of the
// `verifyproof` RPC (and the answer of `getproof` at a client) with count 2^32 keeps a core busy for minutes and grows
// the heap by 24 bytes per round (2^64: for ever).
func TestC17RepairedR5ProofCountLoop(t *testing.T) {
	in := []byte{1, 7, 0xfe, 0x00, 0x00, 0x00, 0x02} // key of one byte, 2^25 proof nodes, no data
	done := make(chan struct{})
	var mb uint64
	go func() {
		mb, _ = allocOf(func() { (&result.ProofWithKey{}).DecodeBinary(io.NewBinReaderFromBuf(in)) })
		close(done)
	}()
	select {
	case <-done:
		if mb > 256 {
			t.Errorf("ProofWithKey: %d input bytes -> %d MB allocated", len(in), mb)
		}
	case <-time.After(20 * time.Second):
		t.Errorf("ProofWithKey.DecodeBinary does not return on %d bytes", len(in))
	}
}

// 6. A transaction with an attribute of the reserved range is accepted in binary form; its JSON form cannot be decoded
// (binary -> JSON -> binary is broken for a value the binary decoder delivers).
func TestC17KnownR6ReservedAttributeJSON(t *testing.T) {
	tx := sampleTx()
	tx.Attributes = []transaction.Attribute{{Type: transaction.ReservedLowerBound + 1, Value: &transaction.Reserved{Value: []byte{1}}}}
	got, err := transaction.NewTransactionFromBytes(tx.Bytes())
	if err != nil {
		t.Fatal(err)
	}
	js, err := json.Marshal(got)
	if err != nil {
		t.Fatal(err)
	}
	if err := json.Unmarshal(js, &transaction.Transaction{}); err != nil {
		t.Errorf("the JSON form %s of a transaction the binary decoder accepts is refused: %v", js, err)
	}
}

// 7. JSON decoders deliver values that have no binary form (the binary decoder refuses their encoding), or panic.
func TestC17KnownR7JSONAcceptsWhatBinaryRefuses(t *testing.T) {
	hashes := make([]string, 17)
	for i := range hashes {
		hashes[i] = `"0x00000000000000000000000000000000000000` + string("0123456789abcdef"[i%16]) + `1"`
	}
	var s transaction.Signer
	if err := json.Unmarshal([]byte(`{"account":"0x0000000000000000000000000000000000000001","scopes":"CustomContracts","allowedcontracts":[`+
		strings.Join(hashes, ",")+`]}`), &s); err == nil {
		w := io.NewBufBinWriter()
		s.EncodeBinary(w.BinWriter)
		r := io.NewBinReaderFromBuf(w.Bytes())
		(&transaction.Signer{}).DecodeBinary(r)
		if r.Err != nil {
			t.Errorf("signer with 17 allowed contracts: accepted from JSON, its encoding is refused: %v", r.Err)
		}
	}
	var a transaction.Attribute
	if err := json.Unmarshal([]byte(`{"type":"OracleResponse","id":1,"code":"Timeout","result":"AQ=="}`), &a); err == nil {
		w := io.NewBufBinWriter()
		a.EncodeBinary(w.BinWriter)
		r := io.NewBinReaderFromBuf(w.Bytes())
		(&transaction.Attribute{}).DecodeBinary(r)
		if r.Err != nil {
			t.Errorf("oracle response Timeout with a result: accepted from JSON, its encoding is refused: %v", r.Err)
		}
	}
	var f nef.File
	if err := json.Unmarshal([]byte(`{"magic":1,"compiler":"x","source":"","tokens":[],"script":"EQ==","checksum":5}`), &f); err == nil {
		if raw, err := f.BytesLong(); err == nil {
			if _, err := nef.FileFromBytes(raw); err != nil {
				t.Errorf("NEF with a wrong magic and checksum: accepted from JSON, its encoding is refused: %v", err)
			}
		}
	}
}

// 7b. A null in a signer's list of groups made Transaction.UnmarshalJSON panic (nil dereference while hashing).
func TestC17RepairedR7NullGroupPanic(t *testing.T) {
	noPanic(t, "transaction JSON with a null group", func() error {
		tx := sampleTx()
		js, _ := json.Marshal(tx)
		bad := strings.Replace(string(js), `"scopes":"CalledByEntry"`, `"scopes":"CustomGroups","allowedgroups":[null]`, 1)
		return json.Unmarshal([]byte(bad), &transaction.Transaction{})
	})
}

// 8. The JSON form of a recorded invocation does not lead back to its binary form: the arguments are lost (and a second
// JSON encoding drops them, a third fails).
func TestC17KnownR8InvocationArgumentsJSON(t *testing.T) {
	args, _ := stackitem.Serialize(stackitem.NewArray([]stackitem.Item{stackitem.Make(5)}))
	a := &state.AppExecResult{Execution: state.Execution{Trigger: trigger.Application, VMState: vmstate.Halt, Stack: []stackitem.Item{},
		Events: []state.NotificationEvent{}, Invocations: []state.ContractInvocation{*state.NewContractInvocation(util.Uint160{1}, "m", args, 1)}}}
	enc := func(x *state.AppExecResult) []byte {
		w := io.NewBufBinWriter()
		x.EncodeBinary(w.BinWriter)
		x.VMState &= 0x7f
		return w.Bytes()
	}
	want := enc(a)
	js, err := json.Marshal(a)
	if err != nil {
		t.Fatal(err)
	}
	b := &state.AppExecResult{}
	if err := json.Unmarshal(js, b); err != nil {
		t.Fatal(err)
	}
	if got := enc(b); string(got) != string(want) {
		t.Errorf("binary -> JSON -> binary changes the execution result:\n%x\n%x", want, got)
	}
	js2, _ := json.Marshal(b)
	if string(js2) != string(js) {
		t.Errorf("JSON -> object -> JSON changes: %s -> %s", js, js2)
	}
}
