//go:build verif

// Reproduction of the C07 / conflictrec findings on the real node.
// Place at /repo/pkg/core/c07_conflictrec_repro_test.go and run
//
//	GOFLAGS=-mod=mod GOPROXY=off go test -tags verif ./pkg/core/ -run TestC07ConflictRec -count=1 -v
package core_test

import (
	"testing"
	"time"

	"github.com/nspcc-dev/neo-go/pkg/config"
	"github.com/nspcc-dev/neo-go/pkg/core"
	"github.com/nspcc-dev/neo-go/pkg/core/block"
	"github.com/nspcc-dev/neo-go/pkg/core/mempool"
	"github.com/nspcc-dev/neo-go/pkg/core/transaction"
	"github.com/nspcc-dev/neo-go/pkg/io"
	"github.com/nspcc-dev/neo-go/pkg/neotest"
	"github.com/nspcc-dev/neo-go/pkg/neotest/chain"
	"github.com/nspcc-dev/neo-go/pkg/vm/opcode"
	"github.com/stretchr/testify/require"
)

// Two correct nodes of one network, the same chain: "plain" keeps every block, "pruned" runs with
// RemoveUntraceableBlocks.  X is on chain and untraceable; the pruned node has collected it.  A names X in a Conflicts
// attribute.  The pruned node admits A to its pool and makes a block of it; the plain node refuses that block.
func TestC07ConflictRec_MixedNetwork(t *testing.T) {
	core.VerifSetPersistInterval(100 * time.Hour)
	const mtb = 2
	mk := func(prune bool) (*core.Blockchain, neotest.Signer) {
		return chain.NewSingleWithCustomConfig(t, func(c *config.Blockchain) {
			c.MaxTraceableBlocks = mtb
			c.MaxValidUntilBlockIncrement = 100000
			c.Ledger.RemoveUntraceableBlocks = prune
			c.Ledger.GarbageCollectionPeriod = 1
		})
	}
	plain, acc := mk(false)
	pruned, _ := mk(true)
	e := neotest.NewExecutor(t, plain, acc, acc)

	wire := func(b *block.Block) *block.Block {
		w := io.NewBufBinWriter()
		b.EncodeBinary(w.BinWriter)
		require.NoError(t, w.Err)
		d := block.New(false)
		r := io.NewBinReaderFromBuf(w.Bytes())
		d.DecodeBinary(r)
		require.NoError(t, r.Err)
		return d
	}
	add := func(txs ...*transaction.Transaction) {
		b := e.NewUnsignedBlock(t, txs...)
		e.SignBlock(b)
		require.NoError(t, pruned.AddBlock(wire(b)))
		require.NoError(t, plain.AddBlock(wire(b)))
		require.NoError(t, pruned.VerifPersist()) // flush + collector, as the persist timer does
		require.NoError(t, pruned.VerifPersist())
	}
	newTx := func(conflicts ...*transaction.Transaction) *transaction.Transaction {
		tx := transaction.New([]byte{byte(opcode.PUSH1)}, 0)
		tx.Nonce = uint32(len(conflicts)) + 7
		tx.ValidUntilBlock = plain.BlockHeight() + 5000
		for _, c := range conflicts {
			tx.Attributes = append(tx.Attributes, transaction.Attribute{Type: transaction.ConflictsT, Value: &transaction.Conflicts{Hash: c.Hash()}})
		}
		return e.SignTx(t, tx, 100_0000, acc)
	}
	// the real collector removes blocks for the first time at heights 2000 and 2001
	for plain.BlockHeight() < 1995 {
		add()
	}
	x := newTx()
	add(x) // block 1996
	for plain.BlockHeight() < 2001 {
		add()
	}
	_, _, err := pruned.GetTransaction(x.Hash())
	require.Error(t, err, "the pruned node has collected X")
	_, _, err = plain.GetTransaction(x.Hash())
	require.NoError(t, err)

	a := newTx(x)
	t.Logf("the plain node on A: %v", plain.PoolTx(a, mempool.New(1, false, nil))) // unchanged tree: conflicting transaction is already on chain
	mp := mempool.New(1, false, nil)
	require.NoError(t, pruned.PoolTx(a, mp)) // admitted
	// the pruned node as a primary
	ep := neotest.NewExecutor(t, pruned, acc, acc)
	b := ep.NewUnsignedBlock(t, pruned.ApplyPolicyToTxSet(mp.GetVerifiedTransactions())...)
	ep.SignBlock(b)
	require.NoError(t, pruned.AddBlock(wire(b)))
	require.NoError(t, plain.AddBlock(wire(b)), "a block made from the pool of a correct node is refused by another correct node")
}
