//go:build verif

package zzprobe

import (
	"testing"

	"verifharness/internal/chainkit"
	"verifharness/internal/histgen"

	"github.com/nspcc-dev/neo-go/pkg/config"
	"github.com/nspcc-dev/neo-go/pkg/core/native/nativenames"
	"github.com/nspcc-dev/neo-go/pkg/core/native/noderoles"
	"github.com/nspcc-dev/neo-go/pkg/core/storage"
	"github.com/nspcc-dev/neo-go/pkg/core/transaction"
	"github.com/nspcc-dev/neo-go/pkg/neotest"
	"github.com/nspcc-dev/neo-go/pkg/smartcontract/trigger"
)

func TestOracleOld(t *testing.T) {
	net := chainkit.NewNet(4, 4)
	proto := func(c *config.Blockchain) { c.MaxTraceableBlocks = 24 }
	ref, err := net.NewChain(storage.NewMemoryStore(), proto)
	if err != nil {
		t.Fatal(err)
	}
	chainkit.Start(ref)
	gc, err := net.NewChain(storage.NewMemoryStore(), func(c *config.Blockchain) {
		proto(c)
		c.Ledger.RemoveUntraceableBlocks = true
		c.Ledger.GarbageCollectionPeriod = 5
	})
	if err != nil {
		t.Fatal(err)
	}
	chainkit.Start(gc)
	g := histgen.New(t, net, ref, 1, 4)
	g.Weights = map[string]int{"gas": 1}
	add := func(txs ...*transaction.Transaction) {
		b, err := net.NewBlock(ref, 1, txs...)
		if err != nil {
			t.Fatal(err)
		}
		if err := ref.AddBlock(b); err != nil {
			t.Fatal("ref", err)
		}
		g.Harvest(b)
		raw, _ := chainkit.EncodeBlock(b)
		b2, _ := chainkit.DecodeBlock(raw, false)
		if err := gc.AddBlock(b2); err != nil {
			t.Fatal("gc", b.Index, err)
		}
		gc.VerifPersist()
	}
	add(g.Bootstrap()...)
	a := g.Accts[0]
	c := histgen.KV(t, a.ScriptHash(), 1, 1)
	add(g.SafeDeploy(a, c))
	add(g.Tx([]neotest.Signer{g.E.Committee}, g.E.NativeHash(t, nativenames.Designation), "designateAsRole", int64(noderoles.Oracle), []any{a.Account().PublicKey().Bytes()}))
	add(g.Tx([]neotest.Signer{a}, c.Hash, "oracleReq", "https://a.example/1", nil, nil, int64(1_0000_0000)))
	t.Log("pending", g.PendingOracle)
	reqTx := g.OldTxs[len(g.OldTxs)-1]
	for i := 0; i < 4100; i++ {
		add()
	}
	g.R.Seed(5)
	var tx *transaction.Transaction
	for i := 0; i < 50 && tx == nil; i++ {
		tx = g.OracleResponse()
		if tx != nil && tx.Attributes[0].Value.(*transaction.OracleResponse).ID != 0 {
			tx = nil
		}
	}
	if tx == nil {
		t.Fatal("no response built")
	}
	if err := ref.VerifyTx(tx); err != nil {
		t.Fatal("verify", err)
	}
	add(tx)
	_, h1, e1 := ref.GetTransaction(reqTx)
	_, h2, e2 := gc.GetTransaction(reqTx)
	t.Log("reqtx on ref", h1, e1, "on gc", h2, e2)
	r1, _ := ref.GetAppExecResults(tx.Hash(), trigger.Application)
	r2, _ := gc.GetAppExecResults(tx.Hash(), trigger.Application)
	t.Log("ref:", r1[0].VMState, r1[0].FaultException, " gc:", r2[0].VMState, r2[0].FaultException)
	t.Log(ref.GetStateModule().CurrentLocalStateRoot(), gc.GetStateModule().CurrentLocalStateRoot())
}
