//go:build verif

package zzprobe

import (
	"strings"
	"testing"

	"github.com/nspcc-dev/neo-go/pkg/compiler"
	"github.com/nspcc-dev/neo-go/pkg/vm"
)

func runC(t *testing.T, src string) string {
	b, di, err := compiler.CompileWithOptions("foo.go", strings.NewReader(src), nil)
	if err != nil {
		return "compile error: " + err.Error()
	}
	v := vm.New()
	v.LoadScript(b.Script)
	mainOff, initOff := -1, -1
	for _, m := range di.Methods {
		if m.Name.Name == "main" {
			mainOff = int(m.Range.Start)
		}
		if m.Name.Name == "_initialize" {
			initOff = int(m.Range.Start)
		}
	}
	v.Context().Jump(mainOff)
	if initOff >= 0 {
		v.Call(initOff)
	}
	if err := v.Run(); err != nil {
		return "fault: " + err.Error()
	}
	return func() string { it := v.Estack().Pop().Item(); bi, err := it.TryInteger(); if err != nil { return it.Type().String() }; return bi.String() }()
}

func TestGlobals(t *testing.T) {
	for name, src := range map[string]string{
		"mapkey": `package foo
var k = 5
func Main() int { m := map[int]int{k: 7}; return m[5] }`,
		"deferarg": `package foo
var g = 9
var out int
func set(x int) { out = x }
func f() { defer set(g) }
func Main() int { f(); return out }`,
		"sliceidx": `package foo
type T struct{ x int }
var gs = []T{{x: 4}}
func Main() int { return gs[0].x }`,
	} {
		t.Log(name, "=>", runC(t, src))
	}
}
