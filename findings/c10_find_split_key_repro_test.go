//go:build verif

package zzprobe

import (
	"encoding/hex"
	"os"
	"testing"

	"github.com/nspcc-dev/neo-go/pkg/core/mpt"
	"github.com/nspcc-dev/neo-go/pkg/core/storage"
)

func hx(s string) []byte { b, _ := hex.DecodeString(s); return b }

func TestFindFrom(t *testing.T) {
	for _, mode := range []mpt.TrieMode{mpt.ModeAll, mpt.ModeGC} {
		for _, flushEach := range []bool{false, true} {
			st := storage.NewMemCachedStore(storage.NewMemoryStore())
			tr := mpt.NewTrie(nil, mode, st)
			k1 := hx("0f00f011ff10100f1100ff01f00ff000010010f0ff111012ffff")
			k2 := hx("0f00f011ff10100f1100ff01f00ff000010010f0ff111012ff000012")
			k3 := hx("0f00f011ff10100f1100ff01f00ff000010010f0ff111012ff")
			step := func(b map[string][]byte) {
				if _, err := tr.PutBatch(mpt.MapToMPTBatch(b)); err != nil {
					t.Fatal(err)
				}
				if flushEach {
					tr.Flush(0)
				}
			}
			step(map[string][]byte{"p" + string(k1): []byte("a")})
			step(map[string][]byte{"p" + string(k2): []byte("a")})
			if os.Getenv("NODEL") == "" {
				_ = tr.Delete(hx("0f"))
			}
			step(map[string][]byte{"p" + string(k3): nil, "p" + string(k2): nil})
			step(map[string][]byte{"p" + string(k2): {}})
			v1, e1 := tr.Get(k1)
			v2, e2 := tr.Get(k2)
			all, _ := tr.Find(nil, nil, 10)
			t.Logf("get k1 %x %v  get k2 %x %v  all %d", v1, e1, v2, e2, len(all))
			for _, r := range all {
				t.Logf("   all %x = %x", r.Key, r.Value)
			}
			res, err := tr.Find(nil, hx("0f00f011ff10100f1100ff01f00ff0000100"), 2)
			t.Logf("mode %v flushEach %v: err %v", mode, flushEach, err)
			for _, r := range res {
				t.Logf("   %x = %x", r.Key, r.Value)
			}
			if len(res) != 2 || hex.EncodeToString(res[1].Key) != hex.EncodeToString(k1) {
				t.Errorf("mode %v flushEach %v: second result is not the stored key", mode, flushEach)
			}
		}
	}
}
