//go:build verif

package zzprobe

import (
	"testing"

	"github.com/nspcc-dev/neo-go/pkg/core/storage"
	"github.com/nspcc-dev/neo-go/pkg/core/storage/dbconfig"
	"verifharness/internal/chainkit"
	"verifharness/internal/histgen"
)

func TestTopBlockAfterReset(t *testing.T) {
	net := chainkit.NewNet(4, 4)
	dir := t.TempDir()
	open := func() storage.Store {
		st, err := storage.NewLevelDBStore(dbconfig.LevelDBOptions{DataDirectoryPath: dir})
		if err != nil {
			t.Fatal(err)
		}
		return st
	}
	st := open()
	bc, err := net.NewChain(st, nil)
	if err != nil {
		t.Fatal(err)
	}
	chainkit.Start(bc)
	g := histgen.New(t, net, bc, 5, 8)
	for i := 0; i < 6; i++ {
		if _, err := g.NextBlock(4); err != nil {
			t.Fatal(err)
		}
	}
	if err := bc.VerifPersist(); err != nil {
		t.Fatal(err)
	}
	bc.Close()
	bc2, err := net.NewChain(open(), nil)
	if err != nil {
		t.Fatal(err)
	}
	if err := bc2.Reset(4); err != nil {
		t.Fatal(err)
	}
	b, err := bc2.GetBlock(bc2.GetHeaderHash(4))
	if err != nil {
		t.Fatal(err)
	}
	for i, tx := range b.Transactions {
		if len(tx.Signers) == 0 || len(tx.Script) == 0 {
			t.Errorf("top block %d after reset: transaction %d (%s) has no signers / script", b.Index, i, tx.Hash().StringLE())
		}
	}
	t.Logf("%d transactions", len(b.Transactions))
}
