// Reproduction of the C07 / conflictrec observation about dao.DeleteBlock (information, outside the C07 statement).
// Place at /repo/pkg/core/dao/c07_conflictrec_dao_repro_test.go and run
//
//	GOFLAGS=-mod=mod GOPROXY=off go test ./pkg/core/dao/ -run TestC07ConflictRec -count=1 -v
package dao

import (
	"testing"

	"github.com/nspcc-dev/neo-go/pkg/core/block"
	"github.com/nspcc-dev/neo-go/pkg/core/storage"
	"github.com/nspcc-dev/neo-go/pkg/core/transaction"
	"github.com/nspcc-dev/neo-go/pkg/util"
	"github.com/nspcc-dev/neo-go/pkg/vm/opcode"
	"github.com/stretchr/testify/require"
)

func c07tx(nonce uint32, signer util.Uint160, named ...util.Uint256) *transaction.Transaction {
	tx := transaction.New([]byte{byte(opcode.PUSH1)}, 1)
	tx.Nonce = nonce
	tx.Signers = []transaction.Signer{{Account: signer}}
	tx.Scripts = []transaction.Witness{{}}
	for _, h := range named {
		tx.Attributes = append(tx.Attributes, transaction.Attribute{Type: transaction.ConflictsT, Value: &transaction.Conflicts{Hash: h}})
	}
	return tx
}

// DeleteBlock iterates the block returned by getBlock, which is TRIMMED (transaction hashes only): it sees no Conflicts
// attribute and no signer, so the conflict records written by StoreAsTransaction for the removed block are never removed.
func TestC07ConflictRec_DeleteBlockKeepsConflictRecords(t *testing.T) {
	d := NewSimple(storage.NewMemoryStore(), false)
	signer := util.Uint160{1}
	named := util.Uint256{7}
	tx := c07tx(1, signer, named)
	b := &block.Block{Header: block.Header{Index: 5}, Transactions: []*transaction.Transaction{tx}}
	b.RebuildMerkleRoot()
	require.NoError(t, d.StoreAsTransaction(tx, b.Index, nil))
	require.NoError(t, d.StoreAsBlock(b, nil, nil))
	require.ErrorIs(t, d.HasTransaction(named, tx.Signers, 5, 10), ErrHasConflicts)

	_, err := d.DeleteBlock(b.Hash())
	require.NoError(t, err)
	stub := append([]byte{byte(storage.DataExecutable)}, named.BytesBE()...)
	_, err = d.Store.Get(stub)
	require.Error(t, err, "the conflict record stub of the removed block is still in the database")
	_, err = d.Store.Get(append(stub, signer.BytesBE()...))
	require.Error(t, err, "the conflict signer record of the removed block is still in the database")
}

// What the text of DeleteBlock would do if it saw complete transactions (e.g. after the block is loaded in full): two
// transactions of one block naming the same hash make it return "failed to retrieve conflict record stub" half way.
// Here the removal loop is fed complete transactions by storing the block untrimmed-equivalent: demonstrated through
// the model only (spec/conflictrec, GCMode "strict", configuration MC_info_GCError.cfg).
