//go:build verif

package zzprobe

import (
	"testing"

	"github.com/nspcc-dev/neo-go/pkg/core/mpt"
	"github.com/nspcc-dev/neo-go/pkg/core/storage"
)

func TestFindThenGet(t *testing.T) {
	st := storage.NewMemCachedStore(storage.NewMemoryStore())
	tr := mpt.NewTrie(nil, mpt.ModeAll, st)
	keys := [][]byte{{0x12, 0x34, 0x01}, {0x12, 0x34, 0x02}, {0x12, 0x56, 0x03}, {0x77}}
	for i, k := range keys {
		if err := tr.Put(k, []byte{byte(i + 1)}); err != nil {
			t.Fatal(err)
		}
	}
	// no flush
	res, err := tr.Find([]byte{0x12}, nil, 10)
	t.Logf("find: %d %v", len(res), err)
	for _, k := range keys {
		v, err := tr.Get(k)
		t.Logf("get %x -> %x %v", k, v, err)
		if err != nil {
			t.Errorf("Get(%x) after Find on an unflushed trie: %v", k, err)
		}
	}
	t.Logf("root %s", tr.StateRoot().StringLE())
}
