package c20net

import (
	"bytes"
	"fmt"
	"math/rand"
	"sync"
	"testing"

	"verifharness/internal/chainkit"
	"verifharness/internal/vh"

	"github.com/nspcc-dev/neo-go/pkg/config"
	"github.com/nspcc-dev/neo-go/pkg/core/block"
	"github.com/nspcc-dev/neo-go/pkg/core/mpt"
	"github.com/nspcc-dev/neo-go/pkg/io"
	"github.com/nspcc-dev/neo-go/pkg/network"
	"github.com/nspcc-dev/neo-go/pkg/network/payload"
)

// SSCase is one wire-level state synchronisation scenario: a fresh node with P2PStateExchangeExtensions +
// RemoveUntraceableBlocks bootstraps from fake peers that serve headers, trie nodes and blocks of a source chain.
type SSCase struct {
	Name  string     `json:"name"`
	SSI   int        `json:"ssi"`   // StateSyncInterval
	MTB   int        `json:"mtb"`   // MaxTraceableBlocks
	N     int        `json:"n"`     // length of the source chain
	Peers []PeerSpec `json:"peers"` // kinds honest | garbage (gk: hdr | mpt | blk) | silent
	Batch int        `json:"batch"` // at most this many headers / trie nodes per answer (0: as many as asked)
	Order string     `json:"order"` // trie nodes of an answer: asc | desc
	// Early: the FIRST peer (kind silent: stage headers; kind hdronly: it serves headers only, stage trie nodes) sends an
	// unsolicited block command before the other peers connect
	Early bool `json:"early"`
}

func ssProto(ssi, mtb int) func(*config.Blockchain) {
	return func(c *config.Blockchain) {
		c.StateRootInHeader = true
		c.P2PStateExchangeExtensions = true
		c.StateSyncInterval = ssi
		c.MaxTraceableBlocks = uint32(mtb)
		c.MaxValidUntilBlockIncrement = uint32(mtb) / 2
	}
}

func ssSink(c *config.Blockchain) {
	c.Ledger.RemoveUntraceableBlocks = true
	c.Ledger.KeepOnlyLatestState = true
}

// install the state-exchange answers of the fake peers
func (sc *scenario) installSS(c SSCase) {
	var mu sync.Mutex
	gused := map[int]bool{}
	useG := func(p *peer, what string) bool {
		if p.spec.Kind != "garbage" || p.spec.GK != what {
			return false
		}
		mu.Lock()
		defer mu.Unlock()
		if gused[p.id] {
			return false
		}
		gused[p.id] = true
		return true
	}
	sc.onGetHeaders = func(p *peer, g *payload.GetBlockByIndex) {
		if !p.responsive() && p.spec.Kind != "hdronly" {
			return
		}
		cnt := int(g.Count)
		if cnt < 0 || cnt > payload.MaxHeadersAllowed {
			cnt = payload.MaxHeadersAllowed
		}
		if c.Batch > 0 && cnt > c.Batch {
			cnt = c.Batch
		}
		var hs []*block.Header
		for k := int(g.IndexStart); k < int(g.IndexStart)+cnt && k <= int(sc.src.n); k++ {
			if k < 1 {
				continue
			}
			hs = append(hs, &sc.src.block(uint32(k)).Header)
		}
		if len(hs) == 0 {
			return
		}
		bad := useG(p, "hdr")
		if bad { // a header of the batch whose content was changed after signing
			h := *hs[len(hs)/2]
			h.Timestamp++
			hs[len(hs)/2] = &h
		}
		p.emit(map[string]any{"event": "srvh", "from": int(hs[0].Index), "to": int(hs[len(hs)-1].Index), "g": bad})
		_ = p.c.send(network.NewMessage(network.CMDHeaders, &payload.Headers{Hdrs: hs, StateRootInHeader: true}))
	}
	mod := sc.src.bc.GetStateSyncModule()
	sc.onGetMPT = func(p *peer, inv *payload.MPTInventory) {
		if !p.responsive() {
			return
		}
		var nodes [][]byte
		seen := map[string]bool{}
		limit := 1 << 20
		for _, h := range inv.Hashes {
			_ = mod.Traverse(h, func(n mpt.Node, nb []byte) bool {
				k := string(n.Hash().BytesBE())
				if seen[k] {
					return false
				}
				if c.Batch > 0 && len(nodes) >= c.Batch {
					return true
				}
				if limit -= len(nb); limit < 0 {
					return true
				}
				seen[k] = true
				nodes = append(nodes, bytes.Clone(nb))
				return false
			})
		}
		if len(nodes) == 0 {
			return
		}
		if c.Order == "desc" {
			for i, j := 0, len(nodes)-1; i < j; i, j = i+1, j-1 {
				nodes[i], nodes[j] = nodes[j], nodes[i]
			}
		}
		bad := useG(p, "mpt")
		if bad { // a node that hashes to something nobody asked for
			x := bytes.Clone(nodes[len(nodes)/2])
			x[len(x)-1] ^= 0x01
			nodes[len(nodes)/2] = x
		}
		p.emit(map[string]any{"event": "srvn", "n": len(nodes), "g": bad})
		_ = p.c.send(network.NewMessage(network.CMDMPTData, &payload.MPTData{Nodes: nodes}))
	}
}

func runStateSync(t *testing.T, c SSCase, seed int64) ([]map[string]any, map[string]any, error) {
	progressNote("statesync " + c.Name)
	src, err := newSource(t, uint32(c.N), uint32(c.N), seed, ssProto(c.SSI, c.MTB))
	if err != nil {
		return nil, nil, fmt.Errorf("source: %w", err)
	}
	defer src.bc.Close()
	P := (c.N / c.SSI) * c.SSI
	log := &evlog{}
	nd, err := newNode(src, nodeOpts{h0: 0, hook: ssSink, ss: true}, log)
	if err != nil {
		return nil, nil, err
	}
	peers := make([]PeerSpec, len(c.Peers))
	steps := []Step{}
	for i, p := range c.Peers {
		p.Has = [][2]int{{1, c.N}}
		if p.Kind == "silent" || p.Kind == "hdronly" {
			p.Has = nil
		}
		p.Adv = c.N
		p.Reconnect = true
		if p.Kind == "garbage" && p.GK == "blk" { // refused blocks of the range the state sync stores without executing
			p.G = [][2]int{{max(1, P-2), P}}
			p.GK = "tamper"
			p.GMax = 1
		}
		peers[i] = p
		steps = append(steps, Step{Op: "connect", P: i + 1})
		if i == 0 && p.Kind == "garbage" { // its answers arrive before anybody else's
			steps = append(steps, Step{Op: "sync"}, Step{Op: "sync"}, Step{Op: "sync"})
		}
		if i == 0 && c.Early {
			steps = append(steps, Step{Op: "sync"}, Step{Op: "sync"}, Step{Op: "sync"}, Step{Op: "push", P: 1, Blocks: []int{max(1, P-1)}},
				Step{Op: "sync"})
		}
	}
	sp := Scenario{Name: c.Name, H0: 0, Peers: peers, Steps: steps}
	sc := &scenario{sp: sp, src: src, node: nd, log: log, rnd: rand.New(rand.NewSource(seed)), lateObserver: true}
	sc.installSS(c)
	mod := nd.mod
	sc.progress = func(h int) string {
		ph := "other"
		if !mod.IsActive() {
			ph = "done"
		} else if mod.NeedHeaders() {
			ph = "headers"
		} else if mod.NeedStorageData() {
			ph = "mpt"
		} else if mod.NeedBlocks() {
			ph = "blocks"
		}
		bh := uint32(0)
		if ph == "blocks" {
			bh = mod.BlockHeight()
		}
		var unk any
		if ph == "mpt" {
			unk = mod.GetUnknownMPTNodesBatch(4)
		}
		return fmt.Sprint(h, " ", nd.bc.HeaderHeight(), " ", bh, " ", ph, " ", unk)
	}
	defer func() {
		sc.closeAll()
		nd.close()
	}()
	raw, err := sc.run()
	if err != nil {
		return nil, nil, err
	}
	evs := finish(sp, src, raw)
	evs[0]["ssp"] = P
	evs[0]["ss"] = map[string]any{"ssi": c.SSI, "mtb": c.MTB, "n": c.N, "batch": c.Batch, "order": c.Order}
	end := evs[len(evs)-1]
	end["phase"] = sc.progress(end["h"].(int))
	// the synchronised node against the source: everything the protocol defines at the common height
	if end["h"].(int) == c.N {
		a, b := chainkit.Compute(nd.bc), chainkit.Compute(src.bc)
		diff := []string{}
		for _, k := range []string{"height", "tip", "stateroot", "storage"} {
			if a[k] != b[k] {
				diff = append(diff, k)
			}
		}
		end["digestdiff"] = diff
		if len(diff) > 0 {
			end["rootok"] = false
		}
	}
	return evs, end, nil
}

func runStateSyncs(t *testing.T, res *vh.Result, tr *vh.Trace, cases []SSCase, par int) {
	out := make([][]map[string]any, len(cases))
	jobs := make(chan int, len(cases))
	for i := range cases {
		jobs <- i
	}
	close(jobs)
	var wg sync.WaitGroup
	var mu sync.Mutex
	master := vh.Rand(21)
	seeds := make([]int64, len(cases))
	for i := range seeds {
		seeds[i] = master.Int63()
	}
	for k := 0; k < par; k++ {
		wg.Add(1)
		go func() {
			defer wg.Done()
			for i := range jobs {
				evs, end, err := runStateSync(t, cases[i], seeds[i])
				mu.Lock()
				if err != nil {
					t.Errorf("state sync scenario %s: %v", cases[i].Name, err)
				} else {
					out[i] = evs
					if i%5 == 0 {
						res.Sample(map[string]any{"statesync": cases[i], "end": end})
					}
				}
				mu.Unlock()
			}
		}()
	}
	wg.Wait()
	n := 0
	for i, evs := range out {
		if evs == nil {
			continue
		}
		n++
		for _, ev := range evs {
			tr.Emit(ev)
		}
		res.Count(map[string]any{"ss": cases[i]})
	}
	res.Traces += n
	res.Inc("net_statesync_scenarios", n)
}

var _ = io.NewBufBinWriter
