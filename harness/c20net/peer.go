package c20net

import (
	"bytes"
	"errors"
	"fmt"
	"math/rand"
	"sort"
	"sync"
	"time"

	"github.com/nspcc-dev/neo-go/pkg/core/block"
	"github.com/nspcc-dev/neo-go/pkg/network"
	"github.com/nspcc-dev/neo-go/pkg/network/payload"
	"github.com/nspcc-dev/neo-go/pkg/util"
)

// PeerSpec is the script of one fake peer (shared with the TLA+ modules: spec/netsync/NetSync*.tla).
type PeerSpec struct {
	Kind  string   `json:"kind"`  // honest | garbage | silent | liar | mute | observer
	Has   [][2]int `json:"has"`   // index ranges of valid blocks the peer serves on request
	Adv   int      `json:"adv"`   // height advertised in version / ping / pong (0: highest block it has)
	Order string   `json:"order"` // asc | desc | shuf : order of the blocks inside one answer
	Dup   bool     `json:"dup"`   // every answer is sent twice
	G     [][2]int `json:"g"`     // indexes answered with garbage instead (kind garbage) ...
	GK    string   `json:"gk"`    // ... of this kind: badsig | tamper
	GMax  int      `json:"gmax"`  // ... for the first GMax requests touching them; afterwards the peer serves honestly
	// Reconnect: the peer dials again when the node drops it (what discovery does for real peers)
	Reconnect bool `json:"reconnect"`
}

func inRanges(rs [][2]int, k int) bool {
	for _, r := range rs {
		if k >= r[0] && k <= r[1] {
			return true
		}
	}
	return false
}

func maxOf(rs [][2]int) int {
	m := 0
	for _, r := range rs {
		if r[1] > m {
			m = r[1]
		}
	}
	return m
}

// toRanges compresses a set of indexes.
func toRanges(xs []int) [][2]int {
	s := append([]int(nil), xs...)
	sort.Ints(s)
	out := [][2]int{}
	for _, x := range s {
		if n := len(out); n > 0 && (out[n-1][1] == x || out[n-1][1]+1 == x) {
			out[n-1][1] = x
		} else {
			out = append(out, [2]int{x, x})
		}
	}
	return out
}

// peer is a connected fake peer with its reader goroutine.
type peer struct {
	id    int
	spec  PeerSpec
	sc    *scenario
	c     *conn
	nonce uint32
	adv   uint32
	rnd   *rand.Rand

	mu       sync.Mutex
	gleft    int
	invd     map[int]bool // indexes announced with inv (served on getdata)
	pongs    chan uint32
	answers  chan *network.Message // node's answers to the peer's own queries (block / headers / inv / notfound)
	gone     chan struct{}
	byUs     bool
	reqs     int
	nodePing int
	nodeInv  int
	getaddr  int
	hsOK     bool
	readErr  error
}

func (p *peer) responsive() bool { return p.spec.Kind == "honest" || p.spec.Kind == "garbage" }
func (p *peer) pingable() bool   { return p.spec.Kind != "mute" }

func (p *peer) emit(ev map[string]any) {
	ev["p"] = p.id
	p.sc.log.emit(ev)
}

// handshake performs the legal exchange: node's version, our version, node's verack, our verack.
func (p *peer) handshake() error {
	m, err := p.c.recv()
	if err != nil {
		return fmt.Errorf("handshake: %w", err)
	}
	if m.Command != network.CMDVersion {
		return fmt.Errorf("handshake: first message is %s", cmdName(m.Command))
	}
	if err := p.c.send(versionMsg(p.sc.src.net.Magic, p.nonce, p.adv, true)); err != nil {
		return err
	}
	m, err = p.c.recv()
	if err != nil {
		return fmt.Errorf("handshake: %w", err)
	}
	if m.Command != network.CMDVerack {
		return fmt.Errorf("handshake: second message is %s", cmdName(m.Command))
	}
	p.emit(map[string]any{"event": "conn", "adv": int(p.adv), "kind": p.spec.Kind})
	if err := p.c.send(verackMsg()); err != nil {
		return err
	}
	p.hsOK = true
	return nil
}

// loop is the reader goroutine: it answers the node according to the peer's script.
func (p *peer) loop() {
	defer close(p.gone)
	for {
		m, err := p.c.recv()
		if err != nil {
			p.mu.Lock()
			byUs := p.byUs
			p.readErr = err
			p.mu.Unlock()
			if !byUs {
				p.emit(map[string]any{"event": "close", "by": "node", "timeout": errors.Is(err, errTimeout)})
			}
			return
		}
		switch m.Command {
		case network.CMDPing:
			p.nodePing++
			if p.spec.Kind != "mute" {
				_ = p.c.send(pongMsg(p.adv, p.nonce))
			}
		case network.CMDPong:
			select {
			case p.pongs <- m.Payload.(*payload.Ping).LastBlockIndex:
			default:
			}
		case network.CMDGetAddr:
			p.getaddr++
		case network.CMDInv:
			inv := m.Payload.(*payload.Inventory)
			if inv.Type == payload.BlockType {
				p.nodeInv += len(inv.Hashes)
			}
			p.answer(m)
		case network.CMDGetBlockByIndex:
			g := m.Payload.(*payload.GetBlockByIndex)
			p.reqs++
			p.emit(map[string]any{"event": "req", "cmd": "getblockbyindex", "start": int(g.IndexStart), "count": int(g.Count)})
			p.serveRange(int(g.IndexStart), int(g.Count))
		case network.CMDGetData:
			inv := m.Payload.(*payload.Inventory)
			p.serveData(inv)
		case network.CMDGetHeaders:
			g := m.Payload.(*payload.GetBlockByIndex)
			p.emit(map[string]any{"event": "req", "cmd": "getheaders", "start": int(g.IndexStart), "count": int(g.Count)})
			if p.sc.onGetHeaders != nil {
				p.sc.onGetHeaders(p, g)
			}
		case network.CMDGetMPTData:
			inv := m.Payload.(*payload.MPTInventory)
			p.emit(map[string]any{"event": "req", "cmd": "getmptdata", "n": len(inv.Hashes)})
			if p.sc.onGetMPT != nil {
				p.sc.onGetMPT(p, inv)
			}
		case network.CMDBlock, network.CMDHeaders, network.CMDNotFound:
			p.answer(m)
		default:
			p.emit(map[string]any{"event": "other", "cmd": cmdName(m.Command)})
		}
	}
}

func (p *peer) answer(m *network.Message) {
	select {
	case p.answers <- m:
	default:
	}
}

// serveRange answers getblockbyindex(start, count).
func (p *peer) serveRange(start, count int) {
	if !p.responsive() {
		return
	}
	if count < 0 || count > chunk {
		count = chunk
	}
	var valid, bad []int
	useG := false
	p.mu.Lock()
	if p.spec.Kind == "garbage" && p.gleft > 0 {
		for k := start; k < start+count; k++ {
			if inRanges(p.spec.G, k) {
				useG = true
				break
			}
		}
		if useG {
			p.gleft--
		}
	}
	p.mu.Unlock()
	for k := start; k < start+count; k++ {
		if k < 1 || k > int(p.sc.src.n) {
			continue
		}
		if useG && inRanges(p.spec.G, k) {
			bad = append(bad, k)
		} else if inRanges(p.spec.Has, k) {
			valid = append(valid, k)
		}
	}
	if len(valid)+len(bad) == 0 {
		p.emit(map[string]any{"event": "srv", "v": [][2]int{}, "g": [][2]int{}})
		return
	}
	type item struct {
		k   int
		bad bool
	}
	var items []item
	for _, k := range bad { // garbage first: it takes the queue slots before the valid blocks of the same answer
		items = append(items, item{k, true})
	}
	vs := append([]int(nil), valid...)
	switch p.spec.Order {
	case "desc":
		sort.Sort(sort.Reverse(sort.IntSlice(vs)))
	case "shuf":
		p.rnd.Shuffle(len(vs), func(i, j int) { vs[i], vs[j] = vs[j], vs[i] })
	}
	for _, k := range vs {
		items = append(items, item{k, false})
	}
	p.emit(map[string]any{"event": "srv", "v": toRanges(valid), "g": toRanges(bad), "gk": p.spec.GK, "order": p.spec.Order, "dup": p.spec.Dup})
	var w bytes.Buffer
	flush := func() {
		if w.Len() > 0 {
			_ = p.c.sendRaw(w.Bytes())
			w.Reset()
		}
	}
	reps := 1
	if p.spec.Dup {
		reps = 2
	}
	for r := 0; r < reps; r++ {
		for _, it := range items {
			if it.bad {
				w.Write(p.sc.src.garbage(uint32(it.k), p.spec.GK))
			} else {
				w.Write(p.sc.src.msg[it.k-1])
			}
			if w.Len() > 1<<20 {
				flush()
			}
		}
	}
	flush()
}

// serveData answers getdata for blocks the peer announced or has.
func (p *peer) serveData(inv *payload.Inventory) {
	idx := []int{}
	for _, h := range inv.Hashes {
		if i, ok := p.sc.src.idx[h]; ok {
			idx = append(idx, int(i))
		} else {
			idx = append(idx, -1)
		}
	}
	p.emit(map[string]any{"event": "req", "cmd": "getdata", "typ": inv.Type.String(), "idx": idx})
	if inv.Type != payload.BlockType || p.spec.Kind == "silent" || p.spec.Kind == "liar" || p.spec.Kind == "mute" {
		return
	}
	var sent []int
	for _, k := range idx {
		p.mu.Lock()
		ok := k > 0 && (p.invd[k] || inRanges(p.spec.Has, k))
		p.mu.Unlock()
		if ok {
			sent = append(sent, k)
		}
	}
	if len(sent) == 0 {
		return
	}
	p.sc.markPushed(sent)
	p.emit(map[string]any{"event": "push", "blocks": sent, "via": "getdata", "g": false})
	for _, k := range sent {
		_ = p.c.sendRaw(p.sc.src.msg[k-1])
	}
}

// push sends unsolicited block messages (valid or garbage) in the given order.
func (p *peer) push(blocks []int, gk string) error {
	p.emit(map[string]any{"event": "push", "blocks": blocks, "via": "block", "g": gk != "", "gk": gk})
	for _, k := range blocks {
		var b []byte
		if gk != "" {
			b = p.sc.src.garbage(uint32(k), gk)
		} else {
			b = p.sc.src.msg[k-1]
		}
		if err := p.c.sendRaw(b); err != nil {
			return err
		}
	}
	return nil
}

// announce sends an inv for the given blocks; the node is expected to ask for the ones it does not have.
func (p *peer) announce(blocks []int) error {
	hs := make([]util.Uint256, 0, len(blocks))
	p.mu.Lock()
	for _, k := range blocks {
		p.invd[k] = true
		hs = append(hs, p.sc.src.hash[k])
	}
	p.mu.Unlock()
	p.emit(map[string]any{"event": "inv", "blocks": blocks})
	return p.c.send(network.NewMessage(network.CMDInv, payload.NewInventory(payload.BlockType, hs)))
}

// barrier sends a ping and waits for the node's pong: the node has then processed everything this peer sent before
// (messages of one connection are handled in order by one goroutine).  Returns the height the node reports.
func (p *peer) barrier() (uint32, error) {
	for { // drop stale pongs
		select {
		case <-p.pongs:
			continue
		default:
		}
		break
	}
	if err := p.c.send(pingMsg(p.adv, p.nonce)); err != nil {
		select { // a write error means the node has closed (or is closing) the connection: the reader will see it
		case <-p.gone:
		case <-time.After(ioTimeout):
			return 0, errTimeout
		}
		return 0, errGoneConn
	}
	t := time.NewTimer(ioTimeout)
	defer t.Stop()
	select {
	case h := <-p.pongs:
		return h, nil
	case <-p.gone:
		return 0, errGoneConn
	case <-t.C:
		return 0, errTimeout
	}
}

var errGoneConn = errors.New("connection closed")

func (p *peer) drop() {
	p.mu.Lock()
	p.byUs = true
	p.mu.Unlock()
	p.emit(map[string]any{"event": "close", "by": "peer"})
	p.c.close()
	<-p.gone
}

func (p *peer) alive() bool {
	select {
	case <-p.gone:
		return false
	default:
		return true
	}
}

var _ = block.New
