package c20net

import (
	"fmt"
	"math/rand"
	"testing"
	"time"
)

// TestProbeEarlyBlock: an UNSOLICITED block command while the node is in the headers stage of P2P state exchange.
func TestProbeEarlyBlock(t *testing.T) {
	c := SSCase{Name: "probe", SSI: 4, MTB: 8, N: 21, Peers: []PeerSpec{{Kind: "silent"}}}
	src, err := newSource(t, uint32(c.N), uint32(c.N), 5, ssProto(c.SSI, c.MTB))
	if err != nil {
		t.Fatal(err)
	}
	log := &evlog{}
	nd, err := newNode(src, nodeOpts{h0: 0, hook: ssSink, ss: true}, log)
	if err != nil {
		t.Fatal(err)
	}
	sc := &scenario{sp: Scenario{Peers: []PeerSpec{{Kind: "silent", Adv: c.N}}}, src: src, node: nd, log: log, rnd: rand.New(rand.NewSource(1))}
	p, err := sc.connect(1, sc.sp.Peers[0])
	if err != nil {
		t.Fatal(err)
	}
	h, err := p.barrier()
	fmt.Println("barrier 1:", h, err, "active", nd.mod.IsActive(), "needHeaders", nd.mod.NeedHeaders())
	fmt.Println("push block 13:", p.push([]int{13}, ""))
	h, err = p.barrier()
	fmt.Println("barrier 2:", h, err)
	time.Sleep(300 * time.Millisecond)
	for _, e := range log.snapshot() {
		fmt.Println(e)
	}
}
