//go:build verif

package c20net

import (
	"fmt"
	"net"
	"testing"
	"time"

	"verifharness/internal/chainkit"

	"github.com/nspcc-dev/neo-go/pkg/config"
	"github.com/nspcc-dev/neo-go/pkg/io"
	"github.com/nspcc-dev/neo-go/pkg/network"
	"go.uber.org/zap"
)

func TestProbe(t *testing.T) {
	nt := chainkit.NewNet(1, 1)
	bc, err := nt.NewChain(nil, nil)
	if err != nil {
		t.Fatal(err)
	}
	chainkit.Start(bc)
	srv, err := network.NewServer(network.ServerConfig{Addresses: []config.AnnounceableAddress{{Address: "127.0.0.1:0"}}, MinPeers: 0,
		Net: nt.Magic, Relay: true, ProtoTickInterval: 200 * time.Millisecond, PingInterval: 300 * time.Millisecond, PingTimeout: 5 * time.Second, UserAgent: "/probe/"},
		bc, bc.GetStateSyncModule(), zap.NewNop())
	if err != nil {
		t.Fatal(err)
	}
	srv.Start()
	var port uint16
	for i := 0; i < 200; i++ {
		port, _ = srv.Port(nil)
		if port != 0 {
			break
		}
		time.Sleep(10 * time.Millisecond)
	}
	fmt.Println("port", port)
	c, err := net.Dial("tcp", fmt.Sprintf("127.0.0.1:%d", port))
	if err != nil {
		t.Fatal(err)
	}
	r := io.NewBinReaderFromIO(c)
	m := &network.Message{}
	if err := m.Decode(r); err != nil {
		t.Fatal(err)
	}
	fmt.Printf("got %s %+v\n", m.Command, m.Payload)
	c.Close()
	srv.Shutdown()
	bc.Close()
}
