// Driver of the P2P-server extension of C20 (spec/netsync): runs scripted scenarios (TLC behaviours of NetSyncSim mapped
// to real block ranges, seeded random scripts, the exhaustive handshake cases of HandshakeEnum, wire-level state
// synchronisation) against a REAL started network.Server and records what the fake peers saw and what the ledger accepted.
// Verdicts are TLC's (NetSyncTrace / HandshakeTrace); a time-out here is a test failure (exit 2), never a verdict.
package c20net

import (
	"fmt"
	"math/rand"
	"os"
	"path/filepath"
	"sort"
	"sync"
	"testing"
	"time"

	"verifharness/internal/vh"
)

type input struct {
	SrcN      int        `json:"src_n"`
	Scenarios []Scenario `json:"scenarios"`
	Handshake []HSCase   `json:"handshake"`
	StateSync []SSCase   `json:"statesync"`
	Early     []SSCase   `json:"early"`
}

// finish turns the raw event log of a scenario into its trace segment: init first, accepted blocks as ranges, empty answers
// dropped.
func finish(sp Scenario, src *source, evs []map[string]any) []map[string]any {
	peers := []map[string]any{}
	g := []int{}
	for i, p := range sp.Peers {
		adv := p.Adv
		if adv == 0 {
			adv = maxOf(p.Has)
		}
		has := p.Has
		if has == nil {
			has = [][2]int{}
		}
		gg := p.G
		if gg == nil {
			gg = [][2]int{}
		}
		peers = append(peers, map[string]any{"id": i + 1, "kind": p.Kind, "has": has, "adv": adv, "g": gg, "gmax": p.GMax})
		for _, r := range p.G {
			for k := r[0]; k <= r[1]; k++ {
				g = append(g, k)
			}
		}
	}
	for _, s := range sp.Steps {
		if s.Op == "gpush" {
			g = append(g, s.Blocks...)
		}
	}
	out := []map[string]any{{"event": "init", "sc": sp.Name, "h0": sp.H0, "cap": queueCap, "chunk": chunk, "n": int(src.n),
		"peers": peers, "gidx": toRanges(g)}}
	// the node repeats its requests on every timer tick and every ping: identical consecutive request / answer pairs of a
	// peer (nothing accepted in between) are recorded once, with a repetition count
	lastReq, lastSrv := map[any]string{}, map[any]string{}
	lastReqEv := map[any]map[string]any{}
	for _, e := range evs {
		switch e["event"] {
		case "req":
			k := fmt.Sprint(e["cmd"], e["start"], e["count"], e["idx"], e["n"])
			if lastReq[e["p"]] == k {
				lastReqEv[e["p"]]["rep"] = lastReqEv[e["p"]]["rep"].(int) + 1
				continue
			}
			lastReq[e["p"]] = k
			e["rep"] = 1
			lastReqEv[e["p"]] = e
			out = append(out, e)
			continue
		}
		switch e["event"] {
		case "acc":
			clear(lastReq)
			clear(lastSrv)
			i, ok := e["i"].(int), e["ok"].(bool)
			if n := len(out); n > 1 && out[n-1]["event"] == "acc" && ok && out[n-1]["ok"].(bool) && out[n-1]["to"].(int)+1 == i {
				out[n-1]["to"] = i
				continue
			}
			out = append(out, map[string]any{"event": "acc", "from": i, "to": i, "ok": ok})
		case "srv":
			if len(e["v"].([][2]int))+len(e["g"].([][2]int)) == 0 {
				continue
			}
			k := fmt.Sprint(e["v"], e["g"])
			if lastSrv[e["p"]] == k {
				continue
			}
			lastSrv[e["p"]] = k
			out = append(out, e)
		default:
			out = append(out, e)
		}
	}
	return out
}

// progressNote appends a line to progress.log (unbuffered): if the node crashes the process, the runner still knows what
// was being played.
var (
	progMu sync.Mutex
	progF  *os.File
)

func progressNote(s string) {
	progMu.Lock()
	defer progMu.Unlock()
	if progF == nil {
		progF, _ = os.OpenFile(filepath.Join(vh.OutDir(), "progress.log"), os.O_CREATE|os.O_WRONLY|os.O_APPEND, 0o644)
	}
	if progF != nil {
		_, _ = progF.WriteString(s + "\n")
	}
}

func runScenario(src *source, sp Scenario, seed int64) (evs []map[string]any, err error) {
	progressNote("scenario " + sp.Name)
	log := &evlog{}
	nd, err := newNode(src, nodeOpts{h0: uint32(sp.H0)}, log)
	if err != nil {
		return nil, err
	}
	sc := &scenario{sp: sp, src: src, node: nd, log: log, rnd: rand.New(rand.NewSource(seed))}
	defer func() {
		sc.closeAll()
		nd.close()
	}()
	raw, err := sc.run()
	if err != nil {
		return nil, err
	}
	return finish(sp, src, raw), nil
}

func TestDriver(t *testing.T) {
	res := vh.NewResult()
	tr := vh.NewTrace("trace.ndjson")
	hst := vh.NewTrace("hs.ndjson")
	var in input
	if err := vh.ReadJSON("input.json", &in); err != nil {
		t.Fatalf("input: %v", err)
	}
	t0 := time.Now()
	if in.SrcN == 0 {
		in.SrcN = 2300
	}
	src, err := newSource(t, uint32(in.SrcN), 24, vh.Seed()*7919+3, protoHook)
	if err != nil {
		t.Fatalf("source chain: %v", err)
	}
	defer src.bc.Close()
	res.Stats["net_source_build_ms"] = int(time.Since(t0) / time.Millisecond)
	par := vh.EnvInt("VERIF_PAR", 8)

	// ---- block synchronisation scenarios
	out := make([][]map[string]any, len(in.Scenarios))
	errs := make([]error, len(in.Scenarios))
	master := vh.Rand(20)
	seeds := make([]int64, len(in.Scenarios))
	for i := range seeds {
		seeds[i] = master.Int63()
	}
	jobs := make(chan int, len(in.Scenarios))
	// long scenarios first (they dominate the wall time)
	order := make([]int, len(in.Scenarios))
	for i := range order {
		order[i] = i
	}
	size := func(sp Scenario) int {
		m := 0
		for _, p := range sp.Peers {
			if x := maxOf(p.Has); x > m {
				m = x
			}
		}
		return m - sp.H0
	}
	sort.SliceStable(order, func(a, b int) bool { return size(in.Scenarios[order[a]]) > size(in.Scenarios[order[b]]) })
	for _, i := range order {
		jobs <- i
	}
	close(jobs)
	var wg sync.WaitGroup
	for k := 0; k < par; k++ {
		wg.Add(1)
		go func() {
			defer wg.Done()
			for i := range jobs {
				out[i], errs[i] = runScenario(src, in.Scenarios[i], seeds[i])
			}
		}()
	}
	wg.Wait()
	kinds := map[string]int{}
	outcomes := map[string]int{}
	for i, evs := range out {
		if errs[i] != nil {
			t.Errorf("scenario %s: %v", in.Scenarios[i].Name, errs[i])
			continue
		}
		for _, ev := range evs {
			kinds[ev["event"].(string)]++
			tr.Emit(ev)
		}
		end := evs[len(evs)-1]
		outcomes[fmt.Sprint(end["outcome"])]++
		res.Count(map[string]any{"sc": in.Scenarios[i].Peers, "steps": in.Scenarios[i].Steps, "h0": in.Scenarios[i].H0})
		res.Traces++
		if i%37 == 0 {
			res.Sample(map[string]any{"scenario": in.Scenarios[i].Name, "h0": in.Scenarios[i].H0, "peers": in.Scenarios[i].Peers,
				"steps": len(in.Scenarios[i].Steps), "events": len(evs), "end": end})
		}
	}
	tr.Close()
	res.Stats["net_event_kinds"] = kinds
	res.Stats["net_outcomes"] = outcomes
	res.Inc("net_scenarios", len(in.Scenarios))

	// ---- handshake cases
	if len(in.Handshake) > 0 {
		runHandshakes(t, res, hst, src, in.Handshake, par)
	}
	hst.Close()

	// ---- state synchronisation over the wire
	sst := vh.NewTrace("ss.ndjson")
	if len(in.StateSync) > 0 {
		runStateSyncs(t, res, sst, in.StateSync, par)
	}
	sst.Close()
	res.Stats["net_driver_ms"] = int(time.Since(t0) / time.Millisecond)
	sort.Strings(res.Distinct)
	if err := res.Write(); err != nil {
		t.Fatal(err)
	}
}

// TestEarlyBlock runs the state-exchange scenarios in which a peer sends a block command nobody asked for while the node
// still collects headers / trie nodes.  It is a separate test function (= a separate process): a node that crashes on such
// a message takes the whole driver down, and the runner turns exactly that into the verdict.
func TestEarlyBlock(t *testing.T) {
	res := vh.NewResult()
	var in input
	if err := vh.ReadJSON("input.json", &in); err != nil {
		t.Fatalf("input: %v", err)
	}
	sst := vh.NewTrace("ss.ndjson")
	runStateSyncs(t, res, sst, in.Early, 1)
	sst.Close()
	if err := res.Write(); err != nil {
		t.Fatal(err)
	}
}
