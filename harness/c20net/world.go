package c20net

import (
	"fmt"
	"sync"
	"testing"
	"time"

	"verifharness/internal/chainkit"
	"verifharness/internal/histgen"

	"github.com/nspcc-dev/neo-go/pkg/config"
	"github.com/nspcc-dev/neo-go/pkg/core"
	"github.com/nspcc-dev/neo-go/pkg/core/block"
	"github.com/nspcc-dev/neo-go/pkg/core/statesync"
	"github.com/nspcc-dev/neo-go/pkg/core/transaction"
	"github.com/nspcc-dev/neo-go/pkg/network"
	"github.com/nspcc-dev/neo-go/pkg/util"
	"go.uber.org/zap"
)

// Constants of the server that the specification's window refers to (fixed in the code under test: bqueue.DefaultCacheSize,
// payload.MaxHashesCount).  They are READ here only to size scenarios; the judge gets them through the init event.
const (
	queueCap = 2000
	chunk    = 500
)

// source is the chain every fake peer serves from: the first `rich` blocks carry histgen transactions, the rest is empty.
type source struct {
	t      testing.TB
	net    *chainkit.Net
	bc     *core.Blockchain
	hook   func(*config.Blockchain)
	n      uint32
	raw    [][]byte       // wire form of block h at raw[h-1]
	msg    [][]byte       // complete `block` message of block h at msg[h-1]
	hash   []util.Uint256 // hash[h] (hash[0] = genesis)
	idx    map[util.Uint256]uint32
	roots  []util.Uint256 // state root after block h
	badmsg map[string][]byte
	mu     sync.Mutex
}

func protoHook(c *config.Blockchain) {
	c.StateRootInHeader = true
}

func newSource(t testing.TB, n, rich uint32, seed int64, hook func(*config.Blockchain)) (*source, error) {
	s := &source{t: t, net: chainkit.NewNet(4, 4), n: n, idx: map[util.Uint256]uint32{}, hook: hook, badmsg: map[string][]byte{}}
	var err error
	s.bc, err = s.net.NewChain(nil, hook)
	if err != nil {
		return nil, err
	}
	chainkit.Start(s.bc)
	gen := histgen.New(t, s.net, s.bc, seed, 6)
	gen.AvoidOldOracle, gen.NoVMStateProbe = true, true // (two known findings of C01 / C20 that would stop a synchronised node for another reason)
	s.hash = append(s.hash, s.bc.GetHeaderHash(0))
	r0, err := s.bc.GetStateRoot(0)
	if err != nil {
		return nil, err
	}
	s.roots = append(s.roots, r0.Root)
	for h := uint32(1); h <= n; h++ {
		var b *block.Block
		if h <= rich {
			b, err = gen.NextBlock(4)
		} else {
			b, err = s.net.NewBlock(s.bc, 1)
			if err == nil {
				err = s.bc.AddBlock(b)
			}
		}
		if err != nil {
			return nil, fmt.Errorf("source block %d: %w", h, err)
		}
		raw, err := chainkit.EncodeBlock(b)
		if err != nil {
			return nil, err
		}
		m, err := network.NewMessage(network.CMDBlock, b).BytesCompressed(false)
		if err != nil {
			return nil, err
		}
		s.raw = append(s.raw, raw)
		s.msg = append(s.msg, m)
		s.hash = append(s.hash, b.Hash())
		s.idx[b.Hash()] = h
		r, err := s.bc.GetStateRoot(h)
		if err != nil {
			return nil, err
		}
		s.roots = append(s.roots, r.Root)
	}
	return s, nil
}

func (s *source) block(h uint32) *block.Block {
	b, err := chainkit.DecodeBlock(s.raw[h-1], s.bc.GetConfig().StateRootInHeader)
	if err != nil {
		panic(err)
	}
	return b
}

// garbage returns a `block` message for index h that is NOT the source's block h:
//
//	badsig    same content, one byte of the validators' invocation script flipped (hash unchanged, witness invalid)
//	tamper    nonce changed (another hash, the old signature does not cover it)
//	badtx     (blocks with transactions) / tamper otherwise: Merkle root kept, first transaction's nonce changed
func (s *source) garbage(h uint32, kind string) []byte {
	key := fmt.Sprintf("%s:%d", kind, h)
	s.mu.Lock()
	defer s.mu.Unlock()
	if m, ok := s.badmsg[key]; ok {
		return m
	}
	b := s.block(h)
	switch kind {
	case "badsig":
		inv := append([]byte(nil), b.Script.InvocationScript...)
		inv[len(inv)/2] ^= 0x41
		b.Script = transaction.Witness{InvocationScript: inv, VerificationScript: b.Script.VerificationScript}
	default:
		c := chainkit.CloneBlockNoCache(b)
		c.Nonce ^= 0x5a5a5a5a
		b = c
	}
	m, err := network.NewMessage(network.CMDBlock, b).BytesCompressed(false)
	if err != nil {
		panic(err)
	}
	s.badmsg[key] = m
	return m
}

// node is the system under test: a real chain with a real, started P2P server.
type node struct {
	src   *source
	bc    *core.Blockchain
	srv   *network.Server
	port  uint16
	accCh chan *block.Block
	done  chan struct{}
	log   *evlog
	accN  int
	accMu sync.Mutex
	ss    bool
	h0    uint32
	mod   *statesync.Module // the instance the server works with
}

type nodeOpts struct {
	h0   uint32
	tick time.Duration
	ping time.Duration
	hook func(*config.Blockchain)
	ss   bool // state-exchange node: the first accepted block follows the state jump
}

func newNode(src *source, o nodeOpts, log *evlog) (n *node, err error) {
	defer func() {
		if r := recover(); r != nil {
			err = fmt.Errorf("node construction panicked: %v", r)
		}
	}()
	n = &node{src: src, log: log, done: make(chan struct{}), ss: o.ss, h0: o.h0}
	hook := src.hook
	if o.hook != nil {
		hook = func(c *config.Blockchain) { src.hook(c); o.hook(c) }
	}
	n.bc, err = src.net.NewChain(nil, hook)
	if err != nil {
		return nil, err
	}
	chainkit.Start(n.bc)
	for h := uint32(1); h <= o.h0; h++ {
		if err = n.bc.AddBlock(src.block(h)); err != nil {
			n.bc.Close()
			return nil, fmt.Errorf("preload %d: %w", h, err)
		}
	}
	n.mod = n.bc.GetStateSyncModule()
	n.accCh = make(chan *block.Block, 8192)
	n.bc.SubscribeForBlocks(n.accCh)
	go n.accLoop()
	if o.tick == 0 {
		o.tick = 25 * time.Millisecond
	}
	if o.ping == 0 {
		o.ping = 150 * time.Millisecond
	}
	n.srv, err = network.NewServer(network.ServerConfig{
		Addresses: []config.AnnounceableAddress{{Address: "127.0.0.1:0"}}, MinPeers: 0, MaxPeers: 64, Net: src.net.Magic, Relay: true,
		UserAgent: "/verif-node/", ProtoTickInterval: o.tick, PingInterval: o.ping, PingTimeout: 10 * time.Minute,
		DialTimeout: time.Second,
	}, n.bc, n.mod, zap.NewNop())
	if err != nil {
		n.bc.Close()
		return nil, err
	}
	n.srv.Start()
	deadline := time.Now().Add(30 * time.Second)
	for {
		n.port, _ = n.srv.Port(nil)
		if n.port != 0 {
			break
		}
		if time.Now().After(deadline) {
			n.close()
			return nil, fmt.Errorf("server did not start listening: %w", errTimeout)
		}
		time.Sleep(2 * time.Millisecond)
	}
	return n, nil
}

// accLoop logs every block the ledger accepted, in the ledger's order.
func (n *node) accLoop() {
	for {
		select {
		case b := <-n.accCh:
			ok := b.Index <= n.src.n && b.Hash() == n.src.hash[b.Index]
			n.accMu.Lock()
			first := n.accN == 0
			n.accMu.Unlock()
			if n.ss && first && b.Index > n.h0+1 { // the ledger's first notification after a state jump
				n.log.emit(map[string]any{"event": "jump", "to": int(b.Index) - 1})
				n.accMu.Lock()
				n.accN += int(b.Index-1) - int(n.h0)
				n.accMu.Unlock()
			}
			n.log.emit(map[string]any{"event": "acc", "i": int(b.Index), "ok": ok})
			n.accMu.Lock()
			n.accN++
			n.accMu.Unlock()
		case <-n.done:
			return
		}
	}
}

func (n *node) accepted() int {
	n.accMu.Lock()
	defer n.accMu.Unlock()
	return n.accN
}

func (n *node) close() {
	if n.srv != nil {
		n.srv.Shutdown()
	}
	close(n.done)
	n.bc.UnsubscribeFromBlocks(n.accCh)
	n.bc.Close()
}
