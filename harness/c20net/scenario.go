package c20net

import (
	"errors"
	"fmt"
	"math/rand"
	"sync"
	"time"

	"github.com/nspcc-dev/neo-go/pkg/network"
	"github.com/nspcc-dev/neo-go/pkg/network/payload"
)

// Step is one scripted action of a scenario (TLC behaviour or seeded random script).
type Step struct {
	Op     string `json:"op"`     // connect | push | gpush | inv | local | direct | sync | drop
	P      int    `json:"p"`      // peer (1-based index into Peers)
	Blocks []int  `json:"blocks"` // block indexes, in sending order
	GK     string `json:"gk"`     // garbage kind of gpush
}

// Scenario is a complete script.
type Scenario struct {
	Name  string     `json:"name"`
	H0    int        `json:"h0"` // blocks the node has before its server starts
	Peers []PeerSpec `json:"peers"`
	Steps []Step     `json:"steps"`
}

const (
	stallRounds = 40
	stallIdle   = 3 * time.Second
	settleMax   = 150 * time.Second
)

type scenario struct {
	sp    Scenario
	src   *source
	node  *node
	log   *evlog
	peers []*peer // index = id-1; nil until connected
	obs   *peer
	rnd   *rand.Rand

	pmu     sync.Mutex
	pushed  map[int]bool // valid blocks really sent unsolicited (or put locally) that are inside the window for sure
	garbage map[int]bool // indexes at which garbage was (or may be) sent

	progress     func(h int) string // what "the node moved" means (default: its height)
	reconnects   int
	lateObserver bool
	onGetHeaders func(*peer, *payload.GetBlockByIndex)
	onGetMPT     func(*peer, *payload.MPTInventory)
}

// near: inside the queue window whatever the node's height is at arrival; far: outside it whatever it is.
func (sc *scenario) near(k int) bool { return k <= sc.sp.H0+queueCap }

func (sc *scenario) maxNear() int {
	m := sc.sp.H0
	upd := func(k int) {
		if sc.near(k) && k > m {
			m = k
		}
	}
	for _, p := range sc.sp.Peers {
		for _, r := range p.Has {
			upd(r[1])
			upd(min(r[1], sc.sp.H0+queueCap))
		}
	}
	for _, s := range sc.sp.Steps {
		for _, k := range s.Blocks {
			upd(k)
		}
	}
	return m
}

func (sc *scenario) connect(id int, spec PeerSpec) (*peer, error) {
	c, err := dial(id, sc.node.port, sc.src.bc.GetConfig().StateRootInHeader)
	if err != nil {
		return nil, err
	}
	adv := spec.Adv
	if adv == 0 {
		adv = maxOf(spec.Has)
	}
	p := &peer{id: id, spec: spec, sc: sc, c: c, nonce: 0x51000000 + uint32(sc.rnd.Intn(1<<20))<<4 + uint32(id), adv: uint32(adv),
		rnd: rand.New(rand.NewSource(sc.rnd.Int63())), gleft: spec.GMax, invd: map[int]bool{},
		pongs: make(chan uint32, 4), answers: make(chan *network.Message, 4096), gone: make(chan struct{})}
	if err := p.handshake(); err != nil {
		c.close()
		return nil, err
	}
	go p.loop()
	return p, nil
}

func (sc *scenario) markPushed(bl []int) {
	sc.pmu.Lock()
	for _, k := range bl {
		if sc.near(k) {
			sc.pushed[k] = true
		}
	}
	sc.pmu.Unlock()
}

// target is the highest contiguous block available to the node: blocks that connected responsive peers serve plus
// valid blocks really delivered inside the window at indexes where nobody sends garbage.
func (sc *scenario) target() int {
	avail := map[int]bool{}
	for _, p := range sc.peers {
		// a responsive peer the NODE dropped still counts (it comes back, as discovery would bring it back): what it serves was
		// given to the node by a peer that followed the protocol
		if p == nil || !p.responsive() {
			continue
		}
		for _, r := range p.spec.Has {
			for k := r[0]; k <= r[1]; k++ {
				avail[k] = true
			}
		}
	}
	sc.pmu.Lock()
	for k := range sc.pushed {
		if !sc.garbage[k] {
			avail[k] = true
		}
	}
	sc.pmu.Unlock()
	h := sc.sp.H0
	for avail[h+1] {
		h++
	}
	return h
}

// round pings every connected pingable peer and returns the greatest height the node reported.
func (sc *scenario) round(record bool) (int, int, error) {
	best, n := -1, 0
	all := append([]*peer{sc.obs}, sc.peers...)
	for _, p := range all {
		if p == nil || !p.pingable() || !p.alive() {
			continue
		}
		h, err := p.barrier()
		if err == errGoneConn {
			continue
		}
		if err != nil {
			return 0, 0, err
		}
		n++
		if record {
			p.emit(map[string]any{"event": "sync", "h": int(h)})
		}
		if int(h) > best {
			best = int(h)
		}
	}
	if n == 0 {
		return int(sc.node.bc.BlockHeight()), 0, nil
	}
	return best, n, nil
}

// run executes the script, then lets the node settle; returns the recorded events (init ... end).
func (sc *scenario) run() ([]map[string]any, error) {
	sp := sc.sp
	sc.pushed, sc.garbage = map[int]bool{}, map[int]bool{}
	for _, p := range sp.Peers {
		for _, r := range p.G {
			for k := r[0]; k <= r[1]; k++ {
				sc.garbage[k] = true
			}
		}
	}
	for _, s := range sp.Steps {
		if s.Op == "gpush" {
			for _, k := range s.Blocks {
				sc.garbage[k] = true
			}
		}
	}
	sc.peers = make([]*peer, len(sp.Peers))
	var err error
	if !sc.lateObserver {
		sc.obs, err = sc.connect(0, PeerSpec{Kind: "observer"})
		if err != nil {
			return nil, fmt.Errorf("observer: %w", err)
		}
	}
	mx := sc.maxNear()
	for _, s := range sp.Steps {
		var p *peer
		if s.P >= 1 && s.P <= len(sc.peers) {
			p = sc.peers[s.P-1]
		}
		needPeer := s.Op == "push" || s.Op == "gpush" || s.Op == "inv" || s.Op == "drop"
		if needPeer && (p == nil || !p.alive()) {
			continue
		}
		switch s.Op {
		case "connect":
			if p != nil || s.P < 1 || s.P > len(sc.peers) {
				continue
			}
			for try := 0; try < 3 && p == nil; try++ { // (a node that drops connections at once is judged by where it ends)
				p, err = sc.connect(s.P, sp.Peers[s.P-1])
				if err != nil {
					if errors.Is(err, errTimeout) {
						return nil, fmt.Errorf("connect %d: %w", s.P, err)
					}
					sc.log.emit(map[string]any{"event": "connfail", "p": s.P, "err": err.Error()})
					p = nil
				}
			}
			if p == nil {
				continue
			}
			sc.peers[s.P-1] = p
		case "push", "gpush":
			var bl []int
			for _, k := range s.Blocks { // only blocks that are surely inside or surely outside the window
				if k >= 1 && k <= int(sc.src.n) && (sc.near(k) || k > mx+queueCap) {
					bl = append(bl, k)
				}
			}
			if len(bl) == 0 {
				continue
			}
			gk := ""
			if s.Op == "gpush" {
				gk = s.GK
				if gk == "" {
					gk = "badsig"
				}
			} else {
				sc.markPushed(bl)
			}
			if err := p.push(bl, gk); err != nil {
				continue
			}
		case "inv":
			var bl []int
			for _, k := range s.Blocks {
				if k >= 1 && k <= int(sc.src.n) && sc.near(k) {
					bl = append(bl, k) // served (and then counted as given) when the node asks for it
				}
			}
			if len(bl) > 0 {
				_ = p.announce(bl)
			}
		case "local":
			var bl []int
			for _, k := range s.Blocks {
				if k >= 1 && k <= int(sc.src.n) && (sc.near(k) || k > mx+queueCap) {
					bl = append(bl, k)
				}
			}
			sc.markPushed(bl)
			sc.log.emit(map[string]any{"event": "push", "p": -1, "blocks": bl, "via": "local", "g": false})
			for _, k := range bl {
				_ = sc.node.srv.GetBlockQueue().Put(sc.src.block(uint32(k)))
			}
		case "direct":
			k := int(sc.node.bc.BlockHeight()) + 1
			if k > int(sc.src.n) || !sc.near(k) {
				continue
			}
			sc.markPushed([]int{k})
			sc.log.emit(map[string]any{"event": "push", "p": -1, "blocks": []int{k}, "via": "direct", "g": false})
			_ = sc.node.bc.AddBlock(sc.src.block(uint32(k)))
		case "sync":
			for i := 0; i < 2; i++ {
				if _, _, err := sc.round(i == 1); err != nil {
					return nil, err
				}
			}
		case "drop":
			if p.responsive() {
				continue // responsive peers stay: what they serve defines the target
			}
			_, _ = p.barrier() // everything it sent has been processed
			p.drop()
		}
	}
	if sc.lateObserver { // (the first peers' heights decide whether a fresh node starts a state exchange)
		sc.obs, err = sc.connect(0, PeerSpec{Kind: "observer"})
		if err != nil {
			return nil, fmt.Errorf("observer: %w", err)
		}
	}
	progressNote("settle " + sp.Name)
	// settle
	start := time.Now()
	last, same, lastChange := "", 0, time.Now()
	outcome := "converged"
	var h, T int
	for {
		for i, p := range sc.peers { // responsive peers that the node dropped come back
			if p != nil && !p.alive() && p.responsive() && !p.byUs && sc.reconnects < 12 {
				sc.reconnects++
				if q, err := sc.connect(p.id, p.spec); err == nil {
					p.mu.Lock()
					q.gleft = p.gleft
					p.mu.Unlock()
					sc.peers[i] = q
				}
			}
		}
		T = sc.target()
		var n int
		h, n, err = sc.round(false)
		if err != nil {
			return nil, err
		}
		if h >= T {
			// one more full round: everything served so far has been processed; the target may have grown meanwhile (blocks
			// the node asked for with getdata count as given once they are sent)
			h2, _, err := sc.round(true)
			if err != nil {
				return nil, err
			}
			if h2 > h {
				h = h2
			}
			if T = sc.target(); h >= T {
				break
			}
		}
		pg := fmt.Sprint(h)
		if sc.progress != nil {
			pg = sc.progress(h)
		}
		if pg != last {
			last, same, lastChange = pg, 0, time.Now()
		} else if n > 0 {
			same++
		}
		if same >= stallRounds && time.Since(lastChange) >= stallIdle {
			outcome = "stall"
			break
		}
		if time.Since(start) > settleMax {
			return nil, fmt.Errorf("scenario %s: node at %d, target %d: %w", sp.Name, h, T, errTimeout)
		}
		if same > 2 {
			time.Sleep(15 * time.Millisecond)
		} else {
			time.Sleep(6 * time.Millisecond)
		}
	}
	// the ledger's notifications are asynchronous: wait until all accepted blocks have been logged
	hb := int(sc.node.bc.BlockHeight())
	deadline := time.Now().Add(60 * time.Second)
	for sc.node.accepted() < hb-sp.H0 {
		if time.Now().After(deadline) {
			return nil, fmt.Errorf("scenario %s: accepted-block notifications missing: %w", sp.Name, errTimeout)
		}
		time.Sleep(time.Millisecond)
	}
	T = sc.target()
	lq, capLeft := sc.node.srv.GetBlockQueue().LastQueued()
	tipok := hb <= int(sc.src.n) && sc.node.bc.CurrentBlockHash() == sc.src.hash[hb]
	rootok := false
	if r, err := sc.node.bc.GetStateRoot(uint32(hb)); err == nil && hb <= int(sc.src.n) {
		rootok = r.Root == sc.src.roots[hb]
	}
	closed := []int{}
	for _, p := range sc.peers {
		if p != nil && !p.alive() {
			closed = append(closed, p.id)
		}
	}
	sc.log.emit(map[string]any{"event": "end", "h": hb, "hpong": h, "exp": T, "outcome": outcome, "rounds": same,
		"idle_ms": int(time.Since(lastChange) / time.Millisecond), "tipok": tipok, "rootok": rootok, "lastq": int(lq),
		"capleft": capLeft, "closed": closed, "modh": sc.modh()})
	evs := sc.log.snapshot()
	return evs, nil
}

func (sc *scenario) closeAll() {
	for _, p := range append([]*peer{sc.obs}, sc.peers...) {
		if p != nil && p.alive() {
			p.mu.Lock()
			p.byUs = true
			p.mu.Unlock()
			p.c.close()
		}
	}
}

// modh is the block height of the state-exchange module while it collects blocks (-1 otherwise).
func (sc *scenario) modh() int {
	if sc.node.ss && sc.node.mod.IsActive() && sc.node.mod.NeedBlocks() {
		return int(sc.node.mod.BlockHeight())
	}
	return -1
}
