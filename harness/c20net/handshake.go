package c20net

import (
	"fmt"
	"sync"
	"testing"
	"time"

	"verifharness/internal/vh"

	"github.com/nspcc-dev/neo-go/pkg/core/block"
	"github.com/nspcc-dev/neo-go/pkg/network"
	"github.com/nspcc-dev/neo-go/pkg/network/payload"
)

// HSCase is one handshake script (spec/netsync/Handshake.tla: symbols V Vm Vn A P Q B) with HandshakeImpl's prediction.
type HSCase struct {
	Name   string         `json:"name"`
	Script []string       `json:"script"`
	Pred   map[string]any `json:"pred"`
}

const (
	hsH0    = 60 // the node can serve blocks 1..60: the request at script position i asks for block i
	hsFinal = 50 // the final identified request
)

// runCase plays one script on a fresh connection to nd; returns the events of the case.
func runCase(src *source, nd *node, c HSCase, nonce uint32) ([]map[string]any, int, error) {
	var mu sync.Mutex
	evs := []map[string]any{{"event": "hsinit", "case": c.Name, "script": c.Script, "pred": c.Pred}}
	emit := func(ev map[string]any) {
		mu.Lock()
		evs = append(evs, ev)
		mu.Unlock()
	}
	progressNote("handshake " + c.Name)
	hb := nd.bc.BlockHeight()
	if _, cl := nd.srv.GetBlockQueue().LastQueued(); cl != queueCap {
		return nil, 0, fmt.Errorf("queue not empty before case %s", c.Name)
	}
	cn, err := dial(0, nd.port, true)
	if err != nil {
		return nil, 0, err
	}
	defer cn.close()
	m, err := cn.recv()
	if err != nil || m.Command != network.CMDVersion {
		return nil, 0, fmt.Errorf("case %s: no version from the node: %v", c.Name, err)
	}
	nodeNonce := m.Payload.(*payload.Version).Nonce
	emit(map[string]any{"event": "r", "m": "version"})
	final := make(chan struct{})
	gone := make(chan error, 1)
	go func() {
		fin := false
		for {
			m, err := cn.recv()
			if err != nil {
				gone <- err
				return
			}
			switch m.Command {
			case network.CMDVersion:
				emit(map[string]any{"event": "r", "m": "version"})
			case network.CMDVerack:
				emit(map[string]any{"event": "r", "m": "verack"})
			case network.CMDPong:
				emit(map[string]any{"event": "r", "m": "pong"})
			case network.CMDBlock:
				i := int(m.Payload.(*block.Block).Index)
				emit(map[string]any{"event": "r", "m": "block", "i": i})
				if i == hsFinal && !fin {
					fin = true
					close(final)
				}
			default:
				emit(map[string]any{"event": "r", "m": "other", "cmd": cmdName(m.Command)})
			}
		}
	}()
	nb := 0
	for i, s := range c.Script {
		var msg *network.Message
		var raw []byte
		switch s {
		case "V":
			msg = versionMsg(src.net.Magic, nonce, 0, true)
		case "Vm":
			msg = versionMsg(src.net.Magic+1, nonce, 0, true)
		case "Vn":
			msg = versionMsg(src.net.Magic, nodeNonce, 0, true)
		case "A":
			msg = verackMsg()
		case "P":
			msg = pingMsg(0, nonce)
		case "Q":
			msg = network.NewMessage(network.CMDGetBlockByIndex, payload.NewGetBlockByIndex(uint32(i+1), 1))
		case "B":
			nb++
			raw = src.msg[int(hb)+nb-1]
		default:
			return nil, 0, fmt.Errorf("unknown symbol %q", s)
		}
		emit(map[string]any{"event": "s", "m": s})
		if raw != nil {
			_ = cn.sendRaw(raw)
		} else {
			_ = cn.send(msg)
		}
	}
	_ = cn.send(network.NewMessage(network.CMDGetBlockByIndex, payload.NewGetBlockByIndex(hsFinal, 1)))
	closed, fin := false, false
	t := time.NewTimer(ioTimeout)
	defer t.Stop()
	select {
	case <-final:
		fin = true
	case err := <-gone:
		if err == errTimeout {
			return nil, 0, fmt.Errorf("case %s: %w", c.Name, err)
		}
		closed = true
	case <-t.C:
		return nil, 0, fmt.Errorf("case %s: neither closed nor answered: %w", c.Name, errTimeout)
	}
	// everything the peer sent has been handled (the final answer came back, or the node's reader gave up before it closed):
	// blocks of this connection are in the queue or in the ledger now, or they never will be
	_, cl := nd.srv.GetBlockQueue().LastQueued()
	taken := int(nd.bc.BlockHeight()-hb) + (queueCap - cl)
	mu.Lock()
	defer mu.Unlock()
	evs = append(evs, map[string]any{"event": "hsend", "closed": closed, "final": fin, "taken": taken, "hb": int(hb), "sentb": nb})
	return evs, taken, nil
}

func legalBlocks(script []string) int {
	v, a, n := false, false, 0
	for _, s := range script {
		switch {
		case s == "V" && !v && !a:
			v = true
		case s == "A" && v && !a:
			a = true
		case (s == "P" || s == "Q" || s == "B") && v && a:
			if s == "B" {
				n++
			}
		default:
			return n
		}
	}
	return n
}

func runHandshakes(t *testing.T, res *vh.Result, tr *vh.Trace, src *source, cases []HSCase, par int) {
	out := make([][]map[string]any, len(cases))
	jobs := make(chan int, len(cases))
	for i := range cases {
		jobs <- i
	}
	close(jobs)
	var wg sync.WaitGroup
	var emu sync.Mutex
	for k := 0; k < par; k++ {
		wg.Add(1)
		go func(k int) {
			defer wg.Done()
			var nd *node
			fresh := func() bool {
				if nd != nil {
					nd.close()
				}
				var err error
				nd, err = newNode(src, nodeOpts{h0: hsH0}, &evlog{})
				if err != nil {
					emu.Lock()
					t.Errorf("handshake node: %v", err)
					emu.Unlock()
					nd = nil
					return false
				}
				return true
			}
			if !fresh() {
				return
			}
			defer func() {
				if nd != nil {
					nd.close()
				}
			}()
			for i := range jobs {
				hb := nd.bc.BlockHeight()
				evs, taken, err := runCase(src, nd, cases[i], 0x62000000+uint32(i))
				if err != nil {
					emu.Lock()
					t.Errorf("%v", err)
					emu.Unlock()
					if !fresh() {
						return
					}
					continue
				}
				out[i] = evs
				lb := legalBlocks(cases[i].Script)
				if taken != lb || int(hb)+lb+40 > int(src.n) || hb > 1500 {
					if !fresh() { // the node took something it must not have taken (TLC reports it), or ran out of blocks
						return
					}
					continue
				}
				deadline := time.Now().Add(60 * time.Second)
				for nd.bc.BlockHeight() != hb+uint32(lb) {
					if time.Now().After(deadline) {
						emu.Lock()
						t.Errorf("case %s: legally sent blocks were not applied: %v", cases[i].Name, errTimeout)
						emu.Unlock()
						break
					}
					time.Sleep(200 * time.Microsecond)
				}
				for { // the runner clears the slot right after the ledger took the block
					if _, cl := nd.srv.GetBlockQueue().LastQueued(); cl == queueCap || time.Now().After(deadline) {
						break
					}
					time.Sleep(100 * time.Microsecond)
				}
			}
		}(k)
	}
	wg.Wait()
	n := 0
	for i, evs := range out {
		if evs == nil {
			continue
		}
		n++
		for _, ev := range evs {
			tr.Emit(ev)
		}
		res.Count(map[string]any{"hs": cases[i].Script})
		if i%211 == 0 {
			res.Sample(map[string]any{"handshake_case": cases[i].Script, "end": evs[len(evs)-1]})
		}
	}
	res.Traces += n
	res.Inc("net_handshake_cases", n)
}
