package c20net

import (
	"fmt"
	"math/rand"
	"os"
	"testing"

	"verifharness/internal/chainkit"
	"verifharness/internal/vh"
)

func TestDiag(t *testing.T) {
	var in input
	if err := vh.ReadJSON("input.json", &in); err != nil {
		t.Fatal(err)
	}
	master := vh.Rand(21)
	seeds := make([]int64, len(in.StateSync))
	for i := range seeds {
		seeds[i] = master.Int63()
	}
	var idx int
	fmt.Sscan(os.Getenv("DIAG_I"), &idx)
	c := in.StateSync[idx]
	seed := seeds[idx]
	src, err := newSource(t, uint32(c.N), uint32(c.N), seed, ssProto(c.SSI, c.MTB))
	if err != nil {
		t.Fatal(err)
	}
	P := (c.N / c.SSI) * c.SSI
	log := &evlog{}
	nd, err := newNode(src, nodeOpts{h0: 0, hook: ssSink, ss: true}, log)
	if err != nil {
		t.Fatal(err)
	}
	peers := []PeerSpec{{Kind: "honest", Has: [][2]int{{1, c.N}}, Adv: c.N}}
	sp := Scenario{Name: c.Name, Peers: peers, Steps: []Step{{Op: "connect", P: 1}}}
	sc := &scenario{sp: sp, src: src, node: nd, log: log, rnd: rand.New(rand.NewSource(seed)), lateObserver: true}
	sc.installSS(c)
	_, err = sc.run()
	fmt.Println("run:", err, "height", nd.bc.BlockHeight(), "P", P)
	h := nd.bc.BlockHeight()
	// archival replica up to h
	rep, err := src.net.NewChain(nil, src.hook)
	if err != nil {
		t.Fatal(err)
	}
	chainkit.Start(rep)
	for k := uint32(1); k <= h; k++ {
		if err := rep.AddBlock(src.block(k)); err != nil {
			t.Fatal(err)
		}
	}
	a, b := chainkit.StorageDump(nd.bc), chainkit.StorageDump(rep)
	am, bm := map[string]string{}, map[string]string{}
	for _, x := range a {
		am[x[0]+"/"+x[1]] = x[2]
	}
	for _, x := range b {
		bm[x[0]+"/"+x[1]] = x[2]
	}
	for k, v := range am {
		if bm[k] != v {
			fmt.Println("DIFF node", k, v, "| replica", bm[k])
		}
	}
	for k, v := range bm {
		if _, ok := am[k]; !ok {
			fmt.Println("MISSING in node", k, v)
		}
	}
	ra, _ := nd.bc.GetStateRoot(h)
	rb, _ := rep.GetStateRoot(h)
	fmt.Println("roots", ra.Root.StringLE(), rb.Root.StringLE(), src.roots[h].StringLE())
	next := src.block(h + 1)
	if h < src.n {
		fmt.Println("add next:", nd.bc.AddBlock(next))
		for _, tx := range src.block(h).Transactions {
			fmt.Println("tx in block", h, tx.Hash().StringLE(), len(tx.Script))
		}
	}
}
