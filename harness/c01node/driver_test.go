// Driver for C01 (and the trace source for C03): TLC schedules of Node.tla over replicas with different
// node-local configurations and storage backends, fed the same serialized blocks of a generated history.
package c01node

import (
	"encoding/json"
	"fmt"
	"math/rand"
	"os"
	"path/filepath"
	"testing"

	"verifharness/internal/chainkit"
	"verifharness/internal/histgen"
	"verifharness/internal/vh"

	"github.com/nspcc-dev/neo-go/pkg/config"
	"github.com/nspcc-dev/neo-go/pkg/core"
	"github.com/nspcc-dev/neo-go/pkg/core/block"
	"github.com/nspcc-dev/neo-go/pkg/core/storage"
	"github.com/nspcc-dev/neo-go/pkg/core/storage/dbconfig"
	"github.com/nspcc-dev/neo-go/pkg/core/transaction"
	"github.com/nspcc-dev/neo-go/pkg/smartcontract/trigger"
)

type noClose struct{ storage.Store }

func (noClose) Close() error { return nil }

type step struct {
	Op string `json:"op"`
	R  string `json:"r"`
	N  int    `json:"n,omitempty"` // "addq": number of blocks added without observation
}

type replicaCfg struct {
	Name    string
	Backend string
	Hook    func(*config.Blockchain)
}

type replica struct {
	cfg     replicaCfg
	path    string
	mem     storage.Store
	bc      *core.Blockchain
	up      bool
	retired bool // diverged for a listed (known) reason: no longer a replica of this world
	h       uint32
	lastD   chainkit.Digest
}

// chain-wide settings of a world (identical for reference and replicas)
type world struct {
	net        *chainkit.Net
	protocol   func(*config.Blockchain)
	ref        *core.Blockchain
	gen        *histgen.Gen
	blocks     [][]byte // blocks[i] = block of height i+1
	refD       []chainkit.Digest
	srih       bool
	smallMTB   bool
	refFlat    [][]item   // C03: flat storage after block i+1
	refScripts [][][]byte // C03: read-only scripts evaluated live at height i+1
	rnd        *rand.Rand
	refInv     map[uint32][]string // test-invocation answers of the reference node per observed height (diagnostics)
}

func (w *world) hook(node func(*config.Blockchain)) func(*config.Blockchain) {
	return func(c *config.Blockchain) {
		w.protocol(c)
		if node != nil {
			node(c)
		}
	}
}

func (w *world) ensure(t *testing.T, h uint32, tr *vh.Trace) error {
	for uint32(len(w.blocks)) < h {
		b, err := w.gen.NextBlock(5)
		if err != nil {
			return err
		}
		raw, err := chainkit.EncodeBlock(b)
		if err != nil {
			return err
		}
		w.blocks = append(w.blocks, raw)
		if w.gen.IsQuiet(b.Index) {
			// the long stretch of empty blocks of a long-chain world: not observed
			w.refD = append(w.refD, nil)
			if c03() {
				w.refFlat = append(w.refFlat, nil)
				w.refScripts = append(w.refScripts, nil)
			}
			tr.Emit(map[string]any{"event": "ref", "h": b.Index, "digest": map[string]string{"unobserved": "1"}, "ntx": len(b.Transactions)})
			continue
		}
		d := chainkit.Compute(w.ref)
		w.refD = append(w.refD, d)
		if w.refInv == nil {
			w.refInv = map[uint32][]string{}
		}
		w.refInv[b.Index] = chainkit.TestInvocations(w.ref)
		ev := map[string]any{"event": "ref", "h": b.Index, "digest": d, "ntx": len(b.Transactions)}
		if c03() {
			fl := flat(w.ref)
			sc := w.scripts()
			var rs []string
			for _, s := range sc {
				rs = append(rs, runScript(w.ref, s, 0))
			}
			w.refFlat = append(w.refFlat, fl)
			w.refScripts = append(w.refScripts, sc)
			ev["flat"], ev["results"] = fl, rs
		}
		tr.Emit(ev)
	}
	return nil
}

func (r *replica) open(w *world, dir string) error {
	var st storage.Store
	var err error
	switch r.cfg.Backend {
	case "mem":
		if r.mem == nil {
			r.mem = noClose{storage.NewMemoryStore()}
		}
		st = r.mem
	case "bolt":
		st, err = storage.NewBoltDBStore(dbconfig.BoltDBOptions{FilePath: filepath.Join(dir, r.cfg.Name+".bolt")})
	case "level":
		st, err = storage.NewLevelDBStore(dbconfig.LevelDBOptions{DataDirectoryPath: filepath.Join(dir, r.cfg.Name+".level")})
	}
	if err != nil {
		return err
	}
	r.bc, err = w.net.NewChain(st, w.hook(r.cfg.Hook))
	if err != nil {
		return err
	}
	chainkit.Start(r.bc)
	r.up = true
	return nil
}

func configs(thorough bool) []replicaCfg {
	c := []replicaCfg{
		{Name: "r1", Backend: "mem"},
		{Name: "r2", Backend: "bolt", Hook: func(c *config.Blockchain) { c.Ledger.KeepOnlyLatestState = true }},
		{Name: "r3", Backend: "level", Hook: func(c *config.Blockchain) {
			c.Ledger.RemoveUntraceableBlocks = true
			c.Ledger.GarbageCollectionPeriod = 5
		}},
		{Name: "r4", Backend: "mem", Hook: func(c *config.Blockchain) {
			c.VerifyTransactions = false
			c.Ledger.SaveStorageBatch = true
			c.Ledger.KeepOnlyLatestState = true
			c.Ledger.RemoveUntraceableBlocks = true
			c.Ledger.GarbageCollectionPeriod = 3
		}},
	}
	return c
}

// longSchedule is the schedule of a long-chain world: a phase of ordinary activity, a stretch of empty blocks long
// enough for the collecting replicas to really remove old blocks and transactions (block removal trails the stored
// header-hash pages: nothing is removed below two pages of 2000), then activity again - answers to oracle requests
// whose requesting transaction has been collected, contracts looking at the ledger's past.
func longSchedule(names []string, quietFrom, quietTo, last uint32) []step {
	var s []step
	for h := uint32(1); h < quietFrom; h++ {
		for _, n := range names {
			s = append(s, step{Op: "add", R: n})
			if h%4 == 0 {
				s = append(s, step{Op: "flush", R: n})
			}
		}
	}
	for _, n := range names {
		s = append(s, step{Op: "addq", R: n, N: int(quietTo - quietFrom + 1)})
	}
	for h := quietTo + 1; h <= last; h++ {
		for i, n := range names {
			s = append(s, step{Op: "add", R: n})
			if (int(h)+i)%3 == 0 {
				s = append(s, step{Op: "flush", R: n})
			}
			if h == quietTo+9 && i%2 == 1 {
				s = append(s, step{Op: "stop", R: n}, step{Op: "restart", R: n})
			}
		}
	}
	return s
}

func runWorld(t *testing.T, res *vh.Result, tr *vh.Trace, wi int, sched []step, srih bool, smallMTB bool) {
	dir, err := os.MkdirTemp(os.Getenv("VERIF_WORK"), "c01w")
	if err != nil {
		t.Fatal(err)
	}
	defer os.RemoveAll(dir)
	w := &world{net: chainkit.NewNet(5, 3), srih: srih, smallMTB: smallMTB, rnd: vh.Rand(int64(1000 + wi))}
	w.protocol = func(c *config.Blockchain) {
		c.StateRootInHeader = srih
		if smallMTB {
			c.MaxTraceableBlocks = 24
			c.MaxValidUntilBlockIncrement = 12
		}
	}
	w.ref, err = w.net.NewChain(nil, w.hook(nil))
	if err != nil {
		t.Fatal(err)
	}
	chainkit.Start(w.ref)
	defer w.ref.Close()
	w.gen = histgen.New(t, w.net, w.ref, vh.Seed()*7919+int64(wi), 8)
	reps := map[string]*replica{}
	var names []string
	for _, c := range configs(true) {
		reps[c.Name] = &replica{cfg: c}
		names = append(names, c.Name)
	}
	if sched == nil { // long-chain world
		const quietFrom, quietTo, last = 26, 4045, 4045 + 34
		w.gen.QuietFrom, w.gen.QuietTo = quietFrom, quietTo
		w.gen.AvoidOldOracle = wi%2 == 0
		if !w.gen.AvoidOldOracle {
			w.gen.ScriptOldOracle(quietTo + 2)
		}
		for k, v := range map[string]int{"oraclereq": 9, "oracleresp": 12, "ledger": 9, "role": 5, "deploy": 4, "vote": 3, "neo": 3, "policy": 2} {
			w.gen.Weights[k] = v
		}
		w.gen.ScriptLedgerProbes(quietTo+1, last)
		sched = longSchedule(names, quietFrom, quietTo, last)
	}
	tr.Emit(map[string]any{"event": "init", "world": wi, "replicas": names, "srih": srih, "small_mtb": smallMTB})
	for _, n := range names {
		if err := reps[n].open(w, dir); err != nil {
			t.Fatalf("open %s: %v", n, err)
		}
	}
	defer func() {
		for _, r := range reps {
			if r.up {
				r.bc.Close()
			}
		}
	}()
	var done []step
	for _, s := range sched {
		r := reps[s.R]
		if r == nil || r.retired {
			continue
		}
		done = append(done, s)
		ev := map[string]any{"event": s.Op, "r": s.R, "cfg": r.cfg.Name + "/" + r.cfg.Backend}
		switch s.Op {
		case "add":
			if !r.up {
				continue
			}
			if err := w.ensure(t, r.h+1, tr); err != nil {
				t.Fatalf("generator: %v", err)
			}
			b, err := chainkit.DecodeBlock(w.blocks[r.h], srih)
			if err != nil {
				t.Fatal(err)
			}
			if err := r.bc.AddBlock(b); err != nil {
				// a valid block rejected by a replica: disagreement with the reference node
				res.Violate(map[string]any{"kind": "valid-block-rejected", "cfg": r.cfg.Name},
					fmt.Sprintf("replica %s rejected block %d accepted by the reference: %v", r.cfg.Name, b.Index, err),
					map[string]any{"world": wi, "sched": done, "seed": vh.Seed()})
				return
			}
			r.h++
			r.lastD = chainkit.Compute(r.bc)
			ev["h"], ev["digest"] = r.h, r.lastD
			if rd := w.refD[r.h-1]; rd != nil && (rd["aers"] != r.lastD["aers"] || rd["stateroot"] != r.lastD["stateroot"]) {
				ev["diag"] = diagnose(w.ref, r.bc, b) // information for the reader of a replay, not judged
				if g := w.ground(r.bc, b); g != "" {
					ev["ground"] = g
					r.retired = true
				}
			} else if rd != nil && rd["invoke"] != r.lastD["invoke"] {
				ev["diag"] = invDiff(w.refInv[r.h], chainkit.TestInvocations(r.bc))
			}
			if c03() {
				tr.Emit(ev)
				ev = nil
				w.observe(tr, r)
			}
		case "addq":
			if !r.up {
				continue
			}
			for k := 0; k < s.N; k++ {
				if err := w.ensure(t, r.h+1, tr); err != nil {
					t.Fatalf("generator: %v", err)
				}
				b, err := chainkit.DecodeBlock(w.blocks[r.h], srih)
				if err != nil {
					t.Fatal(err)
				}
				if err := r.bc.AddBlock(b); err != nil {
					res.Violate(map[string]any{"kind": "valid-block-rejected", "cfg": r.cfg.Name},
						fmt.Sprintf("replica %s rejected block %d accepted by the reference: %v", r.cfg.Name, b.Index, err),
						map[string]any{"world": wi, "long": true, "seed": vh.Seed()})
					return
				}
				r.h++
				if r.h%150 == 0 {
					if err := r.bc.VerifPersist(); err != nil {
						t.Fatalf("persist: %v", err)
					}
				}
			}
			ev["event"], ev["h"] = "skip", r.h
			res.Inc("long_world_unobserved_adds", s.N)
		case "flush":
			if !r.up {
				continue
			}
			if err := r.bc.VerifPersist(); err != nil {
				t.Fatalf("persist: %v", err)
			}
			d := chainkit.Compute(r.bc)
			ev["h"], ev["digest"], ev["persisted"], ev["prev"] = r.h, d, r.bc.VerifPersistedHeight(), r.lastD
			r.lastD = d
		case "stop":
			if !r.up {
				continue
			}
			r.bc.Close()
			r.up = false
		case "restart":
			if r.up {
				continue
			}
			if err := r.open(w, dir); err != nil {
				res.Violate(map[string]any{"kind": "restart-failed", "cfg": r.cfg.Name},
					fmt.Sprintf("replica %s cannot restart at height %d: %v", r.cfg.Name, r.h, err),
					map[string]any{"world": wi, "sched": done, "seed": vh.Seed()})
				return
			}
			r.lastD = chainkit.Compute(r.bc)
			ev["h"], ev["digest"], ev["expected_h"] = r.bc.BlockHeight(), r.lastD, r.h
			if ri := w.refInv[r.bc.BlockHeight()]; ri != nil && r.bc.BlockHeight() >= 1 && w.refD[r.bc.BlockHeight()-1]["invoke"] != r.lastD["invoke"] {
				ev["diag"] = invDiff(ri, chainkit.TestInvocations(r.bc))
			}
			r.h = r.bc.BlockHeight()
		case "pool":
			if !r.up {
				continue
			}
			// noise: a transaction of an upcoming block is already in this replica's mempool
			if err := w.ensure(t, r.h+2, tr); err != nil {
				t.Fatalf("generator: %v", err)
			}
			k := int(r.h) + w.gen.R.Intn(2)
			b, _ := chainkit.DecodeBlock(w.blocks[k], srih)
			n := 0
			for _, tx := range b.Transactions {
				if r.bc.PoolTx(tx) == nil {
					n++
				}
			}
			ev["pooled"] = n
		default:
			continue
		}
		if ev != nil {
			tr.Emit(ev)
		}
		res.Count([]any{wi, len(done), s.Op, s.R})
	}
	res.Traces++
	if wi < 2 {
		res.Sample(map[string]any{"world": wi, "srih": srih, "schedule_prefix": sched[:min(len(sched), 25)], "blocks": len(w.blocks), "tx_kinds": w.gen.Stats})
	}
	for k, v := range w.gen.Stats {
		res.Inc("tx_"+k, v)
	}
	res.Inc("blocks_generated", len(w.blocks))
}

func TestDriver(t *testing.T) {
	res := vh.NewResult()
	tr := vh.NewTrace("trace.ndjson")
	var scheds [][]step
	if err := vh.ReadJSON("schedules.json", &scheds); err != nil {
		t.Fatalf("no schedules: %v", err)
	}
	for i, s := range scheds {
		runWorld(t, res, tr, i, s, i%3 == 1, i%2 == 0)
	}
	for i := 0; i < vh.EnvInt("VERIF_LONG_WORLDS", 0); i++ {
		runWorld(t, res, tr, 1000+i, nil, i%2 == 1, true)
		res.Inc("long_worlds", 1)
	}
	tr.Close()
	b, _ := json.Marshal(res.Stats)
	t.Log(string(b))
	if err := res.Write(); err != nil {
		t.Fatal(err)
	}
}

// retained reports whether replica r at height h must still have the state of height hh.
func (w *world) retained(r *replica, hh uint32) bool {
	if hh == r.h {
		return true
	}
	switch r.cfg.Name {
	case "r1":
		return true
	case "r3":
		mtb := uint32(1000)
		if w.smallMTB {
			mtb = 24
		}
		return hh+mtb >= r.h
	}
	return false // KeepOnlyLatestState: only the current state
}

// observe records the C03 observations of replica r at its current height.
func (w *world) observe(tr *vh.Trace, r *replica) {
	who := r.cfg.Name + "/" + r.cfg.Backend
	hs := []uint32{r.h}
	for n := 0; n < 2 && r.h > 1; n++ {
		hh := 1 + uint32(w.rnd.Intn(int(r.h-1)))
		if w.retained(r, hh) {
			hs = append(hs, hh)
		}
	}
	for i, hh := range hs {
		sr, err := r.bc.GetStateRoot(hh)
		if err != nil {
			tr.Emit(map[string]any{"event": "noroot", "r": who, "at": r.h, "h": hh})
			continue
		}
		if i == 0 || w.rnd.Intn(2) == 0 {
			tr.Emit(map[string]any{"event": "trie", "r": who, "at": r.h, "h": hh, "items": trieContent(r.bc, sr.Root)})
		}
		probes(tr, w.rnd, who, r.bc, hh, sr.Root, w.refFlat[hh-1])
		if i > 0 || r.cfg.Name == "r1" || r.cfg.Name == "r3" {
			// historic invocation against root hh (next block hh+1) must give what the live node gave at hh
			var rs []string
			for _, s := range w.refScripts[hh-1] {
				rs = append(rs, runScript(r.bc, s, hh+1))
			}
			tr.Emit(map[string]any{"event": "historic", "r": who, "at": r.h, "h": hh, "results": rs})
		}
	}
}

// diagnose describes how the execution results of block b differ between the reference node and a replica.
func diagnose(ref, rep *core.Blockchain, b *block.Block) []string {
	var out []string
	for i, tx := range b.Transactions {
		a, e1 := ref.GetAppExecResults(tx.Hash(), trigger.Application)
		c, e2 := rep.GetAppExecResults(tx.Hash(), trigger.Application)
		if e1 != nil || e2 != nil || len(a) != 1 || len(c) != 1 {
			out = append(out, fmt.Sprintf("tx %d %s: results ref=%d/%v replica=%d/%v", i, tx.Hash().StringLE(), len(a), e1, len(c), e2))
			continue
		}
		if a[0].VMState != c[0].VMState || a[0].GasConsumed != c[0].GasConsumed || a[0].FaultException != c[0].FaultException || len(a[0].Events) != len(c[0].Events) {
			attrs := ""
			for _, at := range tx.Attributes {
				attrs += at.Type.String() + " "
			}
			out = append(out, fmt.Sprintf("tx %d %s attrs[%s] script %x: ref %s gas %d %q events %d | replica %s gas %d %q events %d", i, tx.Hash().StringLE(), attrs,
				tx.Script[:min(len(tx.Script), 80)], a[0].VMState, a[0].GasConsumed, a[0].FaultException, len(a[0].Events), c[0].VMState, c[0].GasConsumed, c[0].FaultException, len(c[0].Events)))
		}
	}
	return out
}

func invDiff(a, b []string) []string {
	var out []string
	for i := 0; i < len(a) || i < len(b); i++ {
		x, y := "-", "-"
		if i < len(a) {
			x = a[i]
		}
		if i < len(b) {
			y = b[i]
		}
		if x != y {
			out = append(out, "ref "+x+" | replica "+y)
		}
	}
	return out
}

// ground recognises the one listed reason for which a collecting replica may execute block b differently from the
// reference node: b answers an oracle request whose requesting transaction the replica has already collected
// (Oracle.finish reads that transaction for its signers). Everything else has no ground.
func (w *world) ground(rep *core.Blockchain, b *block.Block) string {
	for _, tx := range b.Transactions {
		for _, a := range tx.GetAttributes(transaction.OracleResponseT) {
			rq, ok := w.gen.ReqTx[a.Value.(*transaction.OracleResponse).ID]
			if !ok {
				continue
			}
			_, _, e1 := w.ref.GetTransaction(rq)
			_, _, e2 := rep.GetTransaction(rq)
			if e1 == nil && e2 != nil {
				return "oracle-response-original-tx-collected"
			}
		}
	}
	return ""
}
