package c01node

import (
	"encoding/binary"
	"encoding/hex"
	"fmt"
	"math/rand"
	"os"
	"sort"

	"verifharness/internal/chainkit"
	"verifharness/internal/vh"

	"github.com/nspcc-dev/neo-go/pkg/core"
	"github.com/nspcc-dev/neo-go/pkg/core/mpt"
	"github.com/nspcc-dev/neo-go/pkg/core/native/nativenames"
	"github.com/nspcc-dev/neo-go/pkg/core/transaction"
	"github.com/nspcc-dev/neo-go/pkg/io"
	"github.com/nspcc-dev/neo-go/pkg/smartcontract/callflag"
	"github.com/nspcc-dev/neo-go/pkg/smartcontract/trigger"
	"github.com/nspcc-dev/neo-go/pkg/util"
	"github.com/nspcc-dev/neo-go/pkg/vm/emit"
	"github.com/nspcc-dev/neo-go/pkg/vm/stackitem"
	"github.com/nspcc-dev/neo-go/pkg/vm/vmstate"
)

// C03 observations. Keys travel as byte arrays (TLC compares them lexicographically), values as hex strings.

func c03() bool { return os.Getenv("VERIF_C03") == "1" }

type item struct {
	ID int32  `json:"id"`
	K  []int  `json:"k"`
	V  string `json:"v"`
}

func ints(b []byte) []int {
	r := make([]int, len(b))
	for i, x := range b {
		r[i] = int(x)
	}
	return r
}

var ids = func() []int32 {
	var r []int32
	for id := int32(-15); id <= chainkit.MaxContractID; id++ {
		if id != 0 {
			r = append(r, id)
		}
	}
	return r
}()

// flat returns the live contract storage in (id, key) order.
func flat(bc *core.Blockchain) []item {
	out := []item{}
	for _, id := range ids {
		var part []item
		bc.SeekStorage(id, nil, func(k, v []byte) bool {
			part = append(part, item{ID: id, K: ints(k), V: hex.EncodeToString(v)})
			return true
		})
		out = append(out, part...)
	}
	return out
}

func idKey(id int32, k []byte) []byte {
	b := make([]byte, 4, 4+len(k))
	binary.LittleEndian.PutUint32(b, uint32(id))
	return append(b, k...)
}

// trieContent reads everything under the given root through the stateroot module's range search.
func trieContent(bc *core.Blockchain, root util.Uint256) []item {
	out := []item{}
	sm := bc.GetStateModule()
	for _, id := range ids {
		sm.SeekStates(root, idKey(id, nil), func(k, v []byte) bool {
			out = append(out, item{ID: id, K: ints(k), V: hex.EncodeToString(v)})
			return true
		})
	}
	return out
}

func bytesOf(k []int) []byte {
	b := make([]byte, len(k))
	for i, x := range k {
		b[i] = byte(x)
	}
	return b
}

// probes emits point reads, bounded finds and proofs against root (height hh) using keys drawn from ref flat storage.
func probes(tr *vh.Trace, r *rand.Rand, who string, bc *core.Blockchain, hh uint32, root util.Uint256, refFlat []item) {
	sm := bc.GetStateModule()
	if len(refFlat) == 0 {
		return
	}
	for n := 0; n < 5; n++ {
		it := refFlat[r.Intn(len(refFlat))]
		if n == 4 { // one of the longest keys (deepest trie paths)
			for tries := 0; tries < 6; tries++ {
				if c := refFlat[r.Intn(len(refFlat))]; len(c.K) > len(it.K) {
					it = c
				}
			}
		}
		key := bytesOf(it.K)
		switch r.Intn(3) * min(1, 4-n) {
		case 1: // absent: extension of a present key
			key = append(append([]byte{}, key...), byte(r.Intn(256)))
		case 2: // absent or present: truncated key
			if len(key) > 0 {
				key = key[:len(key)-1]
			}
		}
		// point read
		v, err := sm.GetState(root, idKey(it.ID, key))
		ev := map[string]any{"event": "get", "r": who, "h": hh, "id": it.ID, "k": ints(key), "found": err == nil}
		if err == nil {
			ev["v"] = hex.EncodeToString(v)
		}
		tr.Emit(ev)
		// proof
		proof, perr := sm.GetStateProof(root, idKey(it.ID, key))
		pev := map[string]any{"event": "proof", "r": who, "h": hh, "id": it.ID, "k": ints(key), "have": perr == nil, "verified": false}
		if perr == nil {
			val, ok := mpt.VerifyProof(root, idKey(it.ID, key), proof)
			pev["verified"] = ok
			if ok {
				pev["v"] = hex.EncodeToString(val)
			}
			// the same node list offered for ANOTHER key must not verify to anything but that key's value
			other := refFlat[r.Intn(len(refFlat))]
			ok2Val, ok2 := mpt.VerifyProof(root, idKey(other.ID, bytesOf(other.K)), proof)
			fev := map[string]any{"event": "forged", "r": who, "h": hh, "id": other.ID, "k": other.K, "verified": ok2}
			if ok2 {
				fev["v"] = hex.EncodeToString(ok2Val)
			}
			tr.Emit(fev)
			// tampered node list: drop / duplicate / flip a byte
			if len(proof) > 0 {
				tp := make([][]byte, len(proof))
				for i := range proof {
					tp[i] = append([]byte{}, proof[i]...)
				}
				switch r.Intn(3) {
				case 0:
					tp = tp[1:]
				case 1:
					j := r.Intn(len(tp))
					if len(tp[j]) > 0 {
						tp[j][r.Intn(len(tp[j]))] ^= byte(1 + r.Intn(255))
					}
				case 2:
					tp[len(tp)-1], tp[0] = tp[0], tp[len(tp)-1]
				}
				tv, tok := mpt.VerifyProof(root, idKey(it.ID, key), tp)
				tev := map[string]any{"event": "forged", "r": who, "h": hh, "id": it.ID, "k": ints(key), "verified": tok}
				if tok {
					tev["v"] = hex.EncodeToString(tv)
				}
				tr.Emit(tev)
			}
		}
		tr.Emit(pev)
		// bounded find: prefix = id + leading bytes of a key, start = nil / empty / suffix-ish
		pl := 0
		if len(it.K) > 0 {
			pl = r.Intn(len(it.K) + 1)
		}
		prefix := bytesOf(it.K[:pl])
		var start []byte
		startKind := r.Intn(4)
		switch startKind {
		case 0: // nil
		case 1:
			start = []byte{}
		case 2:
			start = bytesOf(it.K[pl:])
		case 3:
			start = []byte{byte(r.Intn(256))}
		}
		max := 1 + r.Intn(6)
		kvs, ferr := sm.FindStates(root, idKey(it.ID, prefix), start, max)
		fe := map[string]any{"event": "find", "r": who, "h": hh, "id": it.ID, "prefix": ints(prefix), "max": max, "err": ferr != nil}
		fe["startnil"], fe["start"] = start == nil, ints(start)
		keys := [][]int{}
		vals := []string{}
		for _, kv := range kvs {
			keys = append(keys, ints(kv.Key[4:]))
			vals = append(vals, hex.EncodeToString(kv.Value))
		}
		fe["keys"], fe["vals"] = keys, vals
		tr.Emit(fe)
	}
}

// scripts builds the read-only scripts whose results must be the same live at height h and historic against root h.
func (w *world) scripts() [][]byte {
	var out [][]byte
	call := func(h util.Uint160, m string, args ...any) {
		bw := io.NewBufBinWriter()
		emit.AppCall(bw.BinWriter, h, m, callflag.ReadOnly, args...)
		if bw.Err == nil {
			out = append(out, bw.Bytes())
		}
	}
	e := w.gen.E
	neo, gas, pol := e.NativeHash(w.gen.T, nativenames.Neo), e.NativeHash(w.gen.T, nativenames.Gas), e.NativeHash(w.gen.T, nativenames.Policy)
	for i, a := range w.gen.Accts {
		if i < 4 {
			call(neo, "balanceOf", a.ScriptHash())
			call(gas, "balanceOf", a.ScriptHash())
			call(neo, "unclaimedGas", a.ScriptHash(), int64(w.ref.BlockHeight()+1))
			call(neo, "getAccountState", a.ScriptHash())
		}
	}
	call(neo, "getCandidates")
	call(neo, "getCommittee")
	call(neo, "getNextBlockValidators")
	call(neo, "totalSupply")
	call(gas, "totalSupply")
	call(pol, "getFeePerByte")
	call(pol, "getStoragePrice")
	call(pol, "getExecFeeFactor")
	for _, kv := range w.gen.AllKVs {
		for _, p := range [][]byte{{}, {0x01}, {0x01, 0x02}, {0xff}} {
			for _, o := range []int64{0, 1, 1 | 2, 1 | 128, 128, 4} {
				call(kv, "find", p, o)
			}
		}
		call(kv, "get", []byte{0x01})
		call(kv, "get", []byte{0x01, 0x02})
		call(kv, "version")
	}
	return out
}

func runScript(bc *core.Blockchain, script []byte, historicNext uint32) string {
	tx := transaction.New(script, 0)
	tx.Signers = []transaction.Signer{{Account: util.Uint160{1, 2, 3}}}
	var (
		res string
	)
	func() {
		defer func() {
			if p := recover(); p != nil {
				res = fmt.Sprintf("PANIC:%v", p)
			}
		}()
		var ic interface {
			Finalize()
		}
		if historicNext == 0 {
			c, err := bc.GetTestVM(trigger.Application, tx, nil)
			if err != nil {
				res = "ERR"
				return
			}
			ic = c
			c.VM.SetGasLimit(20_00000000)
			c.VM.LoadScriptWithFlags(script, callflag.ReadOnly)
			_ = c.VM.Run()
			res = vmResult(c.VM.State(), c.VM.Estack().ToArray())
		} else {
			c, err := bc.GetTestHistoricVM(trigger.Application, tx, historicNext)
			if err != nil {
				res = "UNAVAILABLE"
				return
			}
			ic = c
			c.VM.SetGasLimit(20_00000000)
			c.VM.LoadScriptWithFlags(script, callflag.ReadOnly)
			_ = c.VM.Run()
			res = vmResult(c.VM.State(), c.VM.Estack().ToArray())
		}
		ic.Finalize()
	}()
	return res
}

func vmResult(st vmstate.State, items []stackitem.Item) string {
	res := st.String()
	for _, it := range items {
		b, err := stackitem.ToJSONWithTypes(it)
		if err != nil {
			res += "|" + it.Type().String()
			continue
		}
		res += "|" + string(b)
	}
	return res
}

func sortedKeys(m map[uint32]bool) []uint32 {
	var r []uint32
	for k := range m {
		r = append(r, k)
	}
	sort.Slice(r, func(i, j int) bool { return r[i] < r[j] })
	return r
}
