// Abstract signer lists <-> real transaction.Signer (copied from harness/c15wit/driver_test.go, which the
// extension must not edit) and seeded random signer configurations.
package c15dyn

import (
	"fmt"
	"math/rand"

	"github.com/nspcc-dev/neo-go/pkg/core/transaction"
	"github.com/nspcc-dev/neo-go/pkg/crypto/keys"
	"github.com/nspcc-dev/neo-go/pkg/util"
)

type ACond struct {
	T  string  `json:"t"`
	V  bool    `json:"v"`
	H  string  `json:"h"`
	G  string  `json:"g"`
	Cs []ACond `json:"cs"`
}
type ARule struct {
	Action string `json:"action"`
	Cond   ACond  `json:"cond"`
}
type ASigner struct {
	Account   string   `json:"account"`
	Scopes    []string `json:"scopes"`
	Contracts []string `json:"contracts"`
	Groups    []string `json:"groups"`
	Rules     []ARule  `json:"rules"`
}

var scopeBits = []struct {
	n string
	b transaction.WitnessScope
}{{"CalledByEntry", transaction.CalledByEntry}, {"CustomContracts", transaction.CustomContracts},
	{"CustomGroups", transaction.CustomGroups}, {"Rules", transaction.Rules}, {"Global", transaction.Global}}

func (w *world) hashOf(n string) util.Uint160 {
	h, ok := w.hashes[n]
	if !ok {
		panic("unknown hash name " + n)
	}
	return h
}

func (w *world) cond(c ACond) transaction.WitnessCondition {
	switch c.T {
	case "Bool":
		v := transaction.ConditionBoolean(c.V)
		return &v
	case "Not":
		return &transaction.ConditionNot{Condition: w.cond(c.Cs[0])}
	case "And", "Or":
		l := make([]transaction.WitnessCondition, len(c.Cs))
		for i := range c.Cs {
			l[i] = w.cond(c.Cs[i])
		}
		if c.T == "And" {
			v := transaction.ConditionAnd(l)
			return &v
		}
		v := transaction.ConditionOr(l)
		return &v
	case "ScriptHash":
		v := transaction.ConditionScriptHash(w.hashOf(c.H))
		return &v
	case "Group":
		v := transaction.ConditionGroup(*w.gkeys[c.G].PublicKey())
		return &v
	case "CalledByEntry":
		return transaction.ConditionCalledByEntry{}
	case "CalledByContract":
		v := transaction.ConditionCalledByContract(w.hashOf(c.H))
		return &v
	case "CalledByGroup":
		v := transaction.ConditionCalledByGroup(*w.gkeys[c.G].PublicKey())
		return &v
	}
	panic("bad condition type " + c.T)
}

func (w *world) signer(a ASigner) transaction.Signer {
	s := transaction.Signer{Account: w.hashOf(a.Account)}
	for _, sc := range a.Scopes {
		for _, sb := range scopeBits {
			if sb.n == sc {
				s.Scopes |= sb.b
			}
		}
	}
	for _, c := range a.Contracts {
		s.AllowedContracts = append(s.AllowedContracts, w.hashOf(c))
	}
	for _, g := range a.Groups {
		s.AllowedGroups = append(s.AllowedGroups, w.gkeys[g].PublicKey())
	}
	for _, r := range a.Rules {
		act := transaction.WitnessDeny
		if r.Action == "Allow" {
			act = transaction.WitnessAllow
		}
		s.Rules = append(s.Rules, transaction.WitnessRule{Action: act, Condition: w.cond(r.Cond)})
	}
	return s
}

func (w *world) nameOf(h util.Uint160) string {
	if n, ok := w.names[h]; ok {
		return n
	}
	return "?" + h.StringLE()
}

func (w *world) groupName(k *keys.PublicKey) string {
	if n, ok := w.gnames[k.StringCompressed()]; ok {
		return n
	}
	return "?" + k.StringCompressed()
}

func (w *world) projCond(c transaction.WitnessCondition) ACond {
	out := ACond{Cs: []ACond{}}
	switch v := c.(type) {
	case *transaction.ConditionBoolean:
		out.T, out.V = "Bool", bool(*v)
	case *transaction.ConditionNot:
		out.T, out.Cs = "Not", []ACond{w.projCond(v.Condition)}
	case *transaction.ConditionAnd:
		out.T = "And"
		for _, s := range *v {
			out.Cs = append(out.Cs, w.projCond(s))
		}
	case *transaction.ConditionOr:
		out.T = "Or"
		for _, s := range *v {
			out.Cs = append(out.Cs, w.projCond(s))
		}
	case *transaction.ConditionScriptHash:
		out.T, out.H = "ScriptHash", w.nameOf(util.Uint160(*v))
	case *transaction.ConditionGroup:
		out.T, out.G = "Group", w.groupName((*keys.PublicKey)(v))
	case transaction.ConditionCalledByEntry, *transaction.ConditionCalledByEntry:
		out.T = "CalledByEntry"
	case *transaction.ConditionCalledByContract:
		out.T, out.H = "CalledByContract", w.nameOf(util.Uint160(*v))
	case *transaction.ConditionCalledByGroup:
		out.T, out.G = "CalledByGroup", w.groupName((*keys.PublicKey)(v))
	default:
		out.T = fmt.Sprintf("?%T", c)
	}
	return out
}

func (w *world) projSigner(s transaction.Signer) ASigner {
	a := ASigner{Account: w.nameOf(s.Account), Scopes: []string{}, Contracts: []string{}, Groups: []string{}, Rules: []ARule{}}
	for _, sb := range scopeBits {
		if s.Scopes&sb.b != 0 {
			a.Scopes = append(a.Scopes, sb.n)
		}
	}
	for _, c := range s.AllowedContracts {
		a.Contracts = append(a.Contracts, w.nameOf(c))
	}
	for _, g := range s.AllowedGroups {
		a.Groups = append(a.Groups, w.groupName(g))
	}
	for _, r := range s.Rules {
		act := "Deny"
		if r.Action == transaction.WitnessAllow {
			act = "Allow"
		}
		a.Rules = append(a.Rules, ARule{Action: act, Cond: w.projCond(r.Condition)})
	}
	return a
}

// ---- seeded random subject configurations, biased towards the clauses that look at the contract table ----

var rHashes = []string{"A", "B", "C", "D", "N", "Z"}

func randomCond(r *rand.Rand, depth int) ACond {
	c := ACond{Cs: []ACond{}}
	k := r.Intn(14)
	if depth <= 1 && k >= 11 {
		k = r.Intn(11)
	}
	switch k {
	case 0:
		c.T, c.V = "Bool", r.Intn(2) == 0
	case 1:
		c.T, c.H = "ScriptHash", rHashes[r.Intn(len(rHashes))]
	case 2, 3, 4:
		c.T, c.G = "Group", groupNames[r.Intn(3)]
	case 5:
		c.T = "CalledByEntry"
	case 6, 7:
		c.T, c.H = "CalledByContract", rHashes[r.Intn(len(rHashes))]
	case 8, 9, 10:
		c.T, c.G = "CalledByGroup", groupNames[r.Intn(3)]
	case 11:
		c.T, c.Cs = "Not", []ACond{randomCond(r, depth-1)}
	default:
		c.T = "And"
		if k == 13 {
			c.T = "Or"
		}
		for i, n := 0, 1+r.Intn(3); i < n; i++ {
			c.Cs = append(c.Cs, randomCond(r, depth-1))
		}
	}
	return c
}

func randomSubject(r *rand.Rand) ASigner {
	s := ASigner{Account: "S", Scopes: []string{}, Contracts: []string{}, Groups: []string{}, Rules: []ARule{}}
	if r.Intn(20) == 0 {
		s.Scopes = []string{"Global"}
		return s
	}
	if r.Intn(4) == 0 {
		s.Scopes = append(s.Scopes, "CalledByEntry")
	}
	if r.Intn(4) == 0 {
		s.Scopes = append(s.Scopes, "CustomContracts")
		for i, n := 0, 1+r.Intn(2); i < n; i++ {
			s.Contracts = append(s.Contracts, rHashes[r.Intn(4)])
		}
	}
	if r.Intn(2) == 0 {
		s.Scopes = append(s.Scopes, "CustomGroups")
		for i, n := 0, 1+r.Intn(2); i < n; i++ {
			s.Groups = append(s.Groups, groupNames[r.Intn(3)])
		}
	}
	if r.Intn(3) != 0 {
		s.Scopes = append(s.Scopes, "Rules")
		for i, n := 0, 1+r.Intn(3); i < n; i++ {
			act := "Allow"
			if r.Intn(3) == 0 {
				act = "Deny"
			}
			s.Rules = append(s.Rules, ARule{Action: act, Cond: randomCond(r, 2)})
		}
	}
	return s
}

// mentionsGroups: evaluating the signer may need a group lookup (which fails in a frame without ReadStates).
func mentionsGroups(s ASigner) bool {
	var in func(c ACond) bool
	in = func(c ACond) bool {
		if c.T == "Group" || c.T == "CalledByGroup" {
			return true
		}
		for _, x := range c.Cs {
			if in(x) {
				return true
			}
		}
		return false
	}
	for _, sc := range s.Scopes {
		if sc == "CustomGroups" {
			return true
		}
	}
	for _, r := range s.Rules {
		if in(r.Cond) {
			return true
		}
	}
	return false
}
