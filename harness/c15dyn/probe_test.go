// Probe program of the C15 "dynamic contract table" extension.  One position-independent NeoVM program is
// (a) method p(R, prog) of every probe contract (same code, different manifests => different hashes and
// groups) and (b) the body of every entry script.  It interprets a program: an array of operations
//
//	[opCheck,   id, acct]                    R += [id, System.Runtime.CheckWitness(acct)]
//	[opCall,    id, hash, flags, prog]       System.Contract.Call(hash, "p", flags, [R, prog]);  R += [id, 1]
//	[opCallTry, id, hash, flags, prog]       the same inside TRY;  R += [id, 1] / on a caught exception [id, 2]
//	[opUpdate,  id, manifest, cb]            ContractManagement.update(null, manifest, data);    R += [id, 1]
//	[opDestroy, id]                          ContractManagement.destroy();                       R += [id, 1]
//	[opDeploy,  id, nef, manifest, cb]       ContractManagement.deploy(nef, manifest, data);     R += [id, 1]
//	                                         cb = null: data = null;  cb = prog: data = [R, prog] - the contract's
//	                                         _deploy(data, isUpdate) method interprets prog before update/deploy return
//	[opAbort,   id]                          ABORT  (the transaction FAULTs)
//	[opThrow,   id]                          THROW  (caught by the nearest enclosing opCallTry, else FAULT)
//	[opMark,    id]                          R += [id, 0]
//	[opTab,     id, [hash..]]                R += [id, [update counter of hash as ContractManagement.getContract
//	                                              answers it inside this execution, -1 when there is none ..]]
//	[opCheckCaller, id]                      R += [id, CheckWitness(System.Runtime.GetCallingScriptHash())]  (used where
//	                                              the caller is the entry script, whose hash depends on the program)
//
// R is one Array shared by reference by all frames; every frame keeps it at the bottom of its evaluation
// stack, so that it is part of the application log's stack of a FAULTed transaction as well (the driver
// reconstructs from R how far the execution really went).
//
// (the assembler is a copy of harness/c15wit/probe_test.go's, plus TRY)
package c15dyn

import (
	"encoding/binary"

	"github.com/nspcc-dev/neo-go/pkg/core/interop/interopnames"
	"github.com/nspcc-dev/neo-go/pkg/io"
	"github.com/nspcc-dev/neo-go/pkg/smartcontract/callflag"
	"github.com/nspcc-dev/neo-go/pkg/util"
	"github.com/nspcc-dev/neo-go/pkg/vm/emit"
	"github.com/nspcc-dev/neo-go/pkg/vm/opcode"
)

const (
	opCheck = iota
	opCall
	opCallTry
	opUpdate
	opDestroy
	opDeploy
	opAbort
	opThrow
	opMark
	opTab
	opCheckCaller
)

type asm struct {
	w      *io.BufBinWriter
	labels map[string]int
	fix    []fixup
}

type fixup struct {
	at    int // offset of the instruction
	opnd  int // offset of the 4-byte operand inside the instruction
	label string
}

func newAsm() *asm { return &asm{w: io.NewBufBinWriter(), labels: map[string]int{}} }

func (a *asm) op(ops ...opcode.Opcode) { emit.Opcodes(a.w.BinWriter, ops...) }
func (a *asm) pos() int                { return a.w.Len() }
func (a *asm) label(l string) {
	if _, ok := a.labels[l]; ok {
		panic("duplicate label " + l)
	}
	a.labels[l] = a.pos()
}
func (a *asm) jmp(op opcode.Opcode, l string) {
	a.fix = append(a.fix, fixup{a.pos(), 1, l})
	emit.Instruction(a.w.BinWriter, op, []byte{0, 0, 0, 0})
}

// try emits TRY_L with a catch block and no finally block.
func (a *asm) try(catch string) {
	a.fix = append(a.fix, fixup{a.pos(), 1, catch})
	emit.Instruction(a.w.BinWriter, opcode.TRYL, []byte{0, 0, 0, 0, 0, 0, 0, 0})
}
func (a *asm) int(i int64)        { emit.Int(a.w.BinWriter, i) }
func (a *asm) bytes(b []byte)     { emit.Bytes(a.w.BinWriter, b) }
func (a *asm) str(s string)       { emit.String(a.w.BinWriter, s) }
func (a *asm) syscall(n string)   { emit.Syscall(a.w.BinWriter, n) }
func (a *asm) initslot(l, n byte) { emit.InitSlot(a.w.BinWriter, l, n) }
func (a *asm) ins(op opcode.Opcode, p ...byte) {
	emit.Instruction(a.w.BinWriter, op, p)
}
func (a *asm) done() []byte {
	if a.w.Err != nil {
		panic(a.w.Err)
	}
	b := a.w.Bytes()
	for _, f := range a.fix {
		t, ok := a.labels[f.label]
		if !ok {
			panic("undefined label " + f.label)
		}
		binary.LittleEndian.PutUint32(b[f.at+f.opnd:], uint32(int32(t-f.at)))
	}
	return b
}

// blob builds the interpreter.  Arguments (top first): R, prog.  Locals: 0 i, 1 op, 2 j, 3 arr.
func blob(mgmt util.Uint160) []byte {
	a := newAsm()
	a.initslot(4, 2)
	a.op(opcode.LDARG0) // R stays at the bottom of this frame's evaluation stack
	a.op(opcode.PUSH0, opcode.STLOC0)
	fld := func(i opcode.Opcode) { a.op(opcode.LDLOC1, i, opcode.PICKITEM) } // op[i]
	store := func() {                                                         // value -> R += [id, value]
		fld(opcode.PUSH1)
		a.op(opcode.PUSH2, opcode.PACK, opcode.LDARG0, opcode.SWAP, opcode.APPEND)
	}
	native := func(method string) { // args array on the stack
		a.int(int64(callflag.All))
		a.str(method)
		a.bytes(mgmt.BytesBE())
		a.syscall(interopnames.SystemContractCall)
	}
	call := func() {
		fld(opcode.PUSH4) // prog
		a.op(opcode.LDARG0, opcode.PUSH2, opcode.PACK)
		fld(opcode.PUSH3) // flags
		a.str("p")
		fld(opcode.PUSH2) // hash
		a.syscall(interopnames.SystemContractCall)
		a.op(opcode.DROP) // Null pushed for a void dynamic call
	}
	a.label("loop")
	a.op(opcode.LDLOC0, opcode.LDARG1, opcode.SIZE, opcode.LT)
	a.jmp(opcode.JMPIFNOTL, "end")
	a.op(opcode.LDARG1, opcode.LDLOC0, opcode.PICKITEM, opcode.STLOC1)
	fld(opcode.PUSH0) // kind
	kinds := []string{"k_check", "k_call", "k_calltry", "k_update", "k_destroy", "k_deploy", "k_abort", "k_throw", "k_mark", "k_tab", "k_checkcaller"}
	for k, l := range kinds {
		a.op(opcode.DUP)
		a.int(int64(k))
		a.op(opcode.NUMEQUAL)
		a.jmp(opcode.JMPIFL, l)
	}
	a.op(opcode.ABORT)

	a.label("k_check")
	a.op(opcode.DROP)
	fld(opcode.PUSH2)
	a.syscall(interopnames.SystemRuntimeCheckWitness)
	store()
	a.jmp(opcode.JMPL, "next")

	a.label("k_call")
	a.op(opcode.DROP)
	call()
	a.op(opcode.PUSH1)
	store()
	a.jmp(opcode.JMPL, "next")

	a.label("k_calltry")
	a.op(opcode.DROP)
	a.try("t_catch")
	call()
	a.jmp(opcode.ENDTRYL, "t_ok")
	a.label("t_catch")
	a.op(opcode.DROP) // the exception
	a.op(opcode.PUSH2)
	store()
	a.jmp(opcode.ENDTRYL, "next")
	a.label("t_ok")
	a.op(opcode.PUSH1)
	store()
	a.jmp(opcode.JMPL, "next")

	// data argument of update / deploy: null, or [R, prog] for the _deploy method
	data := func(i opcode.Opcode, pfx string) {
		fld(i)
		a.op(opcode.DUP, opcode.ISNULL)
		a.jmp(opcode.JMPIFL, pfx+"nodata")
		a.op(opcode.LDARG0, opcode.PUSH2, opcode.PACK)
		a.label(pfx + "nodata")
	}
	a.label("k_update")
	a.op(opcode.DROP)
	data(opcode.PUSH3, "u_")
	fld(opcode.PUSH2) // manifest
	a.op(opcode.PUSHNULL, opcode.PUSH3, opcode.PACK)
	native("update")
	a.op(opcode.DROP)
	a.op(opcode.PUSH1)
	store()
	a.jmp(opcode.JMPL, "next")

	a.label("k_destroy")
	a.op(opcode.DROP)
	a.op(opcode.NEWARRAY0)
	native("destroy")
	a.op(opcode.DROP)
	a.op(opcode.PUSH1)
	store()
	a.jmp(opcode.JMPL, "next")

	a.label("k_deploy")
	a.op(opcode.DROP)
	data(opcode.PUSH4, "d_")
	fld(opcode.PUSH3) // manifest
	fld(opcode.PUSH2) // nef
	a.op(opcode.PUSH3, opcode.PACK)
	native("deploy")
	a.op(opcode.DROP)
	a.op(opcode.PUSH1)
	store()
	a.jmp(opcode.JMPL, "next")

	a.label("k_abort")
	a.op(opcode.DROP)
	a.op(opcode.ABORT)

	a.label("k_throw")
	a.op(opcode.DROP)
	a.str("thrown")
	a.op(opcode.THROW)

	a.label("k_mark")
	a.op(opcode.DROP)
	a.op(opcode.PUSH0)
	store()
	a.jmp(opcode.JMPL, "next")

	a.label("k_tab")
	a.op(opcode.DROP)
	a.op(opcode.NEWARRAY0, opcode.STLOC3, opcode.PUSH0, opcode.STLOC2)
	a.label("tab_loop")
	a.op(opcode.LDLOC2)
	fld(opcode.PUSH2)
	a.op(opcode.SIZE, opcode.LT)
	a.jmp(opcode.JMPIFNOTL, "tab_end")
	fld(opcode.PUSH2)
	a.op(opcode.LDLOC2, opcode.PICKITEM, opcode.PUSH1, opcode.PACK)
	native("getContract")
	a.op(opcode.DUP, opcode.ISNULL)
	a.jmp(opcode.JMPIFL, "tab_none")
	a.op(opcode.PUSH1, opcode.PICKITEM)
	a.jmp(opcode.JMPL, "tab_put")
	a.label("tab_none")
	a.op(opcode.DROP, opcode.PUSHM1)
	a.label("tab_put")
	a.op(opcode.LDLOC3, opcode.SWAP, opcode.APPEND)
	a.op(opcode.LDLOC2, opcode.INC, opcode.STLOC2)
	a.jmp(opcode.JMPL, "tab_loop")
	a.label("tab_end")
	a.op(opcode.LDLOC3)
	store()

	a.jmp(opcode.JMPL, "next")

	a.label("k_checkcaller")
	a.op(opcode.DROP)
	a.syscall(interopnames.SystemRuntimeGetCallingScriptHash)
	a.syscall(interopnames.SystemRuntimeCheckWitness)
	store()

	a.label("next")
	a.op(opcode.LDLOC0, opcode.INC, opcode.STLOC0)
	a.jmp(opcode.JMPL, "loop")
	a.label("end")
	a.op(opcode.DROP, opcode.RET)
	return a.done()
}

// contractScript = interpreter + the _deploy(data, isUpdate) stub.  Returns the script and the stub's offset.
func contractScript(mgmt util.Uint160) ([]byte, int) {
	b := blob(mgmt)
	off := len(b)
	a := newAsm()
	// stack (top first): data, isUpdate
	a.op(opcode.SWAP, opcode.DROP, opcode.DUP, opcode.ISNULL)
	a.jmp(opcode.JMPIFNOTL, "go")
	a.op(opcode.DROP, opcode.RET)
	a.label("go")
	a.op(opcode.UNPACK, opcode.DROP) // R (top), prog
	st := a.done()
	j := make([]byte, 5)
	j[0] = byte(opcode.JMPL)
	binary.LittleEndian.PutUint32(j[1:], uint32(int32(-(off + len(st)))))
	return append(append(append([]byte{}, b...), st...), j...), off
}
