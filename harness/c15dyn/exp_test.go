package c15dyn

import (
	"fmt"
	"testing"
	"time"

	"github.com/nspcc-dev/neo-go/pkg/core/transaction"
	"github.com/nspcc-dev/neo-go/pkg/neotest"
)

func TestExp(t *testing.T) {
	t0 := time.Now()
	w := newWorld(t)
	fmt.Println("newWorld", time.Since(t0))
	t0 = time.Now()
	for _, n := range []string{"A", "B"} {
		g := map[string][]string{"A": {"G1"}, "B": {}}[n]
		w.e.DeployContract(t, &neotest.Contract{Hash: w.hashes[n], NEF: w.nef, Manifest: w.manifestOf(n, g)}, nil)
	}
	fmt.Println("deploy", time.Since(t0))
	fmt.Println(w.tableCache(contractNames), w.tableStored(contractNames))
	id := 0
	mk := func(o *Op) *Op { id++; o.ID = id; return o }
	tab := func() *Op { return mk(&Op{Kind: opTab, Names: []string{"A", "B", "C"}}) }
	chk := func(a string) *Op { return mk(&Op{Kind: opCheck, Acct: a}) }
	subj := transaction.Signer{Account: w.hashes["S"], Scopes: transaction.CustomGroups, AllowedGroups: nil}
	subj.AllowedGroups = append(subj.AllowedGroups, w.gkeys["G2"].PublicKey())
	run := func(ops []*Op) {
		t0 := time.Now()
		tx := w.makeTx(ops, subj, 30_0000_0000)
		w.e.AddNewBlock(t, tx)
		h, f, recs, ok := w.result(tx.Hash())
		fmt.Println("tx", time.Since(t0), h, f, ok, recs)
		fmt.Println(w.tableCache(contractNames), w.tableStored(contractNames))
	}
	// 1: update inside A, check before/after; deploy C and call it
	run([]*Op{chk("S"), tab(),
		mk(&Op{Kind: opCall, C: "A", RS: true, Sub: []*Op{mk(&Op{Kind: opMark}), chk("S"), mk(&Op{Kind: opUpdate, C: "A", Groups: []string{"G2"}}), chk("S"), tab(),
			mk(&Op{Kind: opDeploy, C: "C", Groups: []string{"G2"}}),
			mk(&Op{Kind: opCall, C: "C", RS: true, Sub: []*Op{mk(&Op{Kind: opMark}), chk("S"), chk("A")}}),
			mk(&Op{Kind: opCall, C: "C", RS: false, Sub: []*Op{mk(&Op{Kind: opMark}), chk("A")}}),
		}}), tab()})
	// 2: try/throw rollback, then abort
	run([]*Op{
		mk(&Op{Kind: opCallTry, C: "B", RS: true, Sub: []*Op{mk(&Op{Kind: opMark}), mk(&Op{Kind: opUpdate, C: "B", Groups: []string{"G2"}}), chk("S"), tab(), mk(&Op{Kind: opThrow})}}),
		tab(),
		mk(&Op{Kind: opCall, C: "B", RS: true, Sub: []*Op{mk(&Op{Kind: opMark}), chk("S"), mk(&Op{Kind: opDestroy, C: "B"}), chk("S"), tab(),
			mk(&Op{Kind: opCall, C: "A", RS: true, Sub: []*Op{mk(&Op{Kind: opMark}), chk("B"), mk(&Op{Kind: opAbort})}})}}),
	})
	// 3: destroy for real; no-RS check faulting
	run([]*Op{
		mk(&Op{Kind: opCall, C: "B", RS: true, Sub: []*Op{mk(&Op{Kind: opMark}), mk(&Op{Kind: opDestroy, C: "B"}), chk("S"), tab(),
			mk(&Op{Kind: opCall, C: "A", RS: true, Sub: []*Op{mk(&Op{Kind: opMark}), chk("B")}})}}),
	})
	run([]*Op{
		mk(&Op{Kind: opCall, C: "A", RS: false, Sub: []*Op{mk(&Op{Kind: opMark}), chk("X"), chk("S")}}),
	})
	run([]*Op{
		mk(&Op{Kind: opCall, C: "B", RS: true, Sub: []*Op{mk(&Op{Kind: opMark})}}),
	})
	t0 = time.Now()
	for i := 0; i < 20; i++ {
		w2 := newWorld(t)
		_ = w2
	}
	fmt.Println("20 worlds", time.Since(t0))
}
