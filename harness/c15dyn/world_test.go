package c15dyn

import (
	"encoding/json"
	"fmt"
	"math/big"
	"sort"
	"strings"
	"testing"

	"github.com/nspcc-dev/neo-go/pkg/config"
	"github.com/nspcc-dev/neo-go/pkg/core"
	"github.com/nspcc-dev/neo-go/pkg/core/native"
	"github.com/nspcc-dev/neo-go/pkg/core/native/nativenames"
	"github.com/nspcc-dev/neo-go/pkg/core/state"
	"github.com/nspcc-dev/neo-go/pkg/core/transaction"
	"github.com/nspcc-dev/neo-go/pkg/crypto/hash"
	"github.com/nspcc-dev/neo-go/pkg/crypto/keys"
	"github.com/nspcc-dev/neo-go/pkg/io"
	"github.com/nspcc-dev/neo-go/pkg/neotest"
	"github.com/nspcc-dev/neo-go/pkg/neotest/chain"
	"github.com/nspcc-dev/neo-go/pkg/smartcontract"
	"github.com/nspcc-dev/neo-go/pkg/smartcontract/callflag"
	"github.com/nspcc-dev/neo-go/pkg/smartcontract/manifest"
	"github.com/nspcc-dev/neo-go/pkg/smartcontract/nef"
	"github.com/nspcc-dev/neo-go/pkg/util"
	"github.com/nspcc-dev/neo-go/pkg/vm/emit"
	"github.com/nspcc-dev/neo-go/pkg/vm/opcode"
	"github.com/nspcc-dev/neo-go/pkg/vm/stackitem"
	"github.com/nspcc-dev/neo-go/pkg/vm/vmstate"
	"github.com/nspcc-dev/neo-go/pkg/wallet"
	"go.uber.org/zap"
)

// flags of a leaf frame that may not read the chain's state (group lookups fail there)
const flagsNoRS = callflag.AllowNotify

var (
	contractNames = []string{"A", "B", "C", "D"}
	groupNames    = []string{"G1", "G2", "G3"}
)

func detKey(seed string) *keys.PrivateKey {
	h := hash.Sha256([]byte("verif-c15dyn-" + seed))
	k, err := keys.NewPrivateKeyFromBytes(h.BytesBE())
	if err != nil {
		panic(err)
	}
	return k
}

// world is one real chain.  Histories are replayed on it one after another, each one on its own generation of
// probe contracts (the names - and therefore the hashes - of generation k are "verif-c15dyn-k-A" ...).
type world struct {
	t      testing.TB
	bc     *core.Blockchain
	e      *neotest.Executor
	mgmt   util.Uint160
	mgmtID int32
	script []byte // the interpreter alone: body of the entry scripts
	cbOff  int    // offset of _deploy in the contracts' script
	nef    *nef.File
	nefB   []byte
	gkeys  map[string]*keys.PrivateKey
	gnames map[string]string // compressed public key -> group name
	sAcc   neotest.Signer    // the subject "S"
	nonce  uint32
	// current generation
	gen    int
	hashes map[string]util.Uint160
	names  map[util.Uint160]string
	mfs    map[string][]byte
}

func newWorld(t testing.TB) *world {
	config.Version = "neotest" // nef.NewFile needs a version
	bc, acc := chain.NewSingleWithOptions(t, &chain.Options{Logger: zap.NewNop()})
	e := neotest.NewExecutor(t, bc, acc, acc)
	w := &world{t: t, bc: bc, e: e, gkeys: map[string]*keys.PrivateKey{}, gnames: map[string]string{}}
	w.mgmt = e.NativeHash(t, nativenames.Management)
	w.mgmtID = e.NativeID(t, nativenames.Management)
	for _, g := range groupNames {
		w.gkeys[g] = detKey("group-" + g)
		w.gnames[w.gkeys[g].PublicKey().StringCompressed()] = g
	}
	w.sAcc = neotest.NewSingleSigner(wallet.NewAccountFromPrivateKey(detKey("account-S")))
	w.script = blob(w.mgmt)
	cscript, off := contractScript(w.mgmt)
	w.cbOff = off
	ne, err := nef.NewFile(cscript)
	if err != nil {
		t.Fatal(err)
	}
	w.nef = ne
	w.nefB, err = ne.Bytes()
	if err != nil {
		t.Fatal(err)
	}
	w.newGeneration()
	return w
}

// newGeneration switches to a fresh set of (not yet deployed) probe contracts.
func (w *world) newGeneration() {
	w.gen++
	w.hashes = map[string]util.Uint160{}
	w.names = map[util.Uint160]string{}
	w.mfs = map[string][]byte{}
	reg := func(n string, h util.Uint160) {
		w.hashes[n] = h
		w.names[h] = n
	}
	reg("Z", util.Uint160{})
	reg("S", w.sAcc.ScriptHash())
	reg("P", w.e.Validator.ScriptHash())
	reg("X", detKey("account-X").GetScriptHash())
	reg("N", hash.Hash160([]byte("verif-c15dyn-no-such-contract")))
	reg("M", w.mgmt)
	for _, n := range contractNames {
		reg(n, state.CreateContractHash(w.e.Validator.ScriptHash(), w.nef.Checksum, w.manifestName(n)))
	}
}

func (w *world) manifestName(n string) string { return fmt.Sprintf("verif-c15dyn-%d-%s", w.gen, n) }

// manifestOf builds the manifest of probe contract n with the given groups.
func (w *world) manifestOf(n string, groups []string) *manifest.Manifest {
	m := manifest.DefaultManifest(w.manifestName(n))
	m.ABI.Methods = []manifest.Method{{Name: "p", Offset: 0, ReturnType: smartcontract.VoidType,
		Parameters: []manifest.Parameter{{Name: "r", Type: smartcontract.AnyType}, {Name: "prog", Type: smartcontract.AnyType}}},
		{Name: manifest.MethodDeploy, Offset: w.cbOff, ReturnType: smartcontract.VoidType,
			Parameters: []manifest.Parameter{{Name: "data", Type: smartcontract.AnyType}, {Name: "update", Type: smartcontract.BoolType}}}}
	h := w.hashes[n]
	gs := append([]string{}, groups...)
	sort.Strings(gs)
	for _, g := range gs {
		k := w.gkeys[g]
		m.Groups = append(m.Groups, manifest.Group{PublicKey: k.PublicKey(), Signature: k.Sign(h.BytesBE())})
	}
	return m
}

func (w *world) manifestBytes(n string, groups []string) []byte {
	gs := append([]string{}, groups...)
	sort.Strings(gs)
	key := n + ":" + strings.Join(gs, ",")
	if b, ok := w.mfs[key]; ok {
		return b
	}
	b, err := json.Marshal(w.manifestOf(n, gs))
	if err != nil {
		w.t.Fatal(err)
	}
	w.mfs[key] = b
	return b
}

// ---------------------------------------------------------------------------------------------------
// abstract table, read back from the real chain

// TEntry is the abstract state of one contract: st "absent" (no such contract), "live".  ("dead" - destroyed,
// the hash is blocked - is what the specification tracks; the chain's contract table shows it as absent.)
type TEntry struct {
	St     string   `json:"st"`
	Groups []string `json:"groups"`
	UC     int      `json:"uc"`
}

func (w *world) project(cs *state.Contract) TEntry {
	if cs == nil {
		return TEntry{St: "absent", Groups: []string{}}
	}
	e := TEntry{St: "live", Groups: []string{}, UC: int(cs.UpdateCounter)}
	for _, g := range cs.Manifest.Groups {
		n, ok := w.gnames[g.PublicKey.StringCompressed()]
		if !ok {
			n = "?" + g.PublicKey.StringCompressed()
		}
		e.Groups = append(e.Groups, n)
	}
	sort.Strings(e.Groups)
	return e
}

// tableCache is the contract table as the chain's ContractManagement answers it (its contract cache).
func (w *world) tableCache(names []string) map[string]TEntry {
	out := map[string]TEntry{}
	for _, n := range names {
		out[n] = w.project(w.bc.GetContractState(w.hashes[n]))
	}
	return out
}

// tableStored is the contract table decoded from ContractManagement's storage records.
func (w *world) tableStored(names []string) map[string]TEntry {
	out := map[string]TEntry{}
	for _, n := range names {
		si := w.bc.GetStorageItem(w.mgmtID, native.MakeContractKey(w.hashes[n]))
		if si == nil {
			out[n] = w.project(nil)
			continue
		}
		it, err := stackitem.Deserialize(si)
		if err != nil {
			w.t.Fatalf("stored contract %s: %v", n, err)
		}
		cs := new(state.Contract)
		if err = cs.FromStackItem(it); err != nil {
			w.t.Fatalf("stored contract %s: %v", n, err)
		}
		out[n] = w.project(cs)
	}
	return out
}

// ---------------------------------------------------------------------------------------------------
// programs

// Op is one operation of a program (tree).
type Op struct {
	Kind   int
	ID     int
	Acct   string   // opCheck: account name ("caller" is resolved by the builder)
	C      string   // opCall*/opDeploy/opUpdate/opDestroy: contract name
	RS     bool     // opCall*: the callee gets all call flags (else no ReadStates)
	Groups []string // opUpdate / opDeploy
	Sub    []*Op    // opCall*; opUpdate / opDeploy with Cb: the program of _deploy
	Cb     bool     // opUpdate / opDeploy: the contract's _deploy method runs Sub
	Names  []string // opTab
}

func bi(i int64) stackitem.Item { return stackitem.NewBigInteger(big.NewInt(i)) }

func (w *world) item(o *Op) stackitem.Item {
	hd := []stackitem.Item{bi(int64(o.Kind)), bi(int64(o.ID))}
	switch o.Kind {
	case opCheck:
		hd = append(hd, stackitem.NewByteArray(w.hashOf(o.Acct).BytesBE()))
	case opCall, opCallTry:
		fl := int64(callflag.All)
		if !o.RS {
			fl = int64(flagsNoRS)
		}
		hd = append(hd, stackitem.NewByteArray(w.hashes[o.C].BytesBE()), bi(fl), w.progItem(o.Sub))
	case opUpdate:
		hd = append(hd, stackitem.NewByteArray(w.manifestBytes(o.C, o.Groups)), w.cbItem(o))
	case opDeploy:
		hd = append(hd, stackitem.NewByteArray(w.nefB), stackitem.NewByteArray(w.manifestBytes(o.C, o.Groups)), w.cbItem(o))
	case opTab:
		hs := make([]stackitem.Item, len(o.Names))
		for i, n := range o.Names {
			hs[i] = stackitem.NewByteArray(w.hashes[n].BytesBE())
		}
		hd = append(hd, stackitem.NewArray(hs))
	}
	return stackitem.NewArray(hd)
}

func (w *world) cbItem(o *Op) stackitem.Item {
	if !o.Cb {
		return stackitem.Null{}
	}
	return w.progItem(o.Sub)
}

func (w *world) progItem(ops []*Op) stackitem.Item {
	its := make([]stackitem.Item, len(ops))
	for i, o := range ops {
		its[i] = w.item(o)
	}
	return stackitem.NewArray(its)
}

// entryScript = NEWARRAY0 (R); prog; OVER; interpreter.
func (w *world) entryScript(ops []*Op) []byte {
	bw := io.NewBufBinWriter()
	emit.Opcodes(bw.BinWriter, opcode.NEWARRAY0)
	emit.StackItem(bw.BinWriter, w.progItem(ops))
	emit.Opcodes(bw.BinWriter, opcode.OVER)
	if bw.Err != nil {
		w.t.Fatal(bw.Err)
	}
	return append(bw.Bytes(), w.script...)
}

// makeTx builds and signs a real transaction: sender = the validator (scope None), second signer = the subject.
func (w *world) makeTx(ops []*Op, subj transaction.Signer, sysFee int64) *transaction.Transaction {
	tx := transaction.New(w.entryScript(ops), sysFee)
	w.nonce++
	tx.Nonce = w.nonce
	tx.ValidUntilBlock = w.bc.BlockHeight() + 10
	tx.Signers = []transaction.Signer{{Account: w.e.Validator.ScriptHash(), Scopes: transaction.None}, subj}
	signers := []neotest.Signer{w.e.Validator, w.sAcc}
	neotest.AddNetworkFee(w.t, w.bc, tx, signers...)
	for _, s := range signers {
		if err := s.SignTx(w.bc.GetConfig().Magic, tx); err != nil {
			w.t.Fatal(err)
		}
	}
	return tx
}

// rec is one entry of R.
type rec struct {
	id  int
	val int   // bool / small integer value
	arr []int // opTab
}

// result reads the outcome of a transaction from the application log the chain stored.
func (w *world) result(h util.Uint256) (halted bool, fault string, recs []rec, ok bool) {
	aer := w.e.GetTxExecResult(w.t, h)
	halted = aer.VMState == vmstate.Halt
	fault = aer.FaultException
	for i := len(aer.Stack) - 1; i >= 0; i-- { // R is at the bottom
		arr, isArr := aer.Stack[i].Value().([]stackitem.Item)
		if !isArr || aer.Stack[i].Type() != stackitem.ArrayT {
			continue
		}
		recs, ok = decodeR(arr)
		if ok {
			return
		}
	}
	return halted, fault, nil, false
}

func decodeR(arr []stackitem.Item) ([]rec, bool) {
	out := make([]rec, 0, len(arr))
	for _, it := range arr {
		p, isArr := it.Value().([]stackitem.Item)
		if !isArr || len(p) != 2 {
			return nil, false
		}
		id, err := p[0].TryInteger()
		if err != nil {
			return nil, false
		}
		r := rec{id: int(id.Int64())}
		switch v := p[1].(type) {
		case stackitem.Bool:
			if bool(v) {
				r.val = 1
			}
		case *stackitem.Array:
			for _, x := range v.Value().([]stackitem.Item) {
				n, err := x.TryInteger()
				if err != nil {
					return nil, false
				}
				r.arr = append(r.arr, int(n.Int64()))
			}
		default:
			n, err := p[1].TryInteger()
			if err != nil {
				return nil, false
			}
			r.val = int(n.Int64())
		}
		out = append(out, r)
	}
	return out, true
}
