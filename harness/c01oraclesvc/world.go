// Package c01oraclesvc binds spec/oraclesvc to the real oracle service: N real oracle.Oracle services, each on its own
// real core.Blockchain (attached with Blockchain.SetOracle and Start()ed, so that the native Oracle / Designation
// contracts feed them through AddRequests / RemoveRequests / UpdateOracleNodes exactly as in a node), a producer ledger
// that makes the blocks, a scripted web server behind the service's own http.Client (redirect rules of the service stay in
// force), and a harness network that carries the nodes' signatures (AddResponse) under a schedule.
//
// Determinism: a request worker of the service blocks in the scripted transport (a gate) until the schedule releases the
// HTTP answer of that (node, request); after every step the harness waits until every goroutine of every service is
// parked either in its idle select or in a gate (a state predicate read from the goroutine dump, not a time-out).  The
// refresh timer of the service never fires (RefreshInterval 100 h): its work (processRequest with a nil request) is
// done by the schedule through the exported ProcessRequestsInternal.
package c01oraclesvc

import (
	"bytes"
	"encoding/hex"
	"encoding/json"
	"errors"
	"fmt"
	"io"
	"net/http"
	"os"
	"path/filepath"
	"reflect"
	"runtime"
	"slices"
	"sort"
	"strconv"
	"strings"
	"sync"
	"testing"
	"time"
	"unsafe"

	"verifharness/internal/chainkit"
	"verifharness/internal/histgen"

	"github.com/nspcc-dev/neo-go/pkg/config"
	"github.com/nspcc-dev/neo-go/pkg/core"
	"github.com/nspcc-dev/neo-go/pkg/core/mempool"
	"github.com/nspcc-dev/neo-go/pkg/core/native/nativehashes"
	"github.com/nspcc-dev/neo-go/pkg/core/native/nativeids"
	"github.com/nspcc-dev/neo-go/pkg/core/native/nativenames"
	"github.com/nspcc-dev/neo-go/pkg/core/native/noderoles"
	"github.com/nspcc-dev/neo-go/pkg/core/state"
	"github.com/nspcc-dev/neo-go/pkg/core/storage"
	"github.com/nspcc-dev/neo-go/pkg/core/transaction"
	"github.com/nspcc-dev/neo-go/pkg/crypto/hash"
	"github.com/nspcc-dev/neo-go/pkg/crypto/keys"
	"github.com/nspcc-dev/neo-go/pkg/neotest"
	"github.com/nspcc-dev/neo-go/pkg/services/oracle"
	"github.com/nspcc-dev/neo-go/pkg/smartcontract"
	"github.com/nspcc-dev/neo-go/pkg/smartcontract/scparser"
	"github.com/nspcc-dev/neo-go/pkg/smartcontract/trigger"
	"github.com/nspcc-dev/neo-go/pkg/util"
	"github.com/nspcc-dev/neo-go/pkg/vm/stackitem"
	"github.com/nspcc-dev/neo-go/pkg/vm/vmstate"
	"github.com/nspcc-dev/neo-go/pkg/wallet"
	"go.uber.org/zap"
)

const gas = int64(1_0000_0000)

// ReqSpec describes one oracle request of a schedule.
type ReqSpec struct {
	Cls    string `json:"cls"`    // answer class of the URL (what the web server answers to everybody)
	Filter string `json:"filter"` // "" = no filter
	Gas    int64  `json:"gas"`    // GasForResponse in units of 0.01 GAS
	Throw  bool   `json:"throw"`  // the callback throws
}

// Fees is a policy change made by the committee.
type Fees struct {
	Fpb   int64 `json:"fpb"`   // fee per byte; 0 = unchanged
	Eff   int64 `json:"eff"`   // exec fee factor; 0 = unchanged
	Attr  int64 `json:"attr"`  // fee of the OracleResponse attribute; -1 = unchanged
	Price int64 `json:"price"` // price of an oracle request (native Oracle setPrice); 0 = unchanged
}

// Req is a request as the producer ledger recorded it.
type Req struct {
	ID     uint64
	Seq    int // position in the world's list (1-based)
	Spec   ReqSpec
	URL    string
	Height uint32
	TxHash util.Uint256
	Gas    int64
}

// Sent is one OnTransaction call of a service.
type Sent struct {
	Node, Inc int
	Tx        *transaction.Transaction
	H         uint32 // height of the node's ledger
	Err       error  // answer of the node's own ledger (PoolTx)
	Pending   bool   // the request was pending on the node's ledger
	Conflict  bool   // another response to the same request sat in the node's pool
	BH        int    // height of the node's ledger when it built the transaction
	relayed   bool
	seq       int
}

// Msg is one SendResponse call of a service.
type Msg struct {
	Node, Inc int
	Req       uint64
	Sig       []byte
	seq       int
}

type gateKey struct {
	node, inc int
	url       string
}

// noClose keeps a memory store alive across a restart of the ledger on it.
type noClose struct{ storage.Store }

func (noClose) Close() error { return nil }

// Node is one oracle node: ledger + service.
type Node struct {
	Idx   int
	Key   *keys.PrivateKey
	store storage.Store
	BC    *core.Blockchain
	Orc   *oracle.Oracle
	Inc   int // incarnation of the service
	H     int // blocks delivered
	Up    bool
	hook  func(*config.Blockchain)
	ocfg  config.OracleConfiguration
	wpath string
}

// World is N nodes + the producer.
type World struct {
	t      testing.TB
	net    *chainkit.Net
	P      *core.Blockchain
	e      *neotest.Executor
	Nodes  []*Node
	N      int
	IncV   uint32
	owner  neotest.SingleSigner
	kv     util.Uint160
	blocks [][]byte
	Reqs   map[uint64]*Req
	Order  []uint64
	nonce  uint32
	dir    string

	mu      sync.Mutex
	waiting map[gateKey]chan string
	sent    []*Sent
	msgs    []*Msg
	dead    map[[2]int]bool
	nseq    int
	Stats   map[string]int
}

var (
	kvOnce sync.Once
	kvC    *neotest.Contract
)

func ownerAcct() neotest.SingleSigner {
	return neotest.NewSingleSigner(wallet.NewAccountFromPrivateKey(cachedKey("acct-0")))
}

var (
	keyMu    sync.Mutex
	keyCache = map[string]*keys.PrivateKey{}
)

func cachedKey(label string) *keys.PrivateKey {
	keyMu.Lock()
	defer keyMu.Unlock()
	k, ok := keyCache[label]
	if !ok {
		k = chainkit.Key(label)
		keyCache[label] = k
	}
	return k
}

func nodeKey(i int) *keys.PrivateKey { return cachedKey(fmt.Sprintf("c01orc-node-%d", i)) }

// outsider is a key that is never designated.
func outsider() *keys.PrivateKey { return cachedKey("c01orc-outsider") }

// nodeLocal gives node i its node-local settings (ledger options and service options that must not matter).
func nodeLocal(i int) (func(*config.Blockchain), config.OracleConfiguration) {
	hook := func(c *config.Blockchain) {
		switch i % 4 {
		case 1:
			c.Ledger.KeepOnlyLatestState = true
		case 2:
			c.Ledger.SaveStorageBatch = true
			c.Ledger.SkipBlockVerification = false
		case 3:
			c.P2PStateExchangeExtensions = false
			c.Ledger.GarbageCollectionPeriod = 7
		}
	}
	oc := config.OracleConfiguration{
		Enabled:               true,
		AllowPrivateHost:      i%2 == 0,
		Nodes:                 []string{fmt.Sprintf("http://peer-of-%d.invalid:1", i)},
		MaxTaskTimeout:        time.Duration(100+i) * time.Hour,
		RefreshInterval:       time.Duration(100+3*i) * time.Hour,
		MaxConcurrentRequests: []int{10, 3, 5, 16}[i%4],
		RequestTimeout:        time.Duration(200+i) * time.Hour,
		ResponseTimeout:       time.Duration(1+i) * time.Second,
		AllowedContentTypes:   []string{"application/json"}, // the same everywhere: it is part of the answer class
	}
	return hook, oc
}

// NewWorld builds the producer, the nodes (services attached at genesis) and the base blocks: funding, the scenario
// contract, the first designation.
func NewWorld(t testing.TB, n int, inc uint32, desig []int, dir string) (w *World, err error) {
	defer func() {
		if r := recover(); r != nil {
			err = fmt.Errorf("world construction panicked: %v", r)
		}
	}()
	w = &World{t: t, net: chainkit.NewNet(1, 1), N: n, IncV: inc, Reqs: map[uint64]*Req{}, waiting: map[gateKey]chan string{},
		dead: map[[2]int]bool{}, Stats: map[string]int{}, dir: dir, owner: ownerAcct()}
	proto := func(c *config.Blockchain) { c.MaxValidUntilBlockIncrement = inc }
	w.P, err = w.net.NewChain(nil, proto)
	if err != nil {
		return nil, err
	}
	chainkit.Start(w.P)
	w.e = w.net.Executor(t, w.P)
	kvOnce.Do(func() { kvC = histgen.KV(t, w.owner.ScriptHash(), 1, 1) })
	w.kv = kvC.Hash
	for i := 0; i < n; i++ {
		hook, oc := nodeLocal(i)
		nd := &Node{Idx: i, Key: nodeKey(i), store: noClose{storage.NewMemoryStore()}, ocfg: oc}
		nd.hook = func(c *config.Blockchain) { proto(c); hook(c) }
		nd.wpath = filepath.Join(dir, fmt.Sprintf("wallet-%d.json", i))
		if err = writeWallet(nd.wpath, nd.Key); err != nil {
			return w, err
		}
		w.Nodes = append(w.Nodes, nd)
		if err = w.openLedger(nd); err != nil {
			return w, err
		}
		if err = w.startService(nd); err != nil {
			return w, err
		}
	}
	val := []neotest.Signer{w.e.Validator}
	cmt := []neotest.Signer{w.e.Committee}
	gasH := w.e.NativeHash(t, nativenames.Gas)
	// block 1: funding
	if _, err = w.produce(
		w.prepTx(val, 2*gas, gasH, "transfer", w.e.Validator.ScriptHash(), w.owner.ScriptHash(), 5000*gas, nil),
		w.prepTx(val, 2*gas, gasH, "transfer", w.e.Validator.ScriptHash(), w.e.Committee.ScriptHash(), 1000*gas, nil)); err != nil {
		return w, err
	}
	// block 2: the scenario contract and the first designation
	nb, _ := kvC.NEF.Bytes()
	mb, err := json.Marshal(kvC.Manifest)
	if err != nil {
		return w, err
	}
	if _, err = w.produce(
		w.prepTx([]neotest.Signer{w.owner}, 20*gas, w.e.NativeHash(t, nativenames.Management), "deploy", nb, mb),
		w.prepTx(cmt, 2*gas, w.e.NativeHash(t, nativenames.Designation), "designateAsRole", int64(noderoles.Oracle), w.pubs(desig))); err != nil {
		return w, err
	}
	if w.P.GetContractState(w.kv) == nil {
		return w, errors.New("scenario contract not deployed")
	}
	for _, nd := range w.Nodes {
		for nd.H < len(w.blocks) {
			if err = w.Deliver(nd); err != nil {
				return w, err
			}
		}
	}
	return w, nil
}

func writeWallet(path string, k *keys.PrivateKey) error {
	_ = os.Remove(path)
	wl, err := wallet.NewWallet(path)
	if err != nil {
		return err
	}
	wl.Scrypt = keys.ScryptParams{N: 2, R: 1, P: 1}
	kc, err := keys.NewPrivateKeyFromBytes(k.Bytes()) // Wallet.Close wipes the keys of its accounts
	if err != nil {
		return err
	}
	a := wallet.NewAccountFromPrivateKey(kc)
	if err := a.Encrypt("pw", wl.Scrypt); err != nil {
		return err
	}
	wl.AddAccount(a)
	if err := wl.Save(); err != nil {
		return err
	}
	wl.Close()
	return nil
}

func (w *World) pubs(ids []int) []any {
	var out []any
	for _, i := range ids {
		out = append(out, nodeKey(i).PublicKey().Bytes())
	}
	return out
}

func (w *World) openLedger(nd *Node) error {
	bc, err := w.net.NewChain(nd.store, nd.hook)
	if err != nil {
		return err
	}
	chainkit.Start(bc)
	nd.BC = bc
	if int(bc.BlockHeight()) != nd.H {
		return fmt.Errorf("node %d reopened at height %d, had %d blocks", nd.Idx, bc.BlockHeight(), nd.H)
	}
	return nil
}

// startService creates, attaches and starts a new incarnation of the node's oracle service.
func (w *World) startService(nd *Node) error {
	nd.Inc++
	inc := nd.Inc
	oc := nd.ocfg
	oc.UnlockWallet = config.Wallet{Path: nd.wpath, Password: "pw"}
	cfg := oracle.Config{
		Log:             zap.NewNop(),
		Network:         w.net.Magic,
		MainCfg:         oc,
		Chain:           nd.BC,
		ResponseHandler: &bcast{w: w, node: nd.Idx, inc: inc},
		OnTransaction:   func(tx *transaction.Transaction) error { return w.onTx(nd, inc, tx) },
	}
	orc, err := oracle.NewOracle(cfg)
	if err != nil {
		return err
	}
	hc, ok := orc.Client.(*http.Client)
	if !ok {
		return fmt.Errorf("the service's default client is %T, not *http.Client", orc.Client)
	}
	hc.Transport = &transport{w: w, node: nd.Idx, inc: inc} // the service's own redirect rules and client stay
	nd.Orc = orc
	nd.BC.SetOracle(orc)
	orc.Start()
	nd.Up = true
	w.Quiesce()
	return nil
}

// StopService ends the current incarnation: its blocked fetches fail, whatever it still says is ignored.
func (w *World) StopService(nd *Node) {
	if !nd.Up {
		return
	}
	w.mu.Lock()
	w.dead[[2]int{nd.Idx, nd.Inc}] = true
	for k, ch := range w.waiting {
		if k.node == nd.Idx {
			ch <- "dead"
			delete(w.waiting, k)
		}
	}
	w.mu.Unlock()
	w.Quiesce()
	nd.Orc.Shutdown()
	nd.Up = false
}

// Restart stops the service, optionally closes and reopens the ledger on the same store, and starts a new service.
func (w *World) Restart(nd *Node, ledger bool) error {
	w.StopService(nd)
	if ledger {
		nd.BC.Close()
		if err := w.openLedger(nd); err != nil {
			return err
		}
	}
	return w.startService(nd)
}

func (w *World) Close() {
	for _, nd := range w.Nodes {
		if nd.Up {
			w.StopService(nd)
		}
		if nd.BC != nil {
			nd.BC.Close()
		}
	}
	if w.P != nil {
		w.P.Close()
	}
}

// ---------------------------------------------------------------------------------------------- service side taps

type bcast struct {
	w         *World
	node, inc int
}

func (b *bcast) SendResponse(priv *keys.PrivateKey, resp *transaction.OracleResponse, txSig []byte) {
	w := b.w
	w.mu.Lock()
	defer w.mu.Unlock()
	if w.dead[[2]int{b.node, b.inc}] {
		return
	}
	w.nseq++
	w.msgs = append(w.msgs, &Msg{Node: b.node, Inc: b.inc, Req: resp.ID, Sig: bytes.Clone(txSig), seq: w.nseq})
}
func (b *bcast) Run()      {}
func (b *bcast) Shutdown() {}

// onTx is what the node does with a transaction of its service: its own ledger decides (as Server.RelayTxn does).
func (w *World) onTx(nd *Node, inc int, tx *transaction.Transaction) error {
	w.mu.Lock()
	if w.dead[[2]int{nd.Idx, inc}] {
		w.mu.Unlock()
		return nil
	}
	w.mu.Unlock()
	s := &Sent{Node: nd.Idx, Inc: inc, Tx: tx, H: nd.BC.BlockHeight()}
	if id, ok := respID(tx); ok {
		s.Pending = pendingOn(nd.BC, id)
		s.Conflict = poolHasResponse(nd.BC.GetMemPool(), id, tx.Hash())
	}
	cp, err := transaction.NewTransactionFromBytes(tx.Bytes())
	if err != nil {
		s.Err = fmt.Errorf("does not round-trip through its wire form: %w", err)
	} else if nd.BC.GetMemPool().ContainsKey(tx.Hash()) {
		s.Err = nil // the refresh re-sends what is pooled already: the ledger has it
	} else {
		s.Err = nd.BC.PoolTx(cp)
	}
	w.mu.Lock()
	w.nseq++
	s.seq = w.nseq
	w.sent = append(w.sent, s)
	w.mu.Unlock()
	return s.Err
}

func respID(tx *transaction.Transaction) (uint64, bool) {
	a := tx.GetAttributes(transaction.OracleResponseT)
	if len(a) == 0 {
		return 0, false
	}
	return a[0].Value.(*transaction.OracleResponse).ID, true
}

func pendingOn(bc *core.Blockchain, id uint64) bool {
	key := make([]byte, 9)
	key[0] = 7
	for i := 0; i < 8; i++ {
		key[1+i] = byte(id >> (56 - 8*i))
	}
	return bc.GetStorageItem(nativeids.OracleContract, key) != nil
}

func poolHasResponse(mp *mempool.Pool, id uint64, except util.Uint256) bool {
	for _, t := range mp.GetVerifiedTransactions() {
		if x, ok := respID(t); ok && x == id && t.Hash() != except {
			return true
		}
	}
	return false
}

// ---------------------------------------------------------------------------------------------- scripted web server

type transport struct {
	w         *World
	node, inc int
}

const bodyJSON = `{"f":1,"g":[1,2],"s":"x"}`

// RoundTrip answers the first hop of a request after the schedule released it; later hops (redirects) carry the class.
func (tr *transport) RoundTrip(req *http.Request) (*http.Response, error) {
	q := req.URL.Query()
	cls, hop := q.Get("cls"), 0
	if cls == "" {
		cls = tr.w.gateWait(gateKey{tr.node, tr.inc, req.URL.String()})
	} else {
		hop, _ = strconv.Atoi(q.Get("hop"))
	}
	mk := func(code int, ct string, body []byte) (*http.Response, error) {
		h := http.Header{}
		if ct != "" {
			h.Set("Content-Type", ct)
		}
		return &http.Response{StatusCode: code, Status: http.StatusText(code), Proto: "HTTP/1.1", ProtoMajor: 1, ProtoMinor: 1,
			Header: h, Body: io.NopCloser(bytes.NewReader(body)), ContentLength: int64(len(body)), Request: req}, nil
	}
	redirect := func(scheme string) (*http.Response, error) {
		u := *req.URL
		u.Scheme = scheme
		nq := u.Query()
		nq.Set("cls", cls)
		nq.Set("hop", strconv.Itoa(hop+1))
		u.RawQuery = nq.Encode()
		r, _ := mk(http.StatusFound, "", nil)
		r.Header.Set("Location", u.String())
		return r, nil
	}
	const js = "application/json"
	switch cls {
	case "ok":
		return mk(200, js+"; charset=utf-8", []byte(bodyJSON))
	case "big": // large but legal
		return mk(200, js, []byte(`{"f":"`+strings.Repeat("a", 3000)+`"}`))
	case "notfound":
		return mk(404, js, []byte("{}"))
	case "forbidden":
		return mk(403, js, []byte("{}"))
	case "timeout":
		return mk(408, js, []byte("{}"))
	case "err500":
		return mk(500, js, []byte("{}"))
	case "toolarge":
		return mk(200, js, bytes.Repeat([]byte("a"), transaction.MaxOracleResultSize+1))
	case "maxsize":
		return mk(200, js, append(append([]byte(`"`), bytes.Repeat([]byte("a"), transaction.MaxOracleResultSize-2)...), '"'))
	case "badct":
		return mk(200, "text/html", []byte(bodyJSON))
	case "noct":
		return mk(200, "", []byte(bodyJSON))
	case "badutf8":
		return mk(200, js, []byte{'"', 0xff, 0xfe, '"'})
	case "neterr", "dead":
		return nil, errors.New("scripted transport error: connection reset")
	case "redirok":
		if hop < 2 {
			return redirect("https")
		}
		return mk(200, js, []byte(bodyJSON))
	case "redirloop":
		return redirect("https")
	case "redirhttp":
		if hop == 0 {
			return redirect("http")
		}
		return mk(200, js, []byte(bodyJSON))
	}
	return nil, fmt.Errorf("unknown scripted answer class %q", cls)
}

func (w *World) gateWait(k gateKey) string {
	w.mu.Lock()
	if w.dead[[2]int{k.node, k.inc}] {
		w.mu.Unlock()
		return "dead"
	}
	ch := make(chan string, 1)
	w.waiting[k] = ch
	w.mu.Unlock()
	return gatePark(ch)
}

// gatePark is the frame the quiescence detector looks for.
//
//go:noinline
func gatePark(ch chan string) string { return <-ch }

// Waiting tells whether a fetch of the node's current service for the request is blocked at the gate.
func (w *World) Waiting(nd *Node, r *Req) bool {
	w.mu.Lock()
	defer w.mu.Unlock()
	_, ok := w.waiting[gateKey{nd.Idx, nd.Inc, r.URL}]
	return ok
}

// Answer releases the fetch of (node, request) with the given class.
func (w *World) Answer(nd *Node, r *Req, cls string) bool {
	w.mu.Lock()
	k := gateKey{nd.Idx, nd.Inc, r.URL}
	ch, ok := w.waiting[k]
	if ok {
		delete(w.waiting, k)
		ch <- cls
	}
	w.mu.Unlock()
	if ok {
		w.Quiesce()
	}
	return ok
}

// Quiesce returns when every goroutine of every oracle service is parked in its idle select or at the gate.
func (w *World) Quiesce() {
	buf := make([]byte, 1<<20)
	for try := 0; ; try++ {
		n := runtime.Stack(buf, true)
		for n == len(buf) {
			buf = make([]byte, 2*len(buf))
			n = runtime.Stack(buf, true)
		}
		busy := quiet(string(buf[:n]))
		if busy == "" {
			return
		}
		if try < 50 {
			runtime.Gosched()
		} else {
			time.Sleep(time.Duration(min(try-49, 20)) * 100 * time.Microsecond)
		}
		if try > 30000 {
			panic("harness: oracle services never became quiescent; busy goroutine:\n" + busy)
		}
	}
}

// quiet returns "" when all service goroutines are parked where they wait for work, else the busy goroutine.
func quiet(dump string) string {
	for _, g := range strings.Split(dump, "\n\n") {
		if !strings.Contains(g, "pkg/services/oracle.(*Oracle).") {
			continue
		}
		lines := strings.Split(g, "\n")
		hdr := lines[0]
		if strings.Contains(hdr, "[running]") {
			continue // the harness goroutine itself, inside a synchronous call (never: Quiesce is called outside)
		}
		if strings.Contains(g, "c01oraclesvc.gatePark(") {
			if strings.Contains(hdr, "[chan receive") {
				continue
			}
			return g
		}
		if strings.Contains(hdr, "[chan send") && strings.Contains(g, "oracle.(*Oracle).start(") && !strings.Contains(g, "c01oraclesvc.") {
			continue // the main loop waits for a free worker: every worker is at a gate (an idle one would have taken the request)
		}
		if !strings.Contains(hdr, "[select") {
			return g
		}
		// parked in select: it must be the idle select of the worker / main loop itself, not one below it
		fn := ""
		for _, l := range lines[1:] {
			if strings.HasPrefix(l, "\t") || strings.HasPrefix(l, "runtime.") {
				continue
			}
			fn = l
			break
		}
		if strings.Contains(fn, "oracle.(*Oracle).runRequestWorker") || strings.Contains(fn, "oracle.(*Oracle).start") {
			continue
		}
		return g
	}
	return ""
}

// ---------------------------------------------------------------------------------------------- blocks

func (w *World) prepTx(signers []neotest.Signer, sys int64, h util.Uint160, method string, args ...any) *transaction.Transaction {
	tx := w.e.NewUnsignedTx(w.t, h, method, args...)
	w.nonce++
	tx.Nonce = 0x6000_0000 + w.nonce
	tx.ValidUntilBlock = w.P.BlockHeight() + min(w.IncV, 20)
	tx.NetworkFee = gas
	return w.e.SignTx(w.t, tx, sys, signers...)
}

// produce makes the next block on the producer ledger out of txs (scripted) followed by what its pool holds.
func (w *World) produce(txs ...*transaction.Transaction) ([]*transaction.Transaction, error) {
	have := map[util.Uint256]bool{}
	for _, tx := range txs {
		have[tx.Hash()] = true
	}
	for _, tx := range w.P.GetMemPool().GetVerifiedTransactions() {
		if !have[tx.Hash()] {
			txs = append(txs, tx)
		}
	}
	b, err := w.net.NewBlock(w.P, 1, txs...)
	if err != nil {
		return nil, err
	}
	raw, err := chainkit.EncodeBlock(b)
	if err != nil {
		return nil, err
	}
	if err := w.P.AddBlock(b); err != nil {
		return nil, fmt.Errorf("producer refuses its own block %d: %w", b.Index, err)
	}
	w.blocks = append(w.blocks, raw)
	return txs, nil
}

// Deliver gives the node its next block.
func (w *World) Deliver(nd *Node) error {
	if nd.H >= len(w.blocks) {
		return nil
	}
	b, err := chainkit.DecodeBlock(w.blocks[nd.H], false)
	if err != nil {
		return err
	}
	if err := nd.BC.AddBlock(b); err != nil {
		return fmt.Errorf("node %d refuses block %d: %w", nd.Idx, b.Index, err)
	}
	nd.H++
	w.Quiesce()
	return nil
}

// Facts are the chain facts the response transaction depends on, after the last block of the ledger.
type Facts struct {
	H     int   `json:"h"`
	Fpb   int64 `json:"fpb"`
	Eff   int64 `json:"eff"`
	Attr  int64 `json:"attr"`
	Desig []int `json:"desig"`
	Inc   int   `json:"inc"`
}

func (w *World) FactsOf(bc *core.Blockchain) Facts {
	f := Facts{H: int(bc.BlockHeight()), Fpb: bc.FeePerByte(), Eff: bc.GetBaseExecFee(), Inc: int(bc.GetMaxValidUntilBlockIncrement())}
	f.Attr = bc.CalculateAttributesFee(&transaction.Transaction{Attributes: []transaction.Attribute{{Type: transaction.OracleResponseT, Value: &transaction.OracleResponse{}}}})
	pubs, _, _ := bc.GetDesignatedByRole(noderoles.Oracle)
	f.Desig = w.ids(pubs)
	return f
}

func (w *World) ids(pubs keys.PublicKeys) []int {
	out := []int{}
	for _, p := range pubs {
		id := -1
		for i := 0; i < w.N; i++ {
			if nodeKey(i).PublicKey().Equal(p) {
				id = i
			}
		}
		if p.Equal(outsider().PublicKey()) {
			id = 99
		}
		out = append(out, id)
	}
	sort.Ints(out)
	return out
}

// Included is a response transaction of a produced block.
type Included struct {
	Req   uint64
	Hash  util.Uint256
	Code  string
	State string
	Resp  int // OracleResponse notifications of the native contract for this request in this transaction
	Cb    int // callback executions (notification E1 of the scenario contract)
}

// Mine produces one block: new requests, a designation, a policy change, and the pooled responses.
func (w *World) Mine(newReqs []ReqSpec, desig []int, fees *Fees) (made []*Req, inc []Included, err error) {
	var txs []*transaction.Transaction
	cmt := []neotest.Signer{w.e.Committee}
	pol := w.e.NativeHash(w.t, nativenames.Policy)
	if fees != nil {
		if fees.Fpb > 0 {
			txs = append(txs, w.prepTx(cmt, 2*gas, pol, "setFeePerByte", fees.Fpb))
		}
		if fees.Eff > 0 {
			txs = append(txs, w.prepTx(cmt, 2*gas, pol, "setExecFeeFactor", fees.Eff))
		}
		if fees.Attr >= 0 {
			txs = append(txs, w.prepTx(cmt, 2*gas, pol, "setAttributeFee", int64(transaction.OracleResponseT), fees.Attr))
		}
		if fees.Price > 0 {
			txs = append(txs, w.prepTx(cmt, 2*gas, nativehashes.OracleContract, "setPrice", fees.Price))
		}
	}
	if desig != nil {
		txs = append(txs, w.prepTx(cmt, 2*gas, w.e.NativeHash(w.t, nativenames.Designation), "designateAsRole", int64(noderoles.Oracle), w.pubs(desig)))
	}
	type pend struct {
		tx   *transaction.Transaction
		spec ReqSpec
		url  string
	}
	var ps []pend
	for _, s := range newReqs {
		seq := len(w.Order) + len(ps) + 1
		url := urlOf(s.Cls, seq)
		var filter, data any
		if s.Filter != "" {
			filter = []byte(s.Filter)
		}
		if s.Throw {
			data = "throw"
		}
		g := s.Gas * (gas / 100)
		tx := w.prepTx([]neotest.Signer{w.owner}, g+3*gas, w.kv, "oracleReq", url, filter, data, g)
		ps = append(ps, pend{tx, s, url})
		txs = append(txs, tx)
	}
	all, err := w.produce(txs...)
	if err != nil {
		return nil, nil, err
	}
	h := w.P.BlockHeight()
	for _, p := range ps {
		id, ok := w.requestIDOf(p.tx.Hash())
		if !ok {
			w.Stats["request_tx_failed"]++
			continue
		}
		r := &Req{ID: id, Seq: len(w.Order) + 1, Spec: p.spec, URL: p.url, Height: h, TxHash: p.tx.Hash(), Gas: p.spec.Gas * (gas / 100)}
		w.Reqs[id] = r
		w.Order = append(w.Order, id)
		made = append(made, r)
	}
	for _, tx := range all {
		id, ok := respID(tx)
		if !ok {
			continue
		}
		in := Included{Req: id, Hash: tx.Hash(), Code: tx.Attributes[0].Value.(*transaction.OracleResponse).Code.String()}
		aers, err := w.P.GetAppExecResults(tx.Hash(), trigger.Application)
		if err == nil && len(aers) > 0 {
			in.State = aers[0].VMState.String()
			for _, ev := range aers[0].Events {
				if ev.ScriptHash == nativehashes.OracleContract && ev.Name == "OracleResponse" {
					in.Resp++
				}
				if ev.ScriptHash == w.kv && ev.Name == "E1" {
					in.Cb++
				}
			}
			if aers[0].VMState != vmstate.Halt {
				in.Resp, in.Cb = 0, 0 // a FAULTed transaction leaves no notifications: count what it did before
				if strings.Contains(aers[0].FaultException, "callback refuses") {
					in.Cb = 1
				}
			}
		}
		inc = append(inc, in)
	}
	return made, inc, nil
}

func urlOf(cls string, seq int) string {
	switch cls {
	case "ftp":
		return fmt.Sprintf("ftp://h.example/%d", seq)
	case "malformed":
		return fmt.Sprintf("h.example:%d", seq)
	}
	return fmt.Sprintf("https://h.example/%s/%d", cls, seq)
}

func (w *World) requestIDOf(h util.Uint256) (uint64, bool) {
	aers, err := w.P.GetAppExecResults(h, trigger.Application)
	if err != nil || len(aers) == 0 || aers[0].VMState != vmstate.Halt {
		return 0, false
	}
	for _, ev := range aers[0].Events {
		if ev.ScriptHash == nativehashes.OracleContract && ev.Name == "OracleRequest" {
			if arr, ok := ev.Item.Value().([]stackitem.Item); ok && len(arr) > 0 {
				if id, err := arr[0].TryInteger(); err == nil {
					return id.Uint64(), true
				}
			}
		}
	}
	return 0, false
}

// Relay offers every transaction the services sent (and that was not offered yet) to the producer's pool.
type Relayed struct {
	S        *Sent
	Desig    []int // designated oracle keys of the producer's ledger when the transaction was offered
	Err      error
	Pending  bool
	Conflict bool
	H        uint32
}

func (w *World) Relay(reverse bool) []Relayed {
	w.mu.Lock()
	var todo []*Sent
	for _, s := range w.sent {
		if !s.relayed {
			s.relayed = true
			todo = append(todo, s)
		}
	}
	w.mu.Unlock()
	if reverse {
		slices.Reverse(todo)
	}
	var out []Relayed
	for _, s := range todo {
		r := Relayed{S: s, H: w.P.BlockHeight(), Desig: w.FactsOf(w.P).Desig}
		if id, ok := respID(s.Tx); ok {
			r.Pending = pendingOn(w.P, id)
			r.Conflict = poolHasResponse(w.P.GetMemPool(), id, s.Tx.Hash())
		}
		if w.P.GetMemPool().ContainsKey(s.Tx.Hash()) {
			r.Err = nil // the very same transaction from a second node
		} else if cp, err := transaction.NewTransactionFromBytes(s.Tx.Bytes()); err != nil {
			r.Err = err
		} else {
			r.Err = w.P.PoolTx(cp)
		}
		out = append(out, r)
	}
	return out
}

// TakeSent / TakeMsgs return what the services did since the last call.
func (w *World) TakeSent(from int) []*Sent {
	w.mu.Lock()
	defer w.mu.Unlock()
	return slices.Clone(w.sent[from:])
}
func (w *World) NSent() int { w.mu.Lock(); defer w.mu.Unlock(); return len(w.sent) }
func (w *World) TakeMsgs(from int) []*Msg {
	w.mu.Lock()
	defer w.mu.Unlock()
	return slices.Clone(w.msgs[from:])
}
func (w *World) NMsgs() int { w.mu.Lock(); defer w.mu.Unlock(); return len(w.msgs) }

// PendingOnChain lists the request ids pending on a ledger (read from the contract storage).
func (w *World) PendingOnChain(bc *core.Blockchain) []uint64 {
	out := []uint64{}
	bc.SeekStorage(nativeids.OracleContract, []byte{7}, func(k, v []byte) bool {
		if len(k) == 8 {
			var id uint64
			for _, b := range k {
				id = id<<8 | uint64(b)
			}
			out = append(out, id)
		}
		return true
	})
	slices.Sort(out)
	return out
}

// ---------------------------------------------------------------------------------------------- reading the service

// TxView is the projection of a response transaction.
type TxView struct {
	Hash    string `json:"hash"` // hash of the signed part
	Raw     string `json:"-"`
	Nonce   int64  `json:"nonce"`
	Vub     int    `json:"vub"`
	Sys     int64  `json:"sys"`
	Net     int64  `json:"net"`
	Code    string `json:"code"`
	Res     string `json:"res"`  // result (printable; long ones abbreviated to length + hash)
	RLen    int    `json:"rlen"` // length of the result
	Signers []int  `json:"keys"` // node ids of the multisignature account that signs (second signer)
	M       int    `json:"m"`
	Shape   bool   `json:"shape"` // script, signers, scopes, attributes, witness layout as the protocol prescribes
}

// IncView is the projection of one entry of the service's incomplete-transaction map.
type IncView struct {
	MainTx, BackupTx *transaction.Transaction
	Main, Backup     *TxView
	Sent             bool
	Sigs, BSigs      []int // keys whose signature is recorded as verified for main / backup
	USigs            []int // keys with a recorded, not yet verified signature
}

func unexported(v reflect.Value) reflect.Value {
	return reflect.NewAt(v.Type(), unsafe.Pointer(v.UnsafeAddr())).Elem()
}

// Peek reads the incomplete-transaction map of the node's service (the service is quiescent).
func (w *World) Peek(nd *Node) map[uint64]*IncView {
	out := map[uint64]*IncView{}
	if nd.Orc == nil {
		return out
	}
	m := unexported(reflect.ValueOf(nd.Orc).Elem().FieldByName("responses"))
	for _, k := range m.MapKeys() {
		s := m.MapIndex(k).Elem()
		v := &IncView{}
		if tx, _ := unexported(s.FieldByName("tx")).Interface().(*transaction.Transaction); tx != nil {
			v.Main, v.MainTx = w.view(tx), tx
		}
		if tx, _ := unexported(s.FieldByName("backupTx")).Interface().(*transaction.Transaction); tx != nil {
			v.Backup, v.BackupTx = w.view(tx), tx
		}
		v.Sent = unexported(s.FieldByName("isSent")).Bool()
		rd := func(name string) (ok, un []int) {
			sm := unexported(s.FieldByName(name))
			for _, pk := range sm.MapKeys() {
				e := sm.MapIndex(pk).Elem()
				id := w.keyID([]byte(pk.String()))
				if unexported(e.FieldByName("ok")).Bool() {
					ok = append(ok, id)
				} else {
					un = append(un, id)
				}
			}
			sort.Ints(ok)
			sort.Ints(un)
			return
		}
		var u1, u2 []int
		v.Sigs, u1 = rd("sigs")
		v.BSigs, u2 = rd("backupSigs")
		v.USigs = append(u1, u2...)
		sort.Ints(v.USigs)
		out[k.Uint()] = v
	}
	return out
}

func (w *World) keyID(pub []byte) int {
	for i := 0; i < w.N; i++ {
		if bytes.Equal(nodeKey(i).PublicKey().Bytes(), pub) {
			return i
		}
	}
	return 99
}

func (w *World) view(tx *transaction.Transaction) *TxView {
	v := &TxView{Nonce: int64(tx.Nonce), Vub: int(tx.ValidUntilBlock), Sys: tx.SystemFee, Net: tx.NetworkFee}
	// the signed part, encoded afresh (independent of any cached hash)
	raw := encodeHashable(tx)
	hw := hash.Sha256(raw)
	v.Hash = hex.EncodeToString(hw[:8])
	v.Raw = hex.EncodeToString(raw)
	shape := true
	if a := tx.GetAttributes(transaction.OracleResponseT); len(a) == 1 && len(tx.Attributes) == 1 {
		r := a[0].Value.(*transaction.OracleResponse)
		v.Code = r.Code.String()
		v.Res = printable(r.Result)
		v.RLen = len(r.Result)
	} else {
		shape = false
	}
	if len(tx.Signers) == 2 && tx.Signers[0].Account == nativehashes.OracleContract && tx.Signers[0].Scopes == transaction.None &&
		tx.Signers[1].Scopes == transaction.None && len(tx.Scripts) == 2 &&
		len(tx.Scripts[0].InvocationScript) == 0 && len(tx.Scripts[0].VerificationScript) == 0 &&
		hash.Hash160(tx.Scripts[1].VerificationScript) == tx.Signers[1].Account {
		if m, pubs, ok := scparser.ParseMultiSigContract(tx.Scripts[1].VerificationScript); ok {
			v.M = m
			for _, p := range pubs {
				v.Signers = append(v.Signers, w.keyID(p))
			}
			sort.Ints(v.Signers)
			// the account must be the DEFAULT multisignature contract of these keys (sorted keys, default threshold)
			var pk keys.PublicKeys
			for _, p := range pubs {
				k, err := keys.NewPublicKeyFromBytes(p, nodeKey(0).PublicKey().Curve)
				if err == nil {
					pk = append(pk, k)
				}
			}
			if def, err := smartcontract.CreateDefaultMultiSigRedeemScript(pk); err != nil || !bytes.Equal(def, tx.Scripts[1].VerificationScript) {
				shape = false
			}
		} else {
			shape = false
		}
	} else {
		shape = false
	}
	want, err := smartcontract.CreateCallScript(nativehashes.OracleContract, "finish")
	if err != nil || !bytes.Equal(tx.Script, want) || tx.Version != 0 {
		shape = false
	}
	v.Shape = shape
	if v.Signers == nil {
		v.Signers = []int{}
	}
	return v
}

func encodeHashable(tx *transaction.Transaction) []byte {
	cp := *tx // EncodeHashableFields does not touch the cached hash, the copy keeps the original untouched anyway
	b, err := cp.EncodeHashableFields()
	if err != nil {
		return []byte("unencodable: " + err.Error())
	}
	return b
}

func printable(b []byte) string {
	if len(b) <= 48 {
		for _, c := range b {
			if c < 0x20 || c > 0x7e || c == '"' || c == '\\' {
				return "hex:" + hex.EncodeToString(b)
			}
		}
		return "s:" + string(b)
	}
	h := hash.Sha256(b)
	return fmt.Sprintf("len:%d:%s", len(b), hex.EncodeToString(h[:6]))
}

// Witness analyses the multisignature witness of a sent transaction: which keys' signatures it carries (verified against
// the transaction itself), how many pushes.
func (w *World) Witness(tx *transaction.Transaction) (signers []int, pushes int, junk bool) {
	signers = []int{}
	if len(tx.Scripts) != 2 {
		return signers, 0, true
	}
	inv := tx.Scripts[1].InvocationScript
	var sigs [][]byte
	for i := 0; i < len(inv); {
		if inv[i] != 0x0c || i+2 > len(inv) { // PUSHDATA1
			return signers, len(sigs), true
		}
		l := int(inv[i+1])
		if i+2+l > len(inv) {
			return signers, len(sigs), true
		}
		sigs = append(sigs, inv[i+2:i+2+l])
		i += 2 + l
	}
	for _, s := range sigs {
		id := -1
		for k := 0; k < w.N; k++ {
			if nodeKey(k).PublicKey().VerifyHashable(s, uint32(w.net.Magic), tx) {
				id = k
			}
		}
		if id < 0 && outsider().PublicKey().VerifyHashable(s, uint32(w.net.Magic), tx) {
			id = 99
		}
		if id < 0 {
			junk = true
			continue
		}
		signers = append(signers, id)
	}
	return signers, len(sigs), junk
}

// reqOf resolves a pending request of a ledger.
func reqOf(bc *core.Blockchain, id uint64) *state.OracleRequest {
	key := make([]byte, 9)
	key[0] = 7
	for i := 0; i < 8; i++ {
		key[1+i] = byte(id >> (56 - 8*i))
	}
	si := bc.GetStorageItem(nativeids.OracleContract, key)
	if si == nil {
		return nil
	}
	r := new(state.OracleRequest)
	if err := stackitem.DeserializeConvertible(si, r); err != nil {
		return nil
	}
	return r
}
