//go:build verif

package c01oraclesvc

// Minimal reproductions of three defects of pkg/services/oracle this extension found (run with
//   cd /verif/harness && GOFLAGS=-mod=mod GOPROXY=off go test -tags verif -count=1 -vet=off -v -run TestRepro ./c01oraclesvc
// ).  They only print.  All three were repaired in /repo (9e0aa89, 99cbbbc, 8ec6243); against a tree without these
// commits they show: negative system fee / ValidUntilBlock one lower on most nodes / every response refused.  The check
// itself keeps them as scripted worlds (regressions) and reports such behaviour as "beyond:" observations.

import (
	"fmt"
	"testing"
)

func reproWorld(t *testing.T) *World {
	w, err := NewWorld(t, 4, 4, []int{0, 1, 2, 3}, t.TempDir())
	if err != nil {
		t.Fatal(err)
	}
	return w
}

func (w *World) reproRound(t *testing.T, r *Req, cls string) {
	for _, nd := range w.Nodes {
		for nd.H < len(w.blocks) {
			if err := w.Deliver(nd); err != nil {
				t.Fatal(err)
			}
		}
	}
	n0 := w.NMsgs()
	for _, nd := range w.Nodes {
		w.Answer(nd, r, cls)
	}
	for _, m := range w.TakeMsgs(n0) {
		for _, nd := range w.Nodes {
			if nd.Idx != m.Node && m.Req == r.ID {
				nd.Orc.AddResponse(nodeKey(m.Node).PublicKey(), m.Req, m.Sig)
			}
		}
	}
	w.Quiesce()
}

// A response that does not fit into the prepaid GAS is turned into InsufficientFunds, but its size (hence network fee) is
// still the one of the full result: io.GetVarSize([]transaction.Attribute) is 1 whatever the attributes hold (Attribute is
// Serializable only through its pointer), so "size - attrSize + newAttrSize" changes nothing and SystemFee goes negative.
func TestReproInsufficientFunds(t *testing.T) {
	w := reproWorld(t)
	defer w.Close()
	made, _, err := w.Mine([]ReqSpec{{Cls: "maxsize", Gas: 50}}, nil, nil)
	if err != nil {
		t.Fatal(err)
	}
	n0 := w.NSent()
	w.reproRound(t, made[0], "maxsize")
	v := w.Peek(w.Nodes[0])[made[0].ID]
	fmt.Printf("request prepaid %d; main: code %s result %q net %d sys %d\n", made[0].Gas, v.Main.Code, v.Main.Res, v.Main.Net, v.Main.Sys)
	for _, s := range w.TakeSent(n0) {
		fmt.Printf("  node %d sent it; its own ledger: %v\n", s.Node, s.Err)
	}
}

// A request that needs no fetch (scheme other than https / neofs) is processed while the block that carries it is still
// being stored: Blockchain.GetTransaction does not find the requesting transaction yet and the service falls back to
// "h = currentHeight", which is the height BEFORE that block: ValidUntilBlock of main and backup is one lower than on a
// node that lost the race.
func TestReproIntakeRace(t *testing.T) {
	raced, total := 0, 0
	for k := 0; k < 25; k++ {
		w := reproWorld(t)
		made, _, err := w.Mine([]ReqSpec{{Cls: "ftp", Gas: 100}}, nil, nil)
		if err != nil {
			t.Fatal(err)
		}
		var vubs []int
		for _, nd := range w.Nodes {
			if err := w.Deliver(nd); err != nil {
				t.Fatal(err)
			}
			if v := w.Peek(nd)[made[0].ID]; v != nil && v.Main != nil {
				total++
				vubs = append(vubs, v.Main.Vub)
				if v.Main.Vub != int(made[0].Height)+4 {
					raced++
				}
			}
		}
		if k < 5 {
			fmt.Printf("request in block %d, MaxValidUntilBlockIncrement 4: ValidUntilBlock of the four nodes' main transactions %v\n", made[0].Height, vubs)
		}
		w.Close()
	}
	fmt.Printf("%d of %d builds used the height before the request's block\n", raced, total)
}

// The committee sets a fee for the OracleResponse attribute (Policy.setAttributeFee): the service does not add it to the
// network fee, every response transaction (main and backup) is refused by the ledger.
func TestReproAttributeFee(t *testing.T) {
	w := reproWorld(t)
	defer w.Close()
	made, _, err := w.Mine([]ReqSpec{{Cls: "ok", Gas: 100}}, nil, &Fees{Attr: 100_0000})
	if err != nil {
		t.Fatal(err)
	}
	n0 := w.NSent()
	w.reproRound(t, made[0], "ok")
	fmt.Printf("facts %+v\n", w.FactsOf(w.P))
	for _, s := range w.TakeSent(n0) {
		fmt.Printf("  node %d sent the main transaction (net fee %d); its own ledger: %v\n", s.Node, s.Tx.NetworkFee, s.Err)
	}
}
